import Storrent.Lemmas.UploadSpec
import Storrent.Model.UploadTable
import Storrent.Gen.UploadTable
/-
C16 — Upload and choking discipline.

Model: `Model/Upload.lean` (transcription of the Request / Cancel / Interested /
NotInterested handlers, PeerUnchoke, unchoke, reject, scheduleUpload(immediate),
startStopUpload, the exit path of Run, NumUnchoking and Pieces.ReadAt), tied to peer.go by
the correspondence stream `harness/cmd/c16`.  The theorems quantify over

  * all histories `ops : List Op` from the empty process (`State.init`): any number of
    peers (Fast or not, with or without metadata) created at any time, any remote message
    with any index / offset / length, PeerUnchoke{true,false}, upload ticks, metadata
    arriving, pieces becoming complete or being evicted, peers exiting in any state;
  * every result of every `write` (`WEnv`: ok | congested | eof, chosen per call), every
    value of `isCongested`, every rate limiter (`lim : Nat → Bool`), every store content.

The property's predicate on the wire is `scan` (Model/Upload.lean): ghost `told`
(= toldUnchoked) and ghost `pending` (= pendingRemote).  `scan` returns `none` exactly when
a Piece is queued while the remote is choked, or answers no outstanding request (never
requested, already answered, cancelled, rejected, choked away).

Fixes the model includes: 01 (requests longer than 128 KiB are rejected), 02 (the queue is
cleared when the Choke has been written, even if a Reject cannot be written), 03 (a Request
whose index is beyond the last piece is ErrRange, like Have and Piece; before, on a torrent
with pieces of 2 GiB or more the int64 offset wrapped and ReadAt indexed `pieces[-n]`).
-/
namespace Storrent.Props.C16
open Storrent Storrent.Wire Storrent.Upload

/-- the state and wire trace after a history from the empty process -/
abbrev after (st : Store) (ops : List Op) : State := run (State.init st) ops
abbrev trace (st : Store) (ops : List Op) : List (Nat × Ev) := (runT (State.init st) ops).2

/-! ### tie to the source: constants, the Request guards and the sites that write the
    counter are what the model assumes (regenerated from peer/peer.go on every run) -/
theorem C16_gen_agrees :
    Gen.uploadReqQ = some reqQ ∧ Gen.uploadMaxRequestLength = some maxReqLen ∧
    Gen.uploadRequestGuards = expectedRequestGuards ∧
    Gen.uploadHeadDropLimit = expectedHeadDropLimit ∧
    Gen.uploadCounterSites = expectedCounterSites ∧
    Gen.uploadCounterRefs = expectedCounterRefs := by decide

/-! ### accounting -/

/-- `numUnchoking` equals the number of live peers with `amUnchoking = 1` after every
    history: exit while unchoked, failed Unchoke / Choke writes, NotInterested included -/
theorem C16_count_consistent (st : Store) (ops : List Op) :
    (after st ops).num = cnt (after st ops).peers :=
  (GInv_reach st ops).num

theorem C16_count_nonneg (st : Store) (ops : List Op) : 0 ≤ (after st ops).num := by
  rw [C16_count_consistent]; exact cnt_nonneg _

/-- the only faults of the model are the "NumUnchoking is negative" panic of the exit path
    and a faulting `ReadAt`; the first is unreachable: no op other than an upload tick ever
    panics, in any reachable state -/
theorem C16_negative_panic_unreachable (st : Store) (ops : List Op) (op : Op) (h : ¬ IsTick op) :
    (step (after st ops) op).2.panic = false := by
  have hg := GInv_reach st ops
  cases ht : op.target with
  | none => exact (step_untargeted _ op ht).2.2.2.2.2
  | some k =>
    cases hp : (after st ops).peers[k]? with
    | none => exact (step_nopeer_out _ op k ht hp).2.2
    | some p =>
      cases hl : p.live with
      | false => exact (step_dead_out _ op k p ht hp hl).2.2
      | true =>
        rw [(step_live _ op k p ht hp hl).2.2.2.1]
        cases hpan : (handle (after st ops).store p (after st ops).num op).panic with
        | false => rfl
        | true =>
          rcases (handle_quiet (after st ops).store p (after st ops).num op h).panic hpan with ⟨hu, hneg⟩
          have h1 := ind_le_cnt _ k p hp
          have h2 : ind p = 1 := by simp [ind, hl, hu]
          have h3 : (after st ops).num = cnt (after st ops).peers := hg.num
          omega

/-- the per-peer flag and what the remote was told agree in every reachable state -/
theorem C16_told_matches_flag (st : Store) (ops : List Op) (k : Nat) (p : Peer)
    (hp : (after st ops).peers[k]? = some p) :
    ∃ o, scan OSt.init (proj k (trace st ops)) = some o ∧ o.told = p.amUnchoking := by
  rcases (GInv_reach st ops).peers k p hp with ⟨o, h1, h2⟩
  exact ⟨o, h1, h2.told⟩

/-! ### what is sent -/

/-- the wire trace of every peer satisfies the property's predicate: every queued
    `Piece{i,b,d}` is queued while the remote is unchoked and consumes one element
    `(i,b,|d|)` of `pendingRemote` (so: requested, not yet answered, not cancelled, not
    rejected, not choked away) -/
theorem C16_piece_answers_request (st : Store) (ops : List Op) (k : Nat) :
    ∃ o, scan OSt.init (proj k (trace st ops)) = some o := by
  have hg := GInv_reach st ops
  cases hp : (after st ops).peers[k]? with
  | some p =>
    rcases hg.peers k p hp with ⟨o, h1, _⟩
    exact ⟨o, h1⟩
  | none =>
    have : (after st ops).peers.length ≤ k := by
      rcases Nat.lt_or_ge k (after st ops).peers.length with hh | hh
      · rw [List.getElem?_eq_getElem hh] at hp; cases hp
      · exact hh
    exact ⟨OSt.init, by rw [hg.none k this]; rfl⟩

/-- stream predicate "every Piece comes after an Unchoke with no Choke in between" -/
def unchokedAtPieces : Bool → List Ev → Bool
  | _, [] => true
  | _, .sent .unchoke :: es => unchokedAtPieces true es
  | _, .sent .choke :: es => unchokedAtPieces false es
  | t, .sent (.piece _ _ _) :: es => t && unchokedAtPieces t es
  | t, _ :: es => unchokedAtPieces t es

theorem scan_unchokedAtPieces (evs : List Ev) : ∀ (o o' : OSt), scan o evs = some o' →
    unchokedAtPieces o.told evs = true := by
  induction evs with
  | nil => intro _ _ _; rfl
  | cons e es ih =>
    intro o o' h
    rw [scan_cons] at h
    cases h1 : scan1 o e with
    | none => rw [h1] at h; cases h
    | some o1 =>
      rw [h1] at h
      simp only [Option.bind_some] at h
      have := ih o1 o' h
      cases e with
      | recv m =>
        have ht : o1.told = o.told := by
          cases m <;> simp only [scan1, Option.some.injEq] at h1 <;> subst h1 <;>
            (try split) <;> rfl
        rw [ht] at this
        simpa [unchokedAtPieces] using this
      | sent m =>
        cases m with
        | unchoke =>
          simp only [scan1, Option.some.injEq] at h1; subst h1
          simpa [unchokedAtPieces] using this
        | choke =>
          simp only [scan1, Option.some.injEq] at h1; subst h1
          simpa [unchokedAtPieces] using this
        | piece i b d =>
          simp only [scan1] at h1
          split at h1
          · rename_i hc
            simp only [Option.some.injEq] at h1; subst h1
            simp only [unchokedAtPieces, hc.1, Bool.true_and]
            simpa [hc.1] using this
          · cases h1
        | reject i b l =>
          simp only [scan1, Option.some.injEq] at h1; subst h1
          have ht : (if (⟨i, b, l⟩ : Req) ∈ o.cancelled then
              { o with cancelled := o.cancelled.erase ⟨i, b, l⟩ }
              else { o with pending := o.pending.erase ⟨i, b, l⟩ }).told = o.told := by
            split <;> rfl
          rw [ht] at this
          simpa [unchokedAtPieces] using this
        | _ =>
          simp only [scan1, Option.some.injEq] at h1; subst h1
          simpa [unchokedAtPieces] using this

/-- a Piece is queued only while `amUnchoking = 1` and the remote has been sent Unchoke
    after the last Choke: (a) on the wire trace of every peer, for every history -/
theorem C16_piece_only_when_unchoking (st : Store) (ops : List Op) (k : Nat) :
    unchokedAtPieces false (proj k (trace st ops)) = true := by
  rcases C16_piece_answers_request st ops k with ⟨o, h⟩
  exact scan_unchokedAtPieces _ OSt.init o h

/-- what a step that queues a Piece looks like, in any state: an upload tick on a live,
    unchoked peer, uncongested, the head request `q` admitted by the limiter; the Piece
    carries `q`'s index and offset and what `ReadAt` returned, of exactly the requested
    length -/
theorem piece_step (s : State) (op : Op) (i b : Nat) (d : Bytes)
    (h : Msg.piece i b d ∈ (step s op).2.msgs) :
    ∃ k cong lim w p q rest, op = .tick k cong lim w ∧ s.peers[k]? = some p ∧ p.live = true ∧
      p.amUnchoking = true ∧ p.requested = q :: rest ∧ cong = false ∧ lim q.l = true ∧
      q.i = i ∧ q.b = b ∧ d.length = q.l ∧
      readAt s.store q.l (offInt64 q.i s.store.ps q.b) = .data d := by
  cases ht : op.target with
  | none => rw [(step_untargeted s op ht).2.2.2.1] at h; cases h
  | some k =>
    cases hp : s.peers[k]? with
    | none => rw [(step_nopeer_out s op k ht hp).1] at h; cases h
    | some p =>
      cases hl : p.live with
      | false => rw [(step_dead_out s op k p ht hp hl).1] at h; cases h
      | true =>
        rw [(step_live s op k p ht hp hl).2.1] at h
        by_cases hT : IsTick op
        · cases hT with
          | mk k' cong lim w =>
            have hk : k' = k := by simpa [Op.target] using ht
            subst hk
            simp only [handle] at h
            rcases onTick_spec s.store p s.num cong lim w with ⟨h1, _, _⟩ | ⟨q, rest, hu, hq, hc, hlim, _, h2⟩
            · rw [h1] at h; cases h
            · rcases h2 with ⟨_, h2⟩ | ⟨d', hrd, _, h3⟩
              · rw [h2] at h; cases h
              · rcases h3 with ⟨_, hnp⟩ | ⟨hdl, h4 | h4⟩
                · exact absurd h (hnp i b d)
                · rw [h4] at h
                  simp only [List.mem_cons, Msg.piece.injEq, List.not_mem_nil, or_false] at h
                  rcases h with ⟨hi, hb, hd⟩
                  subst hd
                  exact ⟨k', cong, lim, w, p, q, rest, rfl, hp, hl, hu, hq, hc, hlim, hi.symm,
                    hb.symm, hdl, hrd⟩
                · rw [h4] at h; cases h
        · exact absurd h ((handle_quiet s.store p s.num op hT).nopiece i b d)

/-- (b) state level: in every reachable state, a step that queues a Piece for peer `k`
    finds `amUnchoking = 1` and the ghost `toldUnchoked` set -/
theorem C16_piece_only_when_unchoking_state (st : Store) (ops : List Op) (op : Op) (i b : Nat)
    (d : Bytes) (h : Msg.piece i b d ∈ (step (after st ops) op).2.msgs) :
    ∃ k p o, op.target = some k ∧ (after st ops).peers[k]? = some p ∧ p.amUnchoking = true ∧
      scan OSt.init (proj k (trace st ops)) = some o ∧ o.told = true ∧
      (⟨i, b, d.length⟩ : Req) ∈ o.pending := by
  rcases piece_step _ op i b d h with ⟨k, cong, lim, w, p, q, rest, hop, hp, _, hu, hq, _, _, hi, hb, hdl, _⟩
  rcases (GInv_reach st ops).peers k p hp with ⟨o, h1, h2⟩
  refine ⟨k, p, o, by rw [hop]; rfl, hp, hu, h1, by rw [h2.told]; exact hu, ?_⟩
  have : q ∈ o.pending := by
    have := h2.sub; rw [hq] at this; exact this.head_mem
  rw [← hi, ← hb, hdl, req_eta]; exact this

/-! #### no request is answered twice -/

def isPieceFor (r : Req) : Ev → Bool
  | .sent (.piece i b d) => decide ((⟨i, b, d.length⟩ : Req) = r)
  | _ => false

def isRequestFor (r : Req) : Ev → Bool
  | .recv (.request i b l) => decide ((⟨i, b, l⟩ : Req) = r)
  | _ => false

theorem count_erase_le (l : List Req) (a r : Req) : (l.erase a).count r ≤ l.count r := by
  rw [List.count_erase]; omega

theorem scan_counts (r : Req) (evs : List Ev) : ∀ (o o' : OSt), scan o evs = some o' →
    evs.countP (isPieceFor r) + o'.pending.count r ≤ o.pending.count r + evs.countP (isRequestFor r) := by
  induction evs with
  | nil =>
    intro o o' h
    simp only [scan, Option.some.injEq] at h; subst h; simp
  | cons e es ih =>
    intro o o' h
    rw [scan_cons] at h
    cases h1 : scan1 o e with
    | none => rw [h1] at h; cases h
    | some o1 =>
      rw [h1] at h
      simp only [Option.bind_some] at h
      have := ih o1 o' h
      simp only [List.countP_cons]
      cases e with
      | recv m =>
        cases m with
        | request i b l =>
          simp only [scan1, Option.some.injEq] at h1
          subst h1
          simp only [isPieceFor, isRequestFor, Bool.false_eq_true, if_false, Nat.add_zero]
          by_cases ht : o.told = true
          · simp only [ht, if_true, List.count_cons] at this
            by_cases hr : (⟨i, b, l⟩ : Req) = r
            · simp only [hr, beq_self_eq_true, decide_true, if_true] at this ⊢; omega
            · have hne : ((⟨i, b, l⟩ : Req) == r) = false := by simpa using hr
              simp only [hne, Bool.false_eq_true, if_false, hr, decide_false] at this ⊢; omega
          · have htf : o.told = false := by cases hh : o.told <;> simp_all
            simp only [htf, Bool.false_eq_true, if_false] at this
            by_cases hr : (⟨i, b, l⟩ : Req) = r <;> simp [hr] <;> omega
        | cancel i b l =>
          simp only [scan1, Option.some.injEq] at h1
          subst h1
          simp only [isPieceFor, isRequestFor, Bool.false_eq_true, if_false, Nat.add_zero]
          have hle := count_erase_le o.pending ⟨i, b, l⟩ r
          split at this
          · simp only at this; omega
          · omega
        | _ =>
          simp only [scan1, Option.some.injEq] at h1
          subst h1
          simp only [isPieceFor, isRequestFor, Bool.false_eq_true, if_false, Nat.add_zero]
          omega
      | sent m =>
        cases m with
        | piece i b d =>
          simp only [scan1] at h1
          split at h1
          · rename_i hc
            simp only [Option.some.injEq] at h1; subst h1
            simp only [isPieceFor, isRequestFor, Bool.false_eq_true, if_false, Nat.add_zero]
            simp only at this
            rw [List.count_erase] at this
            by_cases hr : (⟨i, b, d.length⟩ : Req) = r
            · have hpos : 0 < o.pending.count r := by
                rw [← hr]; exact List.count_pos_iff.mpr hc.2
              simp only [hr, beq_self_eq_true, decide_true, if_true] at this ⊢; omega
            · have hne : ((⟨i, b, d.length⟩ : Req) == r) = false := by simpa using hr
              simp only [hne, Bool.false_eq_true, if_false, hr, decide_false] at this ⊢; omega
          · cases h1
        | choke =>
          simp only [scan1, Option.some.injEq] at h1; subst h1
          simp only [isPieceFor, isRequestFor, Bool.false_eq_true, if_false, Nat.add_zero]
          simp only [List.count_nil] at this; omega
        | reject i b l =>
          simp only [scan1, Option.some.injEq] at h1; subst h1
          simp only [isPieceFor, isRequestFor, Bool.false_eq_true, if_false, Nat.add_zero]
          have hle := count_erase_le o.pending ⟨i, b, l⟩ r
          split at this
          · simp only at this; omega
          · simp only at this; omega
        | _ =>
          simp only [scan1, Option.some.injEq] at h1; subst h1
          simp only [isPieceFor, isRequestFor, Bool.false_eq_true, if_false, Nat.add_zero]
          omega

/-- on every peer's wire, for every `(i,b,l)`: the number of Pieces answering it never
    exceeds the number of Requests received for it — no request is answered twice -/
theorem C16_no_double_answer (st : Store) (ops : List Op) (k : Nat) (r : Req) :
    (proj k (trace st ops)).countP (isPieceFor r) ≤ (proj k (trace st ops)).countP (isRequestFor r) := by
  rcases C16_piece_answers_request st ops k with ⟨o, h⟩
  have := scan_counts r _ OSt.init o h
  simp only [OSt.init, List.count_nil] at this
  omega

/-! ### the payload -/

/-- a queued `Piece{i,b,d}` with data: `d` is `ReadAt`'s result at `i·ps+b` for the
    requested length, i.e. exactly the bytes `[off, off+|d|)` of the true content, all
    inside one piece that is complete (hash-verified, C01) at that moment.  In any state,
    for any store.  (An empty `d` answers a zero-length request.) -/
theorem C16_payload_verified (s : State) (op : Op) (i b : Nat) (d : Bytes)
    (h : Msg.piece i b d ∈ (step s op).2.msgs) (hd : d ≠ []) :
    let off := offInt64 i s.store.ps b
    0 ≤ off ∧ off < s.store.length ∧
    (off.toNat / s.store.ps) ∈ s.store.held ∧
    d = slice s.store.content off.toNat d.length ∧
    off.toNat % s.store.ps + d.length ≤ s.store.pieceLen (off.toNat / s.store.ps) := by
  rcases piece_step s op i b d h with ⟨_, _, _, _, _, q, _, _, _, _, _, _, _, _, hi, hb, _, hrd⟩
  rw [hi, hb] at hrd
  have := readAt_data s.store q.l _ d hrd hd
  exact ⟨this.1, this.2.1, this.2.2.2.1, this.2.2.2.2.1, this.2.2.2.2.2.2⟩

/-- with the offsets storrent can see (`i·ps + b < 2^63`, true whenever `ps ≤ 2^31` and the
    fields are `uint32`s) the offset is the mathematical one -/
theorem C16_payload_offset (i ps b : Nat) (h : i * ps + b < 9223372036854775808) :
    offInt64 i ps b = ((i * ps + b : Nat) : Int) := offInt64_eq i ps b h

/-- the length served is the length requested, and the request was at the head of the
    peer's queue: a request storrent will not serve is rejected or dropped, never answered
    with other data -/
theorem C16_piece_is_head_request (s : State) (op : Op) (i b : Nat) (d : Bytes)
    (h : Msg.piece i b d ∈ (step s op).2.msgs) :
    ∃ k p rest, op.target = some k ∧ s.peers[k]? = some p ∧
      p.requested = ⟨i, b, d.length⟩ :: rest := by
  rcases piece_step s op i b d h with ⟨k, _, _, _, p, q, rest, hop, hp, _, _, hq, _, _, hi, hb, hdl, _⟩
  refine ⟨k, p, rest, by rw [hop]; rfl, hp, ?_⟩
  rw [hq, ← hi, ← hb, hdl, req_eta]

/-! ### bounds -/

/-- every request in an upload queue is at most 128 KiB long, the queue of a choked peer is
    empty, and a live peer with queued requests has its upload ticker armed -/
theorem C16_queue_wellformed (st : Store) (ops : List Op) (k : Nat) (p : Peer)
    (hp : (after st ops).peers[k]? = some p) :
    (∀ r ∈ p.requested, r.l ≤ maxReqLen) ∧ (p.amUnchoking = false → p.requested = []) ∧
    (p.hasInfo = false → p.requested = []) ∧
    (p.live = true → p.requested ≠ [] → p.ticking = true) := by
  rcases (GInv_reach st ops).peers k p hp with ⟨o, _, h⟩
  exact ⟨h.len, fun hc => (h.choked hc).1, h.noinfo, h.tick⟩

/-- the buffer obtained to serve a request: only an upload tick allocates, only for the head
    request `q` of an unchoked peer, only when the limiter (a parameter) admits `q.l`, and
    exactly `q.l` bytes — which in every reachable state is at most 128 KiB -/
theorem C16_alloc_per_request (st : Store) (ops : List Op) (op : Op)
    (h : (step (after st ops) op).2.alloc ≠ 0) :
    ∃ k cong lim w p q rest, op = .tick k cong lim w ∧ (after st ops).peers[k]? = some p ∧
      p.requested = q :: rest ∧ lim q.l = true ∧
      (step (after st ops) op).2.alloc = q.l ∧ q.l ≤ maxReqLen := by
  cases ht : op.target with
  | none => exact absurd (step_untargeted _ op ht).2.2.2.2.1 h
  | some k =>
    cases hp : (after st ops).peers[k]? with
    | none => exact absurd (step_nopeer_out _ op k ht hp).2.1 h
    | some p =>
      cases hl : p.live with
      | false => exact absurd (step_dead_out _ op k p ht hp hl).2.1 h
      | true =>
        have ha := (step_live _ op k p ht hp hl).2.2.1
        rw [ha] at h ⊢
        by_cases hT : IsTick op
        · cases hT with
          | mk k' cong lim w =>
            have hk : k' = k := by simpa [Op.target] using ht
            subst hk
            simp only [handle] at h ⊢
            rcases onTick_spec (after st ops).store p (after st ops).num cong lim w with
              ⟨_, h1, _⟩ | ⟨q, rest, _, hq, _, hlim, hal, _⟩
            · exact absurd h1 h
            · refine ⟨k', cong, lim, w, p, q, rest, rfl, hp, hq, hlim, hal, ?_⟩
              exact (C16_queue_wellformed st ops k' p hp).1 q (by rw [hq]; simp)
        · exact absurd (handle_quiet _ p _ op hT).alloc h

/-- number of Requests, in the history, whose head-drop Reject could not be written
    (Fast peer, queue at 250 or more, writer congested or dead) -/
def keeps (k : Nat) : State → List Op → Nat
  | _, [] => 0
  | s, op :: ops =>
    (match op.target, s.peers[k]? with
      | some k', some p => if k' = k ∧ p.live = true ∧ headKeep p op = true then 1 else 0
      | _, _ => 0) + keeps k (step s op).1 ops

theorem run_cons (s : State) (op : Op) (ops : List Op) : run s (op :: ops) = run (step s op).1 ops := rfl

theorem queue_bound_gen (k : Nat) (ops : List Op) : ∀ (s : State) (n : Nat),
    (∀ p, s.peers[k]? = some p → p.requested.length ≤ reqQ + n) →
    ∀ p, (run s ops).peers[k]? = some p → p.requested.length ≤ reqQ + n + keeps k s ops := by
  induction ops with
  | nil => intro s n h p hp; simpa [run, runT, keeps] using h p hp
  | cons op ops ih =>
    intro s n h p hp
    rw [run_cons] at hp
    simp only [keeps]
    have := ih (step s op).1
      (n + (match op.target, s.peers[k]? with
        | some k', some p => if k' = k ∧ p.live = true ∧ headKeep p op = true then 1 else 0
        | _, _ => 0)) ?_ p hp
    · omega
    · intro p' hp'
      cases ht : op.target with
      | none =>
        rcases (step_untargeted s op ht).2.2.1 with h3 | ⟨f, i, h3⟩
        · rw [h3] at hp'; have := h p' hp'; simp only; omega
        · rw [h3] at hp'
          by_cases hk : k < s.peers.length
          · rw [List.getElem?_append_left hk] at hp'; have := h p' hp'; simp only; omega
          · rw [List.getElem?_append_right (by omega)] at hp'
            cases hh : k - s.peers.length with
            | zero =>
              rw [hh] at hp'
              simp only [List.getElem?_cons_zero, Option.some.injEq] at hp'
              subst hp'; simp [Peer.fresh]
            | succ m => rw [hh] at hp'; simp at hp'
      | some k' =>
        cases hq : s.peers[k']? with
        | none =>
          rw [(step_nopeer s op k' ht hq).1] at hp'
          have := h p' hp'; omega
        | some q =>
          cases hl : q.live with
          | false =>
            rw [(step_dead s op k' q ht hq hl).1] at hp'
            have := h p' hp'; omega
          | true =>
            rw [(step_live s op k' q ht hq hl).1] at hp'
            simp only at hp'
            rw [List.getElem?_set] at hp'
            by_cases hkk : k' = k
            · subst hkk
              have hklt : k' < s.peers.length := by
                rcases Nat.lt_or_ge k' s.peers.length with hh | hh
                · exact hh
                · rw [List.getElem?_eq_none hh] at hq; cases hq
              simp only [if_true, hklt, Option.some.injEq] at hp'
              subst hp'
              have h1 := (handle_len s.store q s.num op).1
              have h2 := h q hq
              simp only [hq, true_and, hl]
              split <;> rename_i hh <;> simp only [hh] at h1
              · simp only [if_true] at h1; omega
              · simp only [Bool.false_eq_true, if_false] at h1; omega
            · simp only [hkk, if_false] at hp'
              have := h p' hp'; omega

/-- everything a peer keeps that traffic can make grow (`Peer.items`: the sum of the lengths
    of all its list-valued fields — the harness measures the same total on the real
    `peer.Peer` by reflection over every slice, map and channel) is at most 250 + the number
    of head-drop Rejects that could not be written, for every peer after every history -/
theorem C16_queue_bounded (st : Store) (ops : List Op) (k : Nat) (p : Peer)
    (hp : (after st ops).peers[k]? = some p) :
    p.items ≤ reqQ + keeps k (State.init st) ops := by
  have := queue_bound_gen k ops (State.init st) 0 (by intro p hp; simp [State.init] at hp) p hp
  simp only [Peer.items]
  omega

/-- and what a single handler invocation hands to the writer (whose channel is bounded) is
    at most one message, or — for a choke — the Choke and one Reject per queued request:
    nothing is remembered for later, in any state, for any environment -/
theorem C16_step_output_bounded (s : State) (op : Op) :
    (step s op).2.msgs.length ≤ reqQ + 1 ∨
    ∃ k p, op.target = some k ∧ s.peers[k]? = some p ∧ (step s op).2.msgs.length ≤ p.items + 1 := by
  cases ht : op.target with
  | none => left; rw [(step_untargeted s op ht).2.2.2.1]; simp
  | some k =>
    cases hp : s.peers[k]? with
    | none => left; rw [(step_nopeer_out s op k ht hp).1]; simp
    | some p =>
      cases hl : p.live with
      | false => left; rw [(step_dead_out s op k p ht hp hl).1]; simp
      | true =>
        right
        refine ⟨k, p, rfl, hp, ?_⟩
        rw [(step_live s op k p ht hp hl).2.1]
        exact handle_outlen s.store p s.num op

/-- per step, in any state: the queue grows by at most one request per message, and from
    250 up it does not grow at all unless the peer is Fast and the head-drop Reject could not
    be written; hence ≤ 250 outright for a peer without the Fast extension or with an
    uncongested writer -/
theorem C16_queue_bounded_step (st : Store) (p : Peer) (num : Int) (op : Op)
    (h : p.canFast = false ∨ ∀ k m w, op = .recv k m w → w.next.1 = .ok) :
    (handle st p num op).p.requested.length ≤ max p.requested.length reqQ := by
  have h1 := (handle_len st p num op).1
  have h2 : headKeep p op = false := by
    cases op with
    | recv k m w =>
      cases m with
      | request i b l =>
        rcases h with h | h
        · simp [headKeep, h]
        · simp [headKeep, h k _ w rfl]
      | _ => rfl
    | _ => rfl
  simpa [h2] using h1

/-! ### ReadAt cannot fault on a sane geometry -/

theorem readAt_no_panic (s : Store) (n : Nat) (off : Int) (hps : 0 < s.ps) (h0 : 0 ≤ off) :
    readAt s n off ≠ .panic := by
  unfold readAt
  split
  · intro h; cases h
  · split
    · omega
    · split
      · omega
      · simp only; split <;> intro h <;> cases h

/-- the upload tick does not fault when the piece size is positive and below 2^31 (what a
    real torrent has) and the head request's fields are `uint32`s -/
theorem C16_tick_no_panic (st : Store) (p : Peer) (num : Int) (cong : Bool) (lim : Nat → Bool)
    (w : WEnv) (hps : 0 < st.ps) (hps2 : st.ps ≤ 2147483647)
    (hq : ∀ q ∈ p.requested, q.i < 4294967296 ∧ q.b < 4294967296) :
    (onTick st p num cong lim w).panic = false := by
  rcases onTick_spec st p num cong lim w with ⟨_, _, h⟩ | ⟨q, rest, _, hr, _, _, _, h⟩
  · exact h
  · rcases h with ⟨hp, _⟩ | ⟨_, _, h, _⟩
    · have hb := hq q (by rw [hr]; simp)
      have hlt : q.i * st.ps + q.b < 9223372036854775808 := by
        have : q.i * st.ps ≤ 4294967295 * 2147483647 :=
          Nat.mul_le_mul (by omega) hps2
        omega
      have := readAt_no_panic st q.l (offInt64 q.i st.ps q.b) hps
        (by rw [offInt64_eq _ _ _ hlt]; omega)
      exact absurd hp this
    · exact h

/-! ### non-vacuity: a history in which a Piece is served, one in which the queue is
    choked away, one in which the peer exits while unchoked -/

def demoStore : Store := { ps := 16384, length := 40000, held := [], content := fun k => UInt8.ofNat (k + 1) }
def okW : WEnv := ⟨[], .ok⟩
def demoOps : List Op :=
  [.newPeer true true, .storeAdd 1, .recv 0 .interested okW, .unchoke 0 true okW,
   .recv 0 (.request 1 5 3) okW, .recv 0 (.request 2 0 3) okW]

example : (step (after demoStore demoOps) (.tick 0 false (fun _ => true) okW)).2.msgs
    = [.piece 1 5 [UInt8.ofNat 16390, UInt8.ofNat 16391, UInt8.ofNat 16392]] := by decide
example : (after demoStore demoOps).num = 1 := by decide
example : (after demoStore (demoOps ++ [.tick 0 false (fun _ => true) okW])).peers.map (·.requested)
    = [[⟨2, 0, 3⟩]] := by decide
-- the second request is for a piece that is not held: rejected, never answered with data
example : (step (after demoStore (demoOps ++ [.tick 0 false (fun _ => true) okW]))
    (.tick 0 false (fun _ => true) okW)).2.msgs = [.reject 2 0 3] := by decide
-- choke with a writer that accepts the Choke and nothing else: the queue is gone (fix 02)
example : (after demoStore (demoOps ++ [.recv 0 .notInterested ⟨[.ok], .congested⟩])).peers.map
    (fun p => (p.amUnchoking, p.requested)) = [(false, [])] := by decide
-- exit while unchoked releases the count
example : (after demoStore (demoOps ++ [.exit 0])).num = 0 := by decide
-- a request beyond the last piece is an error, nothing is queued (fix 03)
example : ((step (after demoStore demoOps) (.recv 0 (.request 3 0 16) okW)).2.err,
    (step (after demoStore demoOps) (.recv 0 (.request 3 0 16) okW)).1.peers.map (·.requested.length))
    = (Err.range, [2]) := by decide
-- the model's ReadAt faults exactly where Go's does: 4 GiB pieces, largest index and offset
example : (match readAt { ps := 4294950912, length := 12884852736, held := [], content := fun _ => 0 } 1
    (offInt64 4294967295 4294950912 4294967295) with | .panic => true | .data _ => false) = true := by
  decide
-- a request longer than 128 KiB is rejected at once (fix 01)
example : (step (after demoStore demoOps) (.recv 0 (.request 1 0 131073) okW)).2.msgs
    = [.reject 1 0 131073] := by decide

end Storrent.Props.C16
