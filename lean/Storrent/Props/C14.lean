import Storrent.Model.Files
/-
C14 — Web-seed data lands exactly where it belongs.
-/
namespace Storrent.Props.C14
open Storrent Storrent.Files

/-! ### fileChunks partitions the requested range over the file table -/

/-- the file table is laid out contiguously from `b`, no negative length
    (what `Torrent.MetadataComplete` builds from a well-formed info dictionary) -/
def Laid : Int → List FileEnt → Prop
  | _, [] => True
  | b, f :: r => f.offset = b ∧ 0 ≤ f.length ∧ Laid (b + f.length) r

def tableEnd : Int → List FileEnt → Int
  | b, [] => b
  | b, f :: r => tableEnd (b + f.length) r

/-- chunk `fc` names file `fc.idx` of the table, lies inside it, is not empty, and starts at
    absolute torrent offset `a` -/
def ChunkAt (tbl : List FileEnt) (fc : FileChunk) (a : Int) : Prop :=
  ∃ f, tbl[fc.idx]? = some f ∧ fc.filelength = f.length ∧ fc.pad = f.pad ∧
    0 ≤ fc.offset ∧ 0 < fc.length ∧ fc.offset + fc.length ≤ f.length ∧ f.offset + fc.offset = a

/-- the chunks, in strictly increasing file order from `lo`, cover `[a, b)` without gap or overlap -/
def Tiles (tbl : List FileEnt) : Nat → Int → Int → List FileChunk → Prop
  | _, a, b, [] => a = b
  | lo, a, b, fc :: r => lo ≤ fc.idx ∧ ChunkAt tbl fc a ∧ Tiles tbl (fc.idx + 1) (a + fc.length) b r

theorem Tiles.mono {tbl : List FileEnt} {lo lo' : Nat} {a b : Int} {cs : List FileChunk}
    (h : Tiles tbl lo' a b cs) (hlo : lo ≤ lo') : Tiles tbl lo a b cs := by
  cases cs with
  | nil => exact h
  | cons fc r => exact ⟨Nat.le_trans hlo h.1, h.2⟩

theorem fileChunksLoop_tiles (suf : List FileEnt) :
    ∀ (pre : List FileEnt) (b o l : Int), Laid b suf → b ≤ o → 0 < l → o + l ≤ tableEnd b suf →
      Tiles (pre ++ suf) pre.length o (o + l) (fileChunksLoop suf pre.length o l) := by
  induction suf with
  | nil =>
    intro pre b o l _ hb hl he
    simp [tableEnd] at he
    omega
  | cons f rest ih =>
    intro pre b o l hL hb hl he
    obtain ⟨hfo, hfl, hLr⟩ := hL
    have hassoc : pre ++ f :: rest = (pre ++ [f]) ++ rest := by simp
    have hlen : (pre ++ [f]).length = pre.length + 1 := by simp
    unfold fileChunksLoop
    simp only [tableEnd] at he
    split
    · -- continue
      rename_i h1
      have := ih (pre ++ [f]) (b + f.length) o l hLr (by omega) hl he
      rw [hassoc]; rw [hlen] at this; exact this.mono (Nat.le_succ _)
    · rename_i h1
      split
      · rename_i h2; omega
      · rename_i h2
        have hget : (pre ++ f :: rest)[pre.length]? = some f := by simp
        dsimp only
        by_cases hm : f.length - (o - f.offset) > l
        · -- the file extends beyond the range: last chunk, of length l
          rw [if_pos hm, if_pos (by omega)]
          exact ⟨Nat.le_refl _, ⟨f, hget, rfl, rfl, by dsimp only; omega, by dsimp only; omega,
            by dsimp only; omega, by dsimp only; omega⟩, rfl⟩
        · rw [if_neg hm]
          by_cases h3 : l - (f.length - (o - f.offset)) ≤ 0
          · rw [if_pos h3]
            exact ⟨Nat.le_refl _, ⟨f, hget, rfl, rfl, by dsimp only; omega, by dsimp only; omega,
              by dsimp only; omega, by dsimp only; omega⟩, by dsimp only [Tiles]; omega⟩
          · rw [if_neg h3]
            refine ⟨Nat.le_refl _, ⟨f, hget, rfl, rfl, by dsimp only; omega, by dsimp only; omega,
              by dsimp only; omega, by dsimp only; omega⟩, ?_⟩
            dsimp only
            have := ih (pre ++ [f]) (b + f.length) (o + (f.length - (o - f.offset)))
              (l - (f.length - (o - f.offset))) hLr (by omega) (by omega) (by omega)
            rw [hassoc]; rw [hlen] at this
            have e : o + (f.length - (o - f.offset)) + (l - (f.length - (o - f.offset))) = o + l := by omega
            rw [e] at this
            exact this

/-- **fileChunks partition.**  For every contiguous file table (any number of files, empty files,
    padding files) and every range `[o, o+l)` inside the torrent, `l > 0`: the chunks come in file
    order, each names an existing file with its length and padding flag, lies inside that file, is
    non-empty (so zero-length files are skipped), and together they cover `[o, o+l)` exactly once. -/
theorem C14_filechunks_partition (tbl : List FileEnt) (o l : Int)
    (hL : Laid 0 tbl) (ho : 0 ≤ o) (hl : 0 < l) (he : o + l ≤ tableEnd 0 tbl) :
    Tiles tbl 0 o (o + l) (fileChunksLoop tbl 0 o l) := by
  simpa using fileChunksLoop_tiles tbl [] 0 o l hL ho hl he


/-- the chunk lengths add up to the length of the range -/
theorem Tiles.sum {tbl : List FileEnt} : ∀ {cs : List FileChunk} {lo : Nat} {a b : Int},
    Tiles tbl lo a b cs → a + (cs.map (·.length)).sum = b := by
  intro cs
  induction cs with
  | nil => intro lo a b h; simpa [Tiles] using h
  | cons fc r ih =>
    intro lo a b h
    have := ih h.2.2
    simp only [List.map_cons, List.sum_cons]
    omega

theorem C14_filechunks_lengths (tbl : List FileEnt) (o l : Int)
    (hL : Laid 0 tbl) (ho : 0 ≤ o) (hl : 0 < l) (he : o + l ≤ tableEnd 0 tbl) :
    ((fileChunksLoop tbl 0 o l).map (·.length)).sum = l := by
  have := (C14_filechunks_partition tbl o l hL ho hl he).sum
  omega

/-! #### which files are padding is decided by the attribute alone -/

/-- the file table MetadataComplete builds from the `(length, attr)` entries of the metainfo
    (paths play no part in it) -/
def mkTable : Int → List (Int × String) → List FileEnt
  | _, [] => []
  | b, x :: r => mkFileEnt b x.1 x.2 :: mkTable (b + x.1) r

theorem mkTable_laid : ∀ (specs : List (Int × String)) (b : Int), (∀ x ∈ specs, 0 ≤ x.1) →
    Laid b (mkTable b specs) := by
  intro specs
  induction specs with
  | nil => intro _ _; trivial
  | cons x r ih =>
    intro b h
    exact ⟨rfl, h x (List.mem_cons_self ..), ih _ (fun y hy => h y (List.mem_cons_of_mem _ hy))⟩

theorem mkTable_get : ∀ (specs : List (Int × String)) (b : Int) (i : Nat) (f : FileEnt),
    (mkTable b specs)[i]? = some f → ∃ x, specs[i]? = some x ∧ f.pad = padOfAttr x.2 ∧ f.length = x.1 := by
  intro specs
  induction specs with
  | nil => intro b i f h; simp [mkTable] at h
  | cons x r ih =>
    intro b i f h
    cases i with
    | zero =>
      simp only [mkTable, List.getElem?_cons_zero, Option.some.injEq] at h
      subst h
      exact ⟨x, rfl, rfl, rfl⟩
    | succ i =>
      simp only [mkTable, List.getElem?_cons_succ] at h
      simpa using ih _ i f h

theorem Tiles.mem {tbl : List FileEnt} : ∀ {cs : List FileChunk} {lo : Nat} {a b : Int},
    Tiles tbl lo a b cs → ∀ fc ∈ cs, ∃ a', ChunkAt tbl fc a' := by
  intro cs
  induction cs with
  | nil => intro lo a b _ fc hfc; simp at hfc
  | cons c r ih =>
    intro lo a b h fc hfc
    rcases List.mem_cons.1 hfc with rfl | hfc
    · exact ⟨a, h.2.1⟩
    · exact ih h.2.2 fc hfc

/-- **Padding is decided by the attribute only.**  For every metainfo file list (lengths and
    attribute strings; the paths do not even enter the model) and every range inside the torrent,
    each chunk `fileChunks` yields is flagged as padding exactly when the attribute of the file it
    names contains `p` — so only such ranges are zero-filled by webseedGR, every other one is
    requested from the web seed, whatever the files are called. -/
theorem C14_padding_by_attr_only (specs : List (Int × String)) (o l : Int)
    (hlen : ∀ x ∈ specs, 0 ≤ x.1) (ho : 0 ≤ o) (hl : 0 < l)
    (he : o + l ≤ tableEnd 0 (mkTable 0 specs)) :
    ∀ fc ∈ fileChunksLoop (mkTable 0 specs) 0 o l,
      ∃ x, specs[fc.idx]? = some x ∧ fc.pad = padOfAttr x.2 ∧ fc.filelength = x.1 := by
  intro fc hfc
  have ht := C14_filechunks_partition (mkTable 0 specs) o l (mkTable_laid specs 0 hlen) ho hl he
  obtain ⟨a', f, hget, hfl, hpad, _⟩ := ht.mem fc hfc
  obtain ⟨x, hx, hp, hlx⟩ := mkTable_get specs 0 fc.idx f hget
  exact ⟨x, hx, by rw [hpad, hp], by rw [hfl, hlx]⟩

example : padOfAttr "xp" = true ∧ padOfAttr "h" = false ∧ padOfAttr "" = false := by decide

/-! non-vacuity: a table with an empty file and a padding file; the range spans all three -/
example : Laid 0 [⟨0, 10, false⟩, ⟨10, 0, false⟩, ⟨10, 20, true⟩] := by simp [Laid]
example : fileChunksLoop [⟨0, 10, false⟩, ⟨10, 0, false⟩, ⟨10, 20, true⟩] 0 5 20
    = [⟨0, 10, 5, 5, false⟩, ⟨2, 20, 0, 15, true⟩] := by decide

/-! ### the block-aligning writer -/

/-- the bytes AddData accepted, in order -/
def stored (log : List (Nat × Bytes)) : Bytes := (log.map (·.2)).flatten

/-- the accepted pieces of data lie end to end from piece offset `a` -/
def Chain : Nat → List (Nat × Bytes) → Prop
  | _, [] => True
  | a, e :: r => e.1 = a ∧ Chain (a + e.2.length) r

theorem stored_append (l1 l2 : List (Nat × Bytes)) : stored (l1 ++ l2) = stored l1 ++ stored l2 := by
  simp [stored]

theorem Chain_append (l1 : List (Nat × Bytes)) : ∀ (a : Nat) (l2 : List (Nat × Bytes)),
    Chain a (l1 ++ l2) ↔ Chain a l1 ∧ Chain (a + (stored l1).length) l2 := by
  induction l1 with
  | nil => intro a l2; simp [Chain, stored]
  | cons e r ih =>
    intro a l2
    have : stored (e :: r) = e.2 ++ stored r := by simp [stored]
    simp only [List.cons_append, Chain, ih, this, List.length_append]
    constructor
    · rintro ⟨h1, h2, h3⟩; exact ⟨⟨h1, h2⟩, by rw [← Nat.add_assoc]; exact h3⟩
    · rintro ⟨⟨h1, h2⟩, h3⟩; exact ⟨h1, h2, by rw [Nat.add_assoc]; exact h3⟩

/-- blocks named by the accepted data (every block an entry overlaps) -/
def logBlocks (log : List (Nat × Bytes)) : List Nat :=
  (log.map fun e => List.range' (e.1 / CS) (ceilDiv e.2.length CS)).flatten

theorem logBlocks_append (l1 l2 : List (Nat × Bytes)) :
    logBlocks (l1 ++ l2) = logBlocks l1 ++ logBlocks l2 := by simp [logBlocks]

theorem released_append (l1 l2 : List Ev) : released (l1 ++ l2) = released l1 ++ released l2 := by
  simp [released]

/-- an accepted piece of data is block-aligned, inside the piece, and whole blocks or up to the piece end -/
def BlockOK (pl : Nat) (e : Nat × Bytes) : Prop :=
  e.1 % CS = 0 ∧ e.1 + e.2.length ≤ pl ∧ (e.2.length % CS = 0 ∨ e.1 + e.2.length = pl)

/-- invariant of an open writer created for `[off0, off0+cnt0)` after `s` bytes were committed -/
structure WInv (off0 cnt0 : Nat) (w : W) (s : Nat) : Prop where
  off : w.offset = off0 + s
  cnt : w.count + s = cnt0
  buf : w.buf.length ≤ w.count
  opn : w.closed = false

section
variable {σ : Type} (add : σ → Nat → Bytes → σ × AddRes)

/-- the part of the piece-store contract exactness rests on: AddData never claims more than it was given -/
def CountLe : Prop := ∀ st b d, (add st b d).2.count ≤ d.length

/-- the other half of the contract: what AddData accepts is whole blocks at a block boundary of a
    piece of length `pl`, or ends with the piece -/
def BlocksC (pl : Nat) : Prop := ∀ st b d, 0 < (add st b d).2.count →
  b % CS = 0 ∧ b + (add st b d).2.count ≤ pl ∧
    ((add st b d).2.count % CS = 0 ∨ b + (add st b d).2.count = pl)

theorem wwrite_extra (hle : CountLe add) (pl : Nat) (st : σ) (w : W) (data : Bytes) :
    released (wwrite add st w data).evs = logBlocks (wwrite add st w data).log ∧
    (BlocksC add pl → ∀ e ∈ (wwrite add st w data).log, BlockOK pl e) := by
  have h := hle st w.offset data
  unfold wwrite
  dsimp only
  split
  · rename_i hpos
    refine ⟨?_, ?_⟩
    · simp [released, logBlocks, evBlocks, List.length_take, Nat.min_eq_left h]
    · intro hb e he
      simp only [List.mem_singleton] at he
      subst he
      have := hb st w.offset data hpos
      simpa [BlockOK, List.length_take, Nat.min_eq_left h] using this
  · exact ⟨by simp [released, logBlocks], fun _ e he => by simp at he⟩

theorem wwrite_spec (hle : CountLe add) {off0 cnt0 s : Nat} (hU : off0 + cnt0 < U32)
    (st : σ) (w : W) (data : Bytes) (ho : w.offset = off0 + s) (hc : w.count + s = cnt0)
    (hd : data.length ≤ w.count) :
    let r := wwrite add st w data
    r.n ≤ data.length ∧ r.w.offset = off0 + s + r.n ∧ r.w.count + s + r.n = cnt0 ∧
    r.w.buf = w.buf ∧ r.w.closed = w.closed ∧ Chain (off0 + s) r.log ∧
    (stored r.log) = data.take r.n ∧ r.n = (add st w.offset data).2.count := by
  have h := hle st w.offset data
  unfold wwrite
  dsimp only
  split
  · rename_i hpos
    refine ⟨h, ?_, ?_, rfl, rfl, ?_, ?_, rfl⟩
    · simp only [add32, U32] at *; omega
    · simp only [sub32, U32] at *; omega
    · simp [Chain, ho]
    · simp [stored]
  · rename_i hz
    have hz' : (add st w.offset data).2.count = 0 := by omega
    exact ⟨Nat.zero_le _, by simpa using ho, by simpa using hc, rfl, rfl, trivial, by simp [stored],
      hz'.symm⟩

/-- what one call leaves behind, relative to the writer it found -/
structure CallOK (add : σ → Nat → Bytes → σ × AddRes) (off0 cnt0 s : Nat) (w w' : W) (o : Out) :
    Prop where
  nopanic : o.panic = false
  inv : WInv off0 cnt0 w' (s + (stored o.log).length)
  data : stored o.log ++ w'.buf = w.buf ++ o.rd
  chain : Chain (off0 + s) o.log
  n : o.rd.length = o.n
  hev : released o.evs = logBlocks o.log
  blk : ∀ pl, BlocksC add pl → ∀ e ∈ o.log, BlockOK pl e

theorem write_spec (hle : CountLe add) {off0 cnt0 s : Nat} (hU : off0 + cnt0 < U32)
    (st : σ) (w : W) (p : Bytes) (h : WInv off0 cnt0 w s) :
    CallOK add off0 cnt0 s w (write add st w p).2.1 (write add st w p).2.2 ∧
    (write add st w p).2.2.rd = p.take (write add st w p).2.2.n := by
  obtain ⟨ho, hc, hb, hop⟩ := h
  unfold write
  rw [if_neg (by simp [hop]), if_neg (by omega)]
  dsimp only
  have hd : (w.buf ++ List.take (w.count - w.buf.length) p).length ≤ w.count := by
    simp [List.length_take]; omega
  obtain ⟨h1, h2, h3, h4, h5, h6, h7, _⟩ :=
    wwrite_spec add hle hU st w (w.buf ++ List.take (w.count - w.buf.length) p) ho hc hd
  have hx := wwrite_extra add hle
  rw [if_neg (by omega)]
  dsimp only
  refine ⟨⟨rfl, ⟨?_, ?_, ?_, ?_⟩, ?_, h6, rfl, (hx 0 st w _).1, fun pl => (hx pl st w _).2⟩, ?_⟩
  · (try dsimp only); rw [h7, List.length_take]; omega
  · (try dsimp only); rw [h7, List.length_take]; omega
  · (try dsimp only); rw [List.length_drop]; omega
  · (try dsimp only); rw [h5]; exact hop
  · (try dsimp only); rw [h7]; exact List.take_append_drop _ _
  · (try dsimp only); simp [List.length_take]

theorem srcRead_len (src : Src) (k : Nat) : (srcRead src k).1.length ≤ k := by
  unfold srcRead
  split
  · simp
  · split
    · assumption
    · simp [List.length_take]; omega

theorem srcRead_all (src : Src) (k : Nat) :
    srcAll src = (srcRead src k).1 ++ srcAll (srcRead src k).2.2 := by
  unfold srcRead
  split
  · simp [srcAll]
  · split
    · simp [srcAll]
    · simp [srcAll, ← List.append_assoc, List.take_append_drop]

/-- what a run of the ReadFrom loop adds to its accumulator -/
structure LoopOK (add : σ → Nat → Bytes → σ × AddRes) (off0 cnt0 s : Nat) (w : W) (src : Src)
    (acc : Out) (w' : W) (o : Out) (rd : Bytes) (lg : List (Nat × Bytes)) : Prop where
  nopanic : o.panic = acc.panic
  hrd : o.rd = acc.rd ++ rd
  hlog : o.log = acc.log ++ lg
  hn : o.n = acc.n + rd.length
  inv : WInv off0 cnt0 w' (s + (stored lg).length)
  data : stored lg ++ w'.buf = w.buf ++ rd
  chain : Chain (off0 + s) lg
  hsrc : ∃ rest, srcAll src = rd ++ rest
  hev : released o.evs = released acc.evs ++ logBlocks lg
  blk : ∀ pl, BlocksC add pl → ∀ e ∈ lg, BlockOK pl e

theorem readLoop_spec (hle : CountLe add) {off0 cnt0 : Nat} (hU : off0 + cnt0 < U32) :
    ∀ (fuel : Nat) (st : σ) (w : W) (src : Src) (acc : Out) (s : Nat), WInv off0 cnt0 w s →
      ∃ rd lg, LoopOK add off0 cnt0 s w src acc (readLoop add true fuel st w src acc).2.1
        (readLoop add true fuel st w src acc).2.2 rd lg := by
  intro fuel
  induction fuel with
  | zero =>
    intro st w src acc s h
    exact ⟨[], [], ⟨rfl, by simp [readLoop], by simp [readLoop], by simp [readLoop],
      by simpa [readLoop, stored] using h, by simp [readLoop, stored], trivial, ⟨_, rfl⟩,
      by simp [readLoop, logBlocks], fun _ _ e he => by simp at he⟩⟩
  | succ fuel ih =>
    intro st w src acc s h
    have triv : ∀ (o : Out), o.panic = acc.panic → o.rd = acc.rd → o.log = acc.log → o.n = acc.n →
        o.evs = acc.evs → LoopOK add off0 cnt0 s w src acc w o [] [] := fun o h1 h2 h3 h4 h5 =>
      ⟨h1, by simp [h2], by simp [h3], by simp [h4], by simpa [stored] using h, by simp [stored],
        trivial, ⟨_, rfl⟩, by simp [h5, logBlocks], fun _ _ e he => by simp at he⟩
    obtain ⟨ho, hc, hb, hop⟩ := h
    unfold readLoop
    dsimp only
    by_cases hfull : w.buf.length > (if w.count < WIN then w.count else WIN)
    · rw [if_pos hfull]
      exact ⟨[], [], triv _ rfl rfl rfl rfl rfl⟩
    · rw [if_neg hfull]
      generalize hmax : (if w.count < WIN then w.count else WIN) = max at hfull
      have hmaxle : max ≤ w.count := by rw [← hmax]; split <;> omega
      have hdl := srcRead_len src (max - w.buf.length)
      have hall := srcRead_all src (max - w.buf.length)
      generalize (srcRead src (max - w.buf.length)) = rdres at hdl hall
      obtain ⟨d, er, src'⟩ := rdres
      dsimp only at hdl hall ⊢
      by_cases hd0 : d.length = 0
      · rw [if_pos hd0]
        exact ⟨[], [], triv _ rfl rfl rfl rfl rfl⟩
      · rw [if_neg hd0]
        have hdlen : (w.buf ++ d).length ≤ w.count := by simp; omega
        obtain ⟨h1, h2, h3, h4, h5, h6, h7, _⟩ :=
          wwrite_spec add hle hU st { w with buf := w.buf ++ d } (w.buf ++ d) ho hc hdlen
        have hx := fun pl => wwrite_extra add hle pl st { w with buf := w.buf ++ d } (w.buf ++ d)
        generalize (wwrite add st { w with buf := w.buf ++ d } (w.buf ++ d)) = r at h1 h2 h3 h4 h5 h6 h7 hx
        rw [if_neg (by omega)]
        have hsl : (stored r.log).length = r.n := by rw [h7, List.length_take]; omega
        have hinv : WInv off0 cnt0 { r.w with buf := (w.buf ++ d).drop r.n } (s + (stored r.log).length) :=
          ⟨by rw [hsl]; simpa [Nat.add_assoc] using h2, by rw [hsl]; dsimp only; omega,
           by dsimp only; rw [List.length_drop]; omega, by dsimp only; rw [h5]; exact hop⟩
        have hdata : stored r.log ++ ((w.buf ++ d).drop r.n) = w.buf ++ d := by
          rw [h7]; exact List.take_append_drop _ _
        have one : ∀ (o : Out), o.panic = acc.panic → o.rd = acc.rd ++ d → o.log = acc.log ++ r.log →
            o.n = acc.n + d.length → o.evs = acc.evs ++ r.evs →
            LoopOK add off0 cnt0 s w src acc { r.w with buf := (w.buf ++ d).drop r.n } o d r.log :=
          fun o g1 g2 g3 g4 g5 => ⟨g1, g2, g3, g4, hinv, hdata, h6, ⟨_, hall⟩,
            by rw [g5, released_append, (hx 0).1], fun pl => (hx pl).2⟩
        by_cases her : er ≠ .none
        · rw [if_pos her]
          exact ⟨d, r.log, one _ rfl rfl rfl rfl rfl⟩
        · rw [if_neg her]
          by_cases hew : r.err ≠ .none
          · rw [if_pos hew]
            exact ⟨d, r.log, one _ rfl rfl rfl rfl rfl⟩
          · rw [if_neg hew]
            obtain ⟨rd', lg', hk⟩ := ih r.st { r.w with buf := (w.buf ++ d).drop r.n } src'
              { acc with n := acc.n + d.length, rd := acc.rd ++ d, evs := acc.evs ++ r.evs,
                         log := acc.log ++ r.log } _ hinv
            refine ⟨d ++ rd', r.log ++ lg', ⟨?_, ?_, ?_, ?_, ?_, ?_, ?_, ?_, ?_, ?_⟩⟩
            · rw [hk.nopanic]
            · rw [hk.hrd]; simp
            · rw [hk.hlog]; simp
            · rw [hk.hn]; simp; omega
            · have := hk.inv; rw [stored_append, List.length_append, ← Nat.add_assoc]; exact this
            · rw [stored_append, List.append_assoc, hk.data]; dsimp only
              rw [← List.append_assoc, hdata, List.append_assoc]
            · rw [Chain_append]; exact ⟨h6, by rw [Nat.add_assoc]; exact hk.chain⟩
            · obtain ⟨rest, hr⟩ := hk.hsrc
              exact ⟨rest, by rw [hall, hr, List.append_assoc]⟩
            · rw [hk.hev]; dsimp only
              rw [released_append, (hx 0).1, logBlocks_append, List.append_assoc]
            · intro pl hb e he
              rcases List.mem_append.1 he with he | he
              · exact (hx pl).2 hb e he
              · exact hk.blk pl hb e he

theorem readFrom_spec (hle : CountLe add) {off0 cnt0 s : Nat} (hU : off0 + cnt0 < U32)
    (st : σ) (w : W) (src : Src) (h : WInv off0 cnt0 w s) :
    CallOK add off0 cnt0 s w (readFrom add true st w src).2.1 (readFrom add true st w src).2.2 ∧
    ∃ rest, srcAll src = (readFrom add true st w src).2.2.rd ++ rest := by
  have hop := h.opn
  have hb := h.buf
  unfold readFrom
  rw [if_neg (by simp [hop]), if_neg (by omega)]
  obtain ⟨rd, lg, hk⟩ := readLoop_spec add hle hU (srcBytes src + 1) st w src {} s h
  have e1 : (readLoop add true (srcBytes src + 1) st w src {}).2.2.rd = rd := by simpa using hk.hrd
  have e2 : (readLoop add true (srcBytes src + 1) st w src {}).2.2.log = lg := by simpa using hk.hlog
  refine ⟨⟨by simpa using hk.nopanic, by rw [e2]; exact hk.inv, by rw [e1, e2]; exact hk.data,
    by rw [e2]; exact hk.chain, by rw [e1]; simpa using hk.hn.symm, ?_, by rw [e2]; exact hk.blk⟩, ?_⟩
  · rw [e2]; simpa [released] using hk.hev
  · rw [e1]; exact hk.hsrc

/-! #### every sequence of calls on one writer, every behaviour of the store -/

inductive Op (σ : Type)
  | write (p : Bytes)
  | readFrom (src : Src)
  | close
  | env (f : σ → σ)          -- anything else happening to the piece store in between

structure Run (σ : Type) where
  st : σ
  w : W
  consumed : Bytes            -- the bytes the calls reported as accepted, in order
  log : List (Nat × Bytes)    -- what AddData accepted: (piece offset, bytes)
  evs : List Ev               -- TorData / TorDrop emitted
  panic : Bool

def Run.step (fixed : Bool) (r : Run σ) : Op σ → Run σ
  | .write p =>
    let x := write add r.st r.w p
    ⟨x.1, x.2.1, r.consumed ++ x.2.2.rd, r.log ++ x.2.2.log, r.evs ++ x.2.2.evs, r.panic || x.2.2.panic⟩
  | .readFrom src =>
    let x := readFrom add fixed r.st r.w src
    ⟨x.1, x.2.1, r.consumed ++ x.2.2.rd, r.log ++ x.2.2.log, r.evs ++ x.2.2.evs, r.panic || x.2.2.panic⟩
  | .close =>
    let x := close r.w
    ⟨r.st, x.1, r.consumed, r.log, r.evs ++ x.2.evs, r.panic || x.2.panic⟩
  | .env f => { r with st := f r.st }

def Run.init (st : σ) (off cnt : Nat) : Run σ := ⟨st, newWriter off cnt, [], [], [], false⟩

def run (fixed : Bool) (r : Run σ) (ops : List (Op σ)) : Run σ := ops.foldl (Run.step add fixed) r

/-- blocks named by the final TorDrop of a writer that had committed `s` of its `cnt0` bytes -/
def dropBlocks (off0 cnt0 s : Nat) : List Nat :=
  if cnt0 > s then List.range' ((off0 + s) / CS) (ceilDiv (cnt0 - s) CS) else []

structure RInv (off0 cnt0 : Nat) (r : Run σ) : Prop where
  nopanic : r.panic = false
  data : stored r.log ++ r.w.buf = r.consumed
  chain : Chain off0 r.log
  bound : (stored r.log).length + r.w.buf.length ≤ cnt0
  opn : r.w.closed = false → WInv off0 cnt0 r.w (stored r.log).length
  evo : r.w.closed = false → released r.evs = logBlocks r.log
  evc : r.w.closed = true → released r.evs = logBlocks r.log ++ dropBlocks off0 cnt0 (stored r.log).length
  blk : ∀ pl, BlocksC add pl → ∀ e ∈ r.log, BlockOK pl e

theorem RInv.init (st : σ) (off0 cnt0 : Nat) : RInv add off0 cnt0 (Run.init st off0 cnt0) :=
  ⟨rfl, rfl, trivial, by simp [Run.init, newWriter, stored],
   fun _ => ⟨by simp [Run.init, newWriter, stored], by simp [Run.init, newWriter, stored],
     by simp [Run.init, newWriter], rfl⟩,
   fun _ => by simp [Run.init, released, logBlocks], fun h => by simp [Run.init, newWriter] at h,
   fun _ _ e he => by simp [Run.init] at he⟩

theorem closed_write (st : σ) (w : W) (p : Bytes) (h : w.closed = true) :
    write add st w p = (st, w, { err := .closed, tag := "w:closed" }) := by
  unfold write; rw [if_pos h]

theorem closed_readFrom (st : σ) (w : W) (src : Src) (h : w.closed = true) :
    readFrom add true st w src = (st, w, { err := .closed, tag := "r:closed" }) := by
  unfold readFrom; rw [if_pos h]

theorem RInv.call (hle : CountLe add) {off0 cnt0 : Nat} (hU : off0 + cnt0 < U32) (r : Run σ)
    (h : RInv add off0 cnt0 r) (st' : σ) (w' : W) (o : Out) (hopen : r.w.closed = false)
    (hk : CallOK add off0 cnt0 (stored r.log).length r.w w' o) :
    RInv add off0 cnt0 ⟨st', w', r.consumed ++ o.rd, r.log ++ o.log, r.evs ++ o.evs, r.panic || o.panic⟩ := by
  have hi := hk.inv
  refine ⟨by simp [h.nopanic, hk.nopanic], ?_, ?_, ?_, ?_, ?_, ?_, ?_⟩
  · dsimp only; rw [stored_append, List.append_assoc, hk.data, ← List.append_assoc, h.data]
  · dsimp only; rw [Chain_append]; exact ⟨h.chain, hk.chain⟩
  · dsimp only; rw [stored_append, List.length_append]
    have := hi.buf; have := hi.cnt; omega
  · intro _; dsimp only; rw [stored_append, List.length_append]; exact hi
  · intro _; dsimp only; rw [released_append, logBlocks_append, h.evo hopen, hk.hev]
  · intro hc; dsimp only at hc; rw [hi.opn] at hc; exact absurd hc (by simp)
  · intro pl hb e he
    rcases List.mem_append.1 he with he | he
    · exact h.blk pl hb e he
    · exact hk.blk pl hb e he

theorem RInv.step (hle : CountLe add) {off0 cnt0 : Nat} (hU : off0 + cnt0 < U32) (r : Run σ)
    (h : RInv add off0 cnt0 r) (op : Op σ) : RInv add off0 cnt0 (Run.step add true r op) := by
  cases op with
  | env f => exact ⟨h.nopanic, h.data, h.chain, h.bound, h.opn, h.evo, h.evc, h.blk⟩
  | write p =>
    dsimp only [Run.step]
    cases hcl : r.w.closed with
    | true =>
      rw [closed_write add r.st r.w p hcl]
      simpa using (⟨h.nopanic, h.data, h.chain, h.bound, h.opn, h.evo, h.evc, h.blk⟩ : RInv add off0 cnt0 r)
    | false =>
      exact RInv.call add hle hU r h _ _ _ hcl (write_spec add hle hU r.st r.w p (h.opn hcl)).1
  | readFrom src =>
    dsimp only [Run.step]
    cases hcl : r.w.closed with
    | true =>
      rw [closed_readFrom add r.st r.w src hcl]
      simpa using (⟨h.nopanic, h.data, h.chain, h.bound, h.opn, h.evo, h.evc, h.blk⟩ : RInv add off0 cnt0 r)
    | false =>
      exact RInv.call add hle hU r h _ _ _ hcl (readFrom_spec add hle hU r.st r.w src (h.opn hcl)).1
  | close =>
    dsimp only [Run.step]
    unfold close
    cases hcl : r.w.closed with
    | true =>
      simp only [if_true]
      simpa using (⟨h.nopanic, h.data, h.chain, h.bound, h.opn, h.evo, h.evc, h.blk⟩ : RInv add off0 cnt0 r)
    | false =>
      have hi := h.opn hcl
      simp only [Bool.false_eq_true, if_false]
      by_cases hc : r.w.count > 0
      · rw [if_pos hc]
        refine ⟨by simp [h.nopanic], h.data, h.chain, h.bound, fun hx => by simp at hx,
          fun hx => by simp at hx, fun _ => ?_, h.blk⟩
        dsimp only
        rw [released_append, h.evo hcl]
        have : dropBlocks off0 cnt0 (stored r.log).length
            = List.range' (r.w.offset / CS) (ceilDiv r.w.count CS) := by
          unfold dropBlocks
          have := hi.cnt; have := hi.off
          rw [if_pos (by omega)]
          congr 2 <;> omega
        rw [this]; simp [released, evBlocks]
      · rw [if_neg hc]
        refine ⟨by simp [h.nopanic], h.data, h.chain, h.bound, fun hx => by simp at hx,
          fun hx => by simp at hx, fun _ => ?_, h.blk⟩
        dsimp only
        have : dropBlocks off0 cnt0 (stored r.log).length = [] := by
          unfold dropBlocks
          have := hi.cnt
          rw [if_neg (by omega)]
        have h2 := h.evo hcl
        simp only [released] at h2
        simp [this, released, h2]

theorem RInv.run (hle : CountLe add) {off0 cnt0 : Nat} (hU : off0 + cnt0 < U32) (ops : List (Op σ)) :
    ∀ (r : Run σ), RInv add off0 cnt0 r → RInv add off0 cnt0 (run add true r ops) := by
  induction ops with
  | nil => intro r h; exact h
  | cons op rest ih => intro r h; exact ih _ (RInv.step add hle hU r h op)

end

/-! #### consequences of the invariant -/

theorem stored_cons (e : Nat × Bytes) (r : List (Nat × Bytes)) : stored (e :: r) = e.2 ++ stored r := by
  simp [stored]

/-- every accepted piece of data is the slice of the stream that belongs at its offset -/
theorem Chain_entries : ∀ (log : List (Nat × Bytes)) (a : Nat) (c rest : Bytes),
    Chain a log → stored log ++ rest = c →
    ∀ e ∈ log, a ≤ e.1 ∧ e.1 + e.2.length ≤ a + (stored log).length ∧
      e.2 = (c.drop (e.1 - a)).take e.2.length := by
  intro log
  induction log with
  | nil => intro a c rest _ _ e he; simp at he
  | cons e0 r ih =>
    intro a c rest hch hc e he
    obtain ⟨h1, h2⟩ := hch
    rw [stored_cons] at hc ⊢
    rcases List.mem_cons.1 he with rfl | he
    · refine ⟨by omega, by simp; omega, ?_⟩
      rw [h1, Nat.sub_self, List.drop_zero, ← hc, List.append_assoc, List.take_left]
    · have hc' : stored r ++ rest = c.drop e0.2.length := by
        rw [← hc, List.append_assoc, List.drop_left]
      obtain ⟨g1, g2, g3⟩ := ih (a + e0.2.length) _ rest h2 hc' e he
      refine ⟨by omega, by simp; omega, ?_⟩
      have hx : e0.2.length + (e.1 - (a + e0.2.length)) = e.1 - a := by omega
      rw [List.drop_drop, hx] at g3
      exact g3

/-- the blocks named by a block-aligned chain are the consecutive blocks from its start -/
theorem logBlocks_chain (pl : Nat) : ∀ (log : List (Nat × Bytes)) (a : Nat),
    Chain a log → (∀ e ∈ log, BlockOK pl e) → a % CS = 0 →
    logBlocks log = List.range' (a / CS) (ceilDiv (stored log).length CS) ∧
      ((stored log).length % CS = 0 ∨ a + (stored log).length = pl) := by
  intro log
  induction log with
  | nil => intro a _ _ _; simp [logBlocks, stored, ceilDiv, CS]
  | cons e r ih =>
    intro a hch hb ha
    obtain ⟨h1, h2⟩ := hch
    obtain ⟨b1, b2, b3⟩ := hb e (List.mem_cons_self ..)
    have hbr : ∀ e' ∈ r, BlockOK pl e' := fun e' he' => hb e' (List.mem_cons_of_mem _ he')
    rw [stored_cons, List.length_append]
    have hlb : logBlocks (e :: r) = List.range' (e.1 / CS) (ceilDiv e.2.length CS) ++ logBlocks r := by
      simp [logBlocks]
    rw [hlb, h1]
    by_cases hal : e.2.length % CS = 0
    · obtain ⟨i1, i2⟩ := ih (a + e.2.length) h2 hbr (by simp only [CS] at *; omega)
      rw [i1]
      have e1 : (a + e.2.length) / CS = a / CS + ceilDiv e.2.length CS := by
        simp only [CS, ceilDiv] at *; omega
      have e2 : ceilDiv (e.2.length + (stored r).length) CS
          = ceilDiv e.2.length CS + ceilDiv (stored r).length CS := by
        simp only [CS, ceilDiv] at *; omega
      rw [e1, e2, List.range'_append_1]
      refine ⟨rfl, ?_⟩
      rcases i2 with i2 | i2
      · left; simp only [CS] at *; omega
      · right; omega
    · -- the final short block: nothing can follow it
      have hpl : a + e.2.length = pl := by rcases b3 with b3 | b3 <;> omega
      cases r with
      | nil => simp [logBlocks, stored]; right; exact hpl
      | cons e' r' =>
        obtain ⟨c1, _, _⟩ := hb e' (List.mem_cons_of_mem _ (List.mem_cons_self ..))
        have := h2.1
        simp only [CS] at *; omega

section
variable {σ : Type} (add : σ → Nat → Bytes → σ × AddRes)

/-- **No slice-bounds fault.**  For every piece store that never claims more than it was given,
    every initial store state, every range that fits `uint32`, and every sequence of `Write`,
    `ReadFrom` (any reader: short reads, empty reads, errors), `Close` and interference with the
    store, the (repaired) writer reaches none of its slice-bounds faults. -/
theorem C14_writer_no_panic (hle : CountLe add) (off0 cnt0 : Nat) (hU : off0 + cnt0 < U32)
    (st : σ) (ops : List (Op σ)) :
    (run add true (Run.init st off0 cnt0) ops).panic = false :=
  (RInv.run add hle hU ops _ (RInv.init add st off0 cnt0)).nopanic

/-- **Exactness.**  Same quantification.  `consumed` is the concatenation of the bytes the calls
    reported as accepted, `log` what AddData accepted.  The accepted data is a prefix of the
    stream (the rest is still buffered), stream byte `k` is handed to the store for piece offset
    `off0 + k`, and nothing at or beyond `off0 + cnt0` is ever handed over. -/
theorem C14_writer_exact (hle : CountLe add) (off0 cnt0 : Nat) (hU : off0 + cnt0 < U32)
    (st : σ) (ops : List (Op σ)) :
    let r := run add true (Run.init st off0 cnt0) ops
    stored r.log ++ r.w.buf = r.consumed ∧
    r.consumed.length ≤ cnt0 ∧
    ∀ e ∈ r.log, off0 ≤ e.1 ∧ e.1 + e.2.length ≤ off0 + cnt0 ∧
      e.2 = (r.consumed.drop (e.1 - off0)).take e.2.length := by
  intro r
  have h : RInv add off0 cnt0 r := RInv.run add hle hU ops _ (RInv.init add st off0 cnt0)
  refine ⟨h.data, ?_, ?_⟩
  · rw [← h.data, List.length_append]; exact h.bound
  · intro e he
    obtain ⟨g1, g2, g3⟩ := Chain_entries _ off0 _ _ h.chain h.data e he
    have := h.bound
    exact ⟨g1, by omega, g3⟩

/-- what the ghost `consumed` is: `Write p` accepts `p.take n`, `ReadFrom` the first `n` bytes the
    reader delivers, `n` being the value the call returns -/
theorem C14_writer_accepts_prefix (hle : CountLe add) {off0 cnt0 s : Nat} (hU : off0 + cnt0 < U32)
    (st : σ) (w : W) (h : WInv off0 cnt0 w s) :
    (∀ p, (write add st w p).2.2.rd = p.take (write add st w p).2.2.n) ∧
    (∀ src, (readFrom add true st w src).2.2.rd
        = (srcAll src).take (readFrom add true st w src).2.2.n) := by
  refine ⟨fun p => (write_spec add hle hU st w p h).2, fun src => ?_⟩
  obtain ⟨hk, rest, hr⟩ := readFrom_spec add hle hU st w src h
  rw [hr, ← hk.n, List.take_left]

/-- **Whole blocks only.**  If the store accepts whole blocks at block boundaries or the final
    short block of the piece (the AddData contract), everything committed is of that shape. -/
theorem C14_writer_whole_blocks (hle : CountLe add) (pl : Nat) (hb : BlocksC add pl)
    (off0 cnt0 : Nat) (hU : off0 + cnt0 < U32) (st : σ) (ops : List (Op σ)) :
    ∀ e ∈ (run add true (Run.init st off0 cnt0) ops).log, BlockOK pl e :=
  (RInv.run add hle hU ops _ (RInv.init add st off0 cnt0)).blk pl hb

/-- **Reservation released.**  For a range as maybeWebseed reserves it (block-aligned start, inside
    the piece): the blocks named by the writer's TorData events so far are exactly the reserved
    blocks of the committed prefix, in order, each once; once the writer is closed the TorData
    events plus the final TorDrop name exactly the reserved blocks `reserve off0 cnt0`. -/
theorem C14_reservation_released (hle : CountLe add) (pl : Nat) (hb : BlocksC add pl)
    (off0 cnt0 : Nat) (ha : off0 % CS = 0) (hin : off0 + cnt0 ≤ pl) (hpl : pl < U32)
    (st : σ) (ops : List (Op σ)) :
    let r := run add true (Run.init st off0 cnt0) ops
    (r.w.closed = false → released r.evs = reserve off0 (stored r.log).length) ∧
    (r.w.closed = true → released r.evs = reserve off0 cnt0) := by
  intro r
  have h : RInv add off0 cnt0 r :=
    RInv.run add hle (by omega : off0 + cnt0 < U32) ops _ (RInv.init add st off0 cnt0)
  obtain ⟨k1, k2⟩ := logBlocks_chain pl r.log off0 h.chain (h.blk pl hb) ha
  have hbd := h.bound
  refine ⟨fun hc => by rw [h.evo hc, k1]; rfl, fun hc => ?_⟩
  rw [h.evc hc, k1]
  unfold dropBlocks reserve
  by_cases hgt : cnt0 > (stored r.log).length
  · rw [if_pos hgt]
    have hal : (stored r.log).length % CS = 0 := by rcases k2 with k2 | k2 <;> omega
    have e1 : (off0 + (stored r.log).length) / CS = off0 / CS + ceilDiv (stored r.log).length CS := by
      simp only [CS, ceilDiv] at *; omega
    have e2 : ceilDiv cnt0 CS
        = ceilDiv (stored r.log).length CS + ceilDiv (cnt0 - (stored r.log).length) CS := by
      simp only [CS, ceilDiv] at *; omega
    rw [e1, e2, List.range'_append_1]
  · rw [if_neg hgt]
    have : (stored r.log).length = cnt0 := by omega
    rw [this]; simp

end


/-! #### the modelled piece store satisfies the contract; the unrepaired writer does fault -/

/-- `addData` on a piece of length `pl` -/
def addAt (pl : Nat) (s : Store) (b : Nat) (d : Bytes) : Store × AddRes := addData { s with pl := pl } b d

theorem addData_eq_addAt (s : Store) : addData s = addAt s.pl s := rfl

theorem addCount_le (pl b n : Nat) : addCount pl b n ≤ n := by
  unfold addCount; dsimp only; split
  · assumption
  · simp only [CS]; omega

theorem addAt_countLe (pl : Nat) : CountLe (addAt pl) := by
  intro st b d
  unfold addAt addData
  dsimp only
  split
  · simp
  · simp
  · split
    · simp
    · split
      · simp
      · exact addCount_le _ _ _

theorem addAt_blocksC (pl : Nat) : BlocksC (addAt pl) pl := by
  intro st b d
  unfold addAt addData
  dsimp only
  split
  · simp
  · simp
  · split
    · simp
    · split
      · simp
      · rename_i h1 h2
        dsimp only
        unfold addCount
        dsimp only
        by_cases hn : d.length ≥ pl - b
        · rw [if_pos hn]; intro _; simp only [CS] at *; omega
        · rw [if_neg hn]; intro _; simp only [CS] at *; omega

/-! non-vacuity: a 5-byte piece (one short block); two bytes by `Write`, the rest by `ReadFrom` from a
    reader that delivers one byte too many: the five bytes are committed once, at offset 0 -/
example : (run (addAt 5) true (Run.init ⟨5, .opn, [none]⟩ 0 5)
    [.write [1, 2], .readFrom [([3, 4], .none), ([5, 6], .eof)], .close]).log = [(0, [1, 2, 3, 4, 5])] := by
  decide
example : (run (addAt 5) true (Run.init ⟨5, .opn, [none]⟩ 0 5)
    [.write [1, 2], .readFrom [([3, 4], .none), ([5, 6], .eof)], .close]).evs = [.data 0 5 true] := by
  decide

/-! #### independence of the split (the store accepting data all along) -/

theorem addAt_opn (pl : Nat) (st : Store) (off : Nat) (data : Bytes) (hm : st.mode = .opn) :
    (addAt pl st off data).1.mode = .opn ∧
    (addAt pl st off data).2.count
      = if off % CS = 0 ∧ off < pl then addCount pl off data.length else 0 := by
  unfold addAt addData
  simp only [hm]
  by_cases h1 : off % CS ≠ 0
  · rw [if_pos h1]; simp; intro h; omega
  · rw [if_neg h1]
    by_cases h2 : off ≥ pl
    · rw [if_pos h2]; simp; intro _; omega
    · rw [if_neg h2]; simp; intro h; omega

/-- committed-length bookkeeping: `s` bytes committed, `b` buffered, is the state a writer fed
    `s + b` bytes in one piece would be in -/
def Good (pl off0 : Nat) (st : Store) (w : W) (s : Nat) : Prop :=
  st.mode = .opn ∧ s = addCount pl off0 (s + w.buf.length)

theorem good_arith (pl off0 cnt0 s b dl : Nat) (ha : off0 % CS = 0) (hin : off0 + cnt0 ≤ pl)
    (hg : s = addCount pl off0 (s + b)) (hb : b ≤ dl) (hd : s + dl ≤ cnt0) :
    s + (if (off0 + s) % CS = 0 ∧ off0 + s < pl then addCount pl (off0 + s) dl else 0)
      = addCount pl off0 (s + dl) := by
  unfold addCount at *
  simp only [CS] at *
  by_cases c0 : s + b ≥ pl - off0
  · simp only [c0, ↓reduceIte] at hg
    by_cases c1 : (off0 + s) % 16384 = 0 ∧ off0 + s < pl
    · omega
    · simp only [c1, ↓reduceIte]
      by_cases c2 : s + dl ≥ pl - off0
      · simp only [c2, ↓reduceIte]; omega
      · omega
  · simp only [c0, ↓reduceIte] at hg
    have c1 : (off0 + s) % 16384 = 0 ∧ off0 + s < pl := by omega
    simp only [c1, and_self, ↓reduceIte]
    by_cases c3 : dl ≥ pl - (off0 + s)
    · have c4 : s + dl ≥ pl - off0 := by omega
      simp only [c3, c4, ↓reduceIte]; omega
    · have c4 : ¬ (s + dl ≥ pl - off0) := by omega
      simp only [c3, c4, ↓reduceIte]; omega

theorem good_wwrite (pl off0 cnt0 s b : Nat) (ha : off0 % CS = 0) (hin : off0 + cnt0 ≤ pl)
    (st : Store) (w : W) (data : Bytes) (ho : w.offset = off0 + s)
    (hc : w.count + s = cnt0) (hd : data.length ≤ w.count) (hb : b ≤ data.length)
    (hm : st.mode = .opn) (hs : s = addCount pl off0 (s + b)) :
    (wwrite (addAt pl) st w data).st.mode = .opn ∧
    s + (wwrite (addAt pl) st w data).n = addCount pl off0 (s + data.length) := by
  have h := addAt_opn pl st w.offset data hm
  have hn : (wwrite (addAt pl) st w data).n = (addAt pl st w.offset data).2.count := by
    unfold wwrite; dsimp only; split
    · rfl
    · rename_i hz; dsimp only; omega
  have hst : (wwrite (addAt pl) st w data).st = (addAt pl st w.offset data).1 := by
    unfold wwrite; dsimp only; split <;> rfl
  refine ⟨by rw [hst]; exact h.1, ?_⟩
  rw [hn, h.2, ho]
  exact good_arith pl off0 cnt0 s b data.length ha hin hs hb (by omega)

theorem good_write (pl off0 cnt0 s : Nat) (ha : off0 % CS = 0) (hin : off0 + cnt0 ≤ pl)
    (hpl : pl < U32) (st : Store) (w : W) (p : Bytes) (h : WInv off0 cnt0 w s)
    (hg : Good pl off0 st w s) :
    Good pl off0 (write (addAt pl) st w p).1 (write (addAt pl) st w p).2.1
      (s + (stored (write (addAt pl) st w p).2.2.log).length) := by
  have hU : off0 + cnt0 < U32 := by omega
  obtain ⟨ho, hc, hb, hop⟩ := h
  have hd : (w.buf ++ List.take (w.count - w.buf.length) p).length ≤ w.count := by
    simp [List.length_take]; omega
  have hbl : w.buf.length ≤ (w.buf ++ List.take (w.count - w.buf.length) p).length := by simp
  obtain ⟨h1, _, _, _, _, _, h7, _⟩ :=
    wwrite_spec (addAt pl) (addAt_countLe pl) hU st w _ ho hc hd
  obtain ⟨g1, g2⟩ := good_wwrite pl off0 cnt0 s w.buf.length ha hin st w _ ho hc hd hbl hg.1 hg.2
  unfold write
  rw [if_neg (by simp [hop]), if_neg (by omega)]
  dsimp only
  rw [if_neg (by omega)]
  dsimp only
  refine ⟨g1, ?_⟩
  rw [h7, List.length_take, List.length_drop, Nat.min_eq_left h1]
  rw [g2]; congr 1; omega

theorem good_readLoop (pl off0 cnt0 : Nat) (ha : off0 % CS = 0) (hin : off0 + cnt0 ≤ pl)
    (hpl : pl < U32) :
    ∀ (fuel : Nat) (st : Store) (w : W) (src : Src) (acc : Out) (s : Nat), WInv off0 cnt0 w s →
      Good pl off0 st w s →
      ∃ lg, (readLoop (addAt pl) true fuel st w src acc).2.2.log = acc.log ++ lg ∧
        Good pl off0 (readLoop (addAt pl) true fuel st w src acc).1
          (readLoop (addAt pl) true fuel st w src acc).2.1 (s + (stored lg).length) := by
  have hU : off0 + cnt0 < U32 := by omega
  intro fuel
  induction fuel with
  | zero => intro st w src acc s _ hg; exact ⟨[], by simp [readLoop], by simpa [readLoop, stored] using hg⟩
  | succ fuel ih =>
    intro st w src acc s h hg
    obtain ⟨ho, hc, hb, hop⟩ := h
    unfold readLoop
    dsimp only
    by_cases hfull : w.buf.length > (if w.count < WIN then w.count else WIN)
    · rw [if_pos hfull]; exact ⟨[], by simp, by simpa [stored] using hg⟩
    · rw [if_neg hfull]
      generalize hmax : (if w.count < WIN then w.count else WIN) = max at hfull
      have hmaxle : max ≤ w.count := by rw [← hmax]; split <;> omega
      have hdl := srcRead_len src (max - w.buf.length)
      generalize (srcRead src (max - w.buf.length)) = rdres at hdl
      obtain ⟨d, er, src'⟩ := rdres
      dsimp only at hdl ⊢
      by_cases hd0 : d.length = 0
      · rw [if_pos hd0]; exact ⟨[], by simp, by simpa [stored] using hg⟩
      · rw [if_neg hd0]
        have hdlen : (w.buf ++ d).length ≤ w.count := by simp; omega
        have hbl : w.buf.length ≤ (w.buf ++ d).length := by simp
        obtain ⟨h1, h2, h3, h4, h5, h6, h7, _⟩ :=
          wwrite_spec (addAt pl) (addAt_countLe pl) hU st { w with buf := w.buf ++ d } (w.buf ++ d) ho hc hdlen
        obtain ⟨g1, g2⟩ := good_wwrite pl off0 cnt0 s w.buf.length ha hin st
          { w with buf := w.buf ++ d } (w.buf ++ d) ho hc hdlen hbl hg.1 hg.2
        generalize (wwrite (addAt pl) st { w with buf := w.buf ++ d } (w.buf ++ d)) = r
          at h1 h2 h3 h4 h5 h6 h7 g1 g2
        rw [if_neg (by omega)]
        have hsl : (stored r.log).length = r.n := by rw [h7, List.length_take]; omega
        have hinv : WInv off0 cnt0 { r.w with buf := (w.buf ++ d).drop r.n } (s + (stored r.log).length) :=
          ⟨by rw [hsl]; simpa [Nat.add_assoc] using h2, by rw [hsl]; dsimp only; omega,
           by dsimp only; rw [List.length_drop]; omega, by dsimp only; rw [h5]; exact hop⟩
        have hgood : Good pl off0 r.st { r.w with buf := (w.buf ++ d).drop r.n } (s + (stored r.log).length) := by
          refine ⟨g1, ?_⟩
          dsimp only
          rw [hsl, List.length_drop, g2]; congr 1; omega
        by_cases her : er ≠ .none
        · rw [if_pos her]; exact ⟨r.log, rfl, hgood⟩
        · rw [if_neg her]
          by_cases hew : r.err ≠ .none
          · rw [if_pos hew]; exact ⟨r.log, rfl, hgood⟩
          · rw [if_neg hew]
            obtain ⟨lg', hk1, hk2⟩ := ih r.st { r.w with buf := (w.buf ++ d).drop r.n } src'
              { acc with n := acc.n + d.length, rd := acc.rd ++ d, evs := acc.evs ++ r.evs,
                         log := acc.log ++ r.log } _ hinv hgood
            refine ⟨r.log ++ lg', by rw [hk1]; simp, ?_⟩
            rw [stored_append, List.length_append, ← Nat.add_assoc]; exact hk2

/-! #### a well-behaved reader is consumed completely, up to the room left in the range -/

/-- a reader that does not end the copy early: every read but the last delivers some bytes and
    no error (the last may end with EOF, fail, or be empty) -/
def Nice : Src → Prop
  | [] => True
  | [_] => True
  | x :: y :: r => x.1 ≠ [] ∧ x.2 = .none ∧ Nice (y :: r)

theorem Nice.tail {x : Bytes × RErr} {r : Src} (h : Nice (x :: r)) : Nice r := by
  cases r with
  | nil => trivial
  | cons y r => exact h.2.2

theorem Nice.dropHead {d : Bytes} {e : RErr} {r : Src} (h : Nice ((d, e) :: r)) (k : Nat)
    (hk : k < d.length) : Nice ((d.drop k, e) :: r) := by
  cases r with
  | nil => trivial
  | cons y r =>
    refine ⟨?_, h.2.1, h.2.2⟩
    intro hnil
    have := congrArg List.length hnil
    simp at this; omega

theorem srcBytes_cons (d : Bytes) (e : RErr) (r : Src) : srcBytes ((d, e) :: r) = d.length + srcBytes r := by
  simp [srcBytes]

theorem srcAll_cons (d : Bytes) (e : RErr) (r : Src) : srcAll ((d, e) :: r) = d ++ srcAll r := by
  simp [srcAll]

theorem srcRead_cons_fit (d : Bytes) (e : RErr) (r : Src) (k : Nat) (h : d.length ≤ k) :
    srcRead ((d, e) :: r) k = (d, e, r) := by simp [srcRead, h]

theorem srcRead_cons_cut (d : Bytes) (e : RErr) (r : Src) (k : Nat) (h : ¬ d.length ≤ k) :
    srcRead ((d, e) :: r) k = (d.take k, .none, (d.drop k, e) :: r) := by simp [srcRead, h]

theorem good_room (pl off0 cnt0 s b count : Nat) (ha : off0 % CS = 0) (hin : off0 + cnt0 ≤ pl)
    (hg : s = addCount pl off0 (s + b)) (hc : count + s = cnt0) (hb : b ≤ count) :
    b ≤ (if count < WIN then count else WIN) ∧
    ((if count < WIN then count else WIN) = b → count = b) ∧
    (0 < count → (off0 + s) % CS = 0 ∧ off0 + s < pl) := by
  unfold addCount at hg
  simp only [CS, WIN] at *
  by_cases c0 : s + b ≥ pl - off0 <;> by_cases cw : count < 32768 <;>
    simp only [c0, cw, ↓reduceIte] at hg ⊢ <;> omega

theorem addAt_opn_err (pl : Nat) (st : Store) (off : Nat) (data : Bytes) (hm : st.mode = .opn)
    (h1 : off % CS = 0) (h2 : off < pl) : (addAt pl st off data).2.err = .none := by
  unfold addAt addData
  simp only [hm]
  rw [if_neg (by omega), if_neg (by omega)]

theorem wwrite_err {σ : Type} (add : σ → Nat → Bytes → σ × AddRes) (st : σ) (w : W) (data : Bytes) :
    (wwrite add st w data).err = (add st w.offset data).2.err := by
  unfold wwrite; dsimp only; split <;> rfl

theorem consumes_readLoop (pl off0 cnt0 : Nat) (ha : off0 % CS = 0) (hin : off0 + cnt0 ≤ pl)
    (hpl : pl < U32) :
    ∀ (fuel : Nat) (st : Store) (w : W) (src : Src) (acc : Out) (s : Nat), WInv off0 cnt0 w s →
      Good pl off0 st w s → Nice src → srcBytes src < fuel →
      (readLoop (addAt pl) true fuel st w src acc).2.2.rd
        = acc.rd ++ (srcAll src).take (w.count - w.buf.length) := by
  have hU : off0 + cnt0 < U32 := by omega
  intro fuel
  induction fuel with
  | zero => intro st w src acc s _ _ _ hf; omega
  | succ fuel ih =>
    intro st w src acc s h hg hnice hfuel
    obtain ⟨ho, hc, hb, hop⟩ := h
    obtain ⟨r1, r2, r3⟩ := good_room pl off0 cnt0 s w.buf.length w.count ha hin hg.2 hc hb
    unfold readLoop
    dsimp only
    rw [if_neg (by omega)]
    generalize hmax : (if w.count < WIN then w.count else WIN) = max at r1 r2
    have hmaxle : max ≤ w.count := by rw [← hmax]; split <;> omega
    cases src with
    | nil => simp [srcRead, srcAll]
    | cons x rest =>
      obtain ⟨d0, e0⟩ := x
      rw [srcAll_cons]
      rw [srcBytes_cons] at hfuel
      by_cases hfit : d0.length ≤ max - w.buf.length
      · -- the whole read fits the window
        rw [srcRead_cons_fit _ _ _ _ hfit]
        dsimp only
        by_cases hd0 : d0.length = 0
        · rw [if_pos hd0]
          have hd0' : d0 = [] := List.length_eq_zero_iff.1 hd0
          cases rest with
          | nil => simp [hd0', srcAll]
          | cons y r => exact absurd hd0' hnice.1
        · rw [if_neg hd0]
          have hcpos : 0 < w.count := by omega
          obtain ⟨a1, a2⟩ := r3 hcpos
          have hdlen : (w.buf ++ d0).length ≤ w.count := by simp; omega
          have hbl : w.buf.length ≤ (w.buf ++ d0).length := by simp
          obtain ⟨h1, h2, h3, h4, h5, h6, h7, _⟩ :=
            wwrite_spec (addAt pl) (addAt_countLe pl) hU st { w with buf := w.buf ++ d0 } (w.buf ++ d0) ho hc hdlen
          obtain ⟨g1, g2⟩ := good_wwrite pl off0 cnt0 s w.buf.length ha hin st
            { w with buf := w.buf ++ d0 } (w.buf ++ d0) ho hc hdlen hbl hg.1 hg.2
          have herr : (wwrite (addAt pl) st { w with buf := w.buf ++ d0 } (w.buf ++ d0)).err = .none := by
            rw [wwrite_err]; exact addAt_opn_err pl st _ _ hg.1 (by rw [ho]; exact a1) (by rw [ho]; exact a2)
          generalize (wwrite (addAt pl) st { w with buf := w.buf ++ d0 } (w.buf ++ d0)) = r
            at h1 h2 h3 h4 h5 h6 h7 g1 g2 herr
          rw [if_neg (by omega)]
          have htake : (d0 ++ srcAll rest).take (w.count - w.buf.length)
              = d0 ++ (srcAll rest).take (w.count - w.buf.length - d0.length) := by
            rw [List.take_append, List.take_of_length_le (l := d0) (by omega)]
          by_cases her : e0 ≠ .none
          · rw [if_pos her]
            -- an error with the data: by niceness this was the last read
            cases rest with
            | nil => dsimp only; rw [htake]; simp [srcAll]
            | cons y r => exact absurd hnice.2.1 her
          · rw [if_neg her, if_neg (by simp [herr])]
            have hsl : (stored r.log).length = r.n := by rw [h7, List.length_take]; omega
            have hinv : WInv off0 cnt0 { r.w with buf := (w.buf ++ d0).drop r.n } (s + (stored r.log).length) :=
              ⟨by rw [hsl]; simpa [Nat.add_assoc] using h2, by rw [hsl]; dsimp only; omega,
               by dsimp only; rw [List.length_drop]; omega, by dsimp only; rw [h5]; exact hop⟩
            have hgood : Good pl off0 r.st { r.w with buf := (w.buf ++ d0).drop r.n } (s + (stored r.log).length) := by
              refine ⟨g1, ?_⟩
              dsimp only
              rw [hsl, List.length_drop, g2]; congr 1; omega
            have e1 : (w.buf ++ d0).length = w.buf.length + d0.length := List.length_append
            have hAB : w.count - w.buf.length - d0.length
                = r.w.count - ((w.buf ++ d0).drop r.n).length := by
              rw [List.length_drop]; omega
            rw [ih r.st _ rest _ _ hinv hgood hnice.tail (by omega)]
            dsimp only
            rw [htake, List.append_assoc, hAB]
      · -- only the first `k` bytes of the read fit
        rw [srcRead_cons_cut _ _ _ _ hfit]
        dsimp only
        have hk : max - w.buf.length < d0.length := by omega
        by_cases hd0 : (d0.take (max - w.buf.length)).length = 0
        · rw [if_pos hd0]
          -- the window is empty: the range is full
          have hk0 : max - w.buf.length = 0 := by
            rw [List.length_take] at hd0; omega
          have : w.count = w.buf.length := r2 (by omega)
          simp [this]
        · rw [if_neg hd0]
          have hkpos : 0 < max - w.buf.length := by
            rw [List.length_take] at hd0; omega
          have hklen : (d0.take (max - w.buf.length)).length = max - w.buf.length := by
            rw [List.length_take]; omega
          have hcpos : 0 < w.count := by omega
          obtain ⟨a1, a2⟩ := r3 hcpos
          generalize hdd : d0.take (max - w.buf.length) = d at hklen hd0
          have hdlen : (w.buf ++ d).length ≤ w.count := by simp; omega
          have hbl : w.buf.length ≤ (w.buf ++ d).length := by simp
          obtain ⟨h1, h2, h3, h4, h5, h6, h7, _⟩ :=
            wwrite_spec (addAt pl) (addAt_countLe pl) hU st { w with buf := w.buf ++ d } (w.buf ++ d) ho hc hdlen
          obtain ⟨g1, g2⟩ := good_wwrite pl off0 cnt0 s w.buf.length ha hin st
            { w with buf := w.buf ++ d } (w.buf ++ d) ho hc hdlen hbl hg.1 hg.2
          have herr : (wwrite (addAt pl) st { w with buf := w.buf ++ d } (w.buf ++ d)).err = .none := by
            rw [wwrite_err]; exact addAt_opn_err pl st _ _ hg.1 (by rw [ho]; exact a1) (by rw [ho]; exact a2)
          generalize (wwrite (addAt pl) st { w with buf := w.buf ++ d } (w.buf ++ d)) = r
            at h1 h2 h3 h4 h5 h6 h7 g1 g2 herr
          rw [if_neg (by omega), if_neg (by simp), if_neg (by simp [herr])]
          have hsl : (stored r.log).length = r.n := by rw [h7, List.length_take]; omega
          have hinv : WInv off0 cnt0 { r.w with buf := (w.buf ++ d).drop r.n } (s + (stored r.log).length) :=
            ⟨by rw [hsl]; simpa [Nat.add_assoc] using h2, by rw [hsl]; dsimp only; omega,
             by dsimp only; rw [List.length_drop]; omega, by dsimp only; rw [h5]; exact hop⟩
          have hgood : Good pl off0 r.st { r.w with buf := (w.buf ++ d).drop r.n } (s + (stored r.log).length) := by
            refine ⟨g1, ?_⟩
            dsimp only
            rw [hsl, List.length_drop, g2]; congr 1; omega
          have hn' : Nice ((d0.drop (max - w.buf.length), e0) :: rest) := hnice.dropHead _ hk
          have hfuel' : srcBytes ((d0.drop (max - w.buf.length), e0) :: rest) < fuel := by
            rw [srcBytes_cons, List.length_drop]; omega
          rw [ih r.st _ _ _ _ hinv hgood hn' hfuel']
          dsimp only
          rw [srcAll_cons, List.append_assoc]
          congr 1
          -- (d0 ++ R).take (k + m) = d0.take k ++ (d0.drop k ++ R).take m
          have hroom : w.count - w.buf.length
              = (max - w.buf.length) + ((r.w.count) - ((w.buf ++ d).drop r.n).length) := by
            have e1 : (w.buf ++ d).length = w.buf.length + d.length := List.length_append
            rw [List.length_drop]; omega
          rw [hroom, List.take_add, ← hdd]
          congr 1
          · rw [List.take_append_of_le_length (Nat.le_of_lt hk)]
          · rw [List.drop_append_of_le_length (Nat.le_of_lt hk)]

/-- the run-level statement: no interference with the store, which accepts data all along -/
def plainOp : Op Store → Prop
  | .env _ => False
  | _ => True

theorem good_run (pl off0 cnt0 : Nat) (ha : off0 % CS = 0) (hin : off0 + cnt0 ≤ pl) (hpl : pl < U32)
    (ops : List (Op Store)) : (∀ op ∈ ops, plainOp op) →
    ∀ (r : Run Store), RInv (addAt pl) off0 cnt0 r → r.st.mode = .opn →
      (stored r.log).length = addCount pl off0 r.consumed.length →
      (run (addAt pl) true r ops).st.mode = .opn ∧
      (stored (run (addAt pl) true r ops).log).length
        = addCount pl off0 (run (addAt pl) true r ops).consumed.length := by
  have hU : off0 + cnt0 < U32 := by omega
  induction ops with
  | nil => intro _ r _ h1 h2; exact ⟨h1, h2⟩
  | cons op rest ih =>
    intro hp r hr h1 h2
    have hr' := RInv.step (addAt pl) (addAt_countLe pl) hU r hr op
    have hrest : ∀ op ∈ rest, plainOp op := fun o ho => hp o (List.mem_cons_of_mem _ ho)
    have hlen : r.consumed.length = (stored r.log).length + r.w.buf.length := by
      rw [← hr.data, List.length_append]
    have key : (Run.step (addAt pl) true r op).st.mode = .opn ∧
        (stored (Run.step (addAt pl) true r op).log).length
          = addCount pl off0 (Run.step (addAt pl) true r op).consumed.length := by
      have hlen' : (Run.step (addAt pl) true r op).consumed.length
          = (stored (Run.step (addAt pl) true r op).log).length
            + (Run.step (addAt pl) true r op).w.buf.length := by
        rw [← hr'.data, List.length_append]
      cases op with
      | env f => exact absurd (hp _ (List.mem_cons_self ..)) (by simp [plainOp])
      | close => exact ⟨h1, h2⟩
      | write p =>
        cases hcl : r.w.closed with
        | true =>
          simp only [Run.step, closed_write (addAt pl) r.st r.w p hcl]
          simpa using ⟨h1, h2⟩
        | false =>
          have hg : Good pl off0 r.st r.w (stored r.log).length := ⟨h1, by rw [← hlen]; exact h2⟩
          have := good_write pl off0 cnt0 _ ha hin hpl r.st r.w p (hr.opn hcl) hg
          rw [hlen']
          dsimp only [Run.step] at *
          rw [stored_append, List.length_append]
          exact ⟨this.1, this.2⟩
      | readFrom src =>
        cases hcl : r.w.closed with
        | true =>
          simp only [Run.step, closed_readFrom (addAt pl) r.st r.w src hcl]
          simpa using ⟨h1, h2⟩
        | false =>
          have hg : Good pl off0 r.st r.w (stored r.log).length := ⟨h1, by rw [← hlen]; exact h2⟩
          have hi := hr.opn hcl
          obtain ⟨lg, e1, e2⟩ := good_readLoop pl off0 cnt0 ha hin hpl (srcBytes src + 1) r.st r.w src {}
            _ hi hg
          rw [hlen']
          dsimp only [Run.step] at *
          have hrf : readFrom (addAt pl) true r.st r.w src
              = readLoop (addAt pl) true (srcBytes src + 1) r.st r.w src {} := by
            unfold readFrom
            rw [if_neg (by simp [hcl]), if_neg (by have := hi.buf; omega)]
          rw [hrf]
          have e1' : (readLoop (addAt pl) true (srcBytes src + 1) r.st r.w src {}).2.2.log = lg := by
            simpa using e1
          rw [stored_append, List.length_append, e1']
          exact ⟨e2.1, e2.2⟩
    exact ih hrest _ hr' key.1 key.2

/-- **Independence of the split.**  With the modelled piece store accepting data all along and a
    range as maybeWebseed produces it, for every sequence of `Write` / `ReadFrom` / `Close` calls
    (any cut of the stream, any reader behaviour): the committed bytes are the first
    `addCount pl off0 n` bytes of the `n` bytes consumed — all whole blocks, plus the final short
    block when the stream reaches the end of the piece.  They are a function of the consumed
    stream alone, not of how it was cut. -/
theorem C14_writer_split_independent (pl off0 cnt0 : Nat) (ha : off0 % CS = 0)
    (hin : off0 + cnt0 ≤ pl) (hpl : pl < U32) (st : Store) (hm : st.mode = .opn)
    (ops : List (Op Store)) (hp : ∀ op ∈ ops, plainOp op) :
    let r := run (addAt pl) true (Run.init st off0 cnt0) ops
    stored r.log = r.consumed.take (addCount pl off0 r.consumed.length) := by
  intro r
  have hU : off0 + cnt0 < U32 := by omega
  have hr : RInv (addAt pl) off0 cnt0 r :=
    RInv.run (addAt pl) (addAt_countLe pl) hU ops _ (RInv.init (addAt pl) st off0 cnt0)
  have h0 : (stored (Run.init st off0 cnt0).log).length
      = addCount pl off0 (Run.init st off0 cnt0).consumed.length := by
    simp only [Run.init, stored, List.map_nil, List.flatten_nil, List.length_nil]
    unfold addCount; simp only [CS]; split <;> omega
  obtain ⟨_, k⟩ := good_run pl off0 cnt0 ha hin hpl ops hp _ (RInv.init (addAt pl) st off0 cnt0) hm h0
  have k' : (stored r.log).length = addCount pl off0 r.consumed.length := k
  rw [← k', ← hr.data, List.take_left]

/-! #### … and consumes everything offered, up to the room in the range -/

/-- calls that offer data: `Write`, or `ReadFrom` with a reader that does not end the copy early -/
def offerOp : Op Store → Prop
  | .write _ => True
  | .readFrom src => Nice src
  | _ => False

/-- the stream offered by a sequence of calls -/
def offered : List (Op Store) → Bytes
  | [] => []
  | .write p :: ops => p ++ offered ops
  | .readFrom src :: ops => srcAll src ++ offered ops
  | _ :: ops => offered ops

theorem write_rd {σ : Type} (add : σ → Nat → Bytes → σ × AddRes) (hle : CountLe add) (st : σ) (w : W)
    (p : Bytes) (hop : w.closed = false) (hb : w.buf.length ≤ w.count) :
    (write add st w p).2.2.rd = p.take (w.count - w.buf.length) ∧ (write add st w p).2.1.closed = false := by
  unfold write
  rw [if_neg (by simp [hop]), if_neg (by omega)]
  dsimp only
  have h := hle st w.offset (w.buf ++ List.take (w.count - w.buf.length) p)
  have hn : (wwrite add st w (w.buf ++ List.take (w.count - w.buf.length) p)).n
      ≤ (w.buf ++ List.take (w.count - w.buf.length) p).length := by
    unfold wwrite; dsimp only; split
    · exact h
    · exact Nat.zero_le _
  have hc : (wwrite add st w (w.buf ++ List.take (w.count - w.buf.length) p)).w.closed = false := by
    unfold wwrite; dsimp only; split <;> exact hop
  rw [if_neg (by omega)]
  exact ⟨rfl, hc⟩

theorem take_extend (X Y c : Bytes) (n : Nat) (hc : c = X.take n) :
    c ++ Y.take (n - c.length) = (X ++ Y).take n := by
  subst hc
  rw [List.take_append, List.length_take]
  by_cases h : X.length ≤ n
  · rw [Nat.min_eq_right h]
  · have h' : n ≤ X.length := by omega
    rw [Nat.min_eq_left h']
    have : n - X.length = 0 := by omega
    rw [this, Nat.sub_self]

theorem consumes_run (pl off0 cnt0 : Nat) (ha : off0 % CS = 0) (hin : off0 + cnt0 ≤ pl) (hpl : pl < U32)
    (ops : List (Op Store)) : (∀ op ∈ ops, offerOp op) →
    ∀ (r : Run Store) (X : Bytes), RInv (addAt pl) off0 cnt0 r → r.w.closed = false → r.st.mode = .opn →
      (stored r.log).length = addCount pl off0 r.consumed.length → r.consumed = X.take cnt0 →
      (run (addAt pl) true r ops).consumed = (X ++ offered ops).take cnt0 := by
  have hU : off0 + cnt0 < U32 := by omega
  induction ops with
  | nil => intro _ r X _ _ _ _ hX; simpa [run, offered] using hX
  | cons op rest ih =>
    intro hp r X hr hcl h1 h2 hX
    have hplain : ∀ o ∈ [op], plainOp o := by
      intro o ho
      have : o = op := by simpa using ho
      subst this
      have := hp o (List.mem_cons_self ..)
      cases o <;> simp_all [plainOp, offerOp]
    have hr' := RInv.step (addAt pl) (addAt_countLe pl) hU r hr op
    obtain ⟨k1, k2⟩ := good_run pl off0 cnt0 ha hin hpl [op] hplain r hr h1 h2
    have hi := hr.opn hcl
    have hroom : r.w.count - r.w.buf.length = cnt0 - r.consumed.length := by
      have e := hr.data
      have : r.consumed.length = (stored r.log).length + r.w.buf.length := by
        rw [← e, List.length_append]
      have := hi.cnt; have := hi.buf
      omega
    have hrest : ∀ o ∈ rest, offerOp o := fun o ho => hp o (List.mem_cons_of_mem _ ho)
    have hop := hp op (List.mem_cons_self ..)
    rw [show run (addAt pl) true r (op :: rest)
        = run (addAt pl) true (Run.step (addAt pl) true r op) rest from rfl]
    cases op with
    | close => exact absurd hop (by simp [offerOp])
    | env f => exact absurd hop (by simp [offerOp])
    | write p =>
      obtain ⟨e1, e2⟩ := write_rd (addAt pl) (addAt_countLe pl) r.st r.w p hcl hi.buf
      have hcons : (Run.step (addAt pl) true r (.write p)).consumed = (X ++ p).take cnt0 := by
        show r.consumed ++ (write (addAt pl) r.st r.w p).2.2.rd = _
        rw [e1, hroom]
        exact take_extend X p r.consumed cnt0 hX
      have := ih hrest _ (X ++ p) hr' e2 k1 k2 hcons
      rw [this]; simp [offered, List.append_assoc]
    | readFrom src =>
      have hg : Good pl off0 r.st r.w (stored r.log).length := ⟨h1, by
        have e := hr.data
        have : r.consumed.length = (stored r.log).length + r.w.buf.length := by
          rw [← e, List.length_append]
        rw [← this]; exact h2⟩
      have hrf : readFrom (addAt pl) true r.st r.w src
          = readLoop (addAt pl) true (srcBytes src + 1) r.st r.w src {} := by
        unfold readFrom
        rw [if_neg (by simp [hcl]), if_neg (by have := hi.buf; omega)]
      have e1 := consumes_readLoop pl off0 cnt0 ha hin hpl (srcBytes src + 1) r.st r.w src {} _ hi hg hop
        (Nat.lt_succ_self _)
      have e2 : (readFrom (addAt pl) true r.st r.w src).2.1.closed = false :=
        (readFrom_spec (addAt pl) (addAt_countLe pl) hU r.st r.w src hi).1.inv.opn
      have hcons : (Run.step (addAt pl) true r (.readFrom src)).consumed = (X ++ srcAll src).take cnt0 := by
        show r.consumed ++ (readFrom (addAt pl) true r.st r.w src).2.2.rd = _
        rw [hrf, e1, hroom]
        simp only [List.nil_append]
        exact take_extend X (srcAll src) r.consumed cnt0 hX
      have := ih hrest _ (X ++ srcAll src) hr' e2 k1 k2 hcons
      rw [this]; simp [offered, List.append_assoc]

/-- **The writer consumes everything offered.**  Modelled store accepting data all along, a range
    as maybeWebseed produces it, any sequence of `Write`s and of `ReadFrom`s from readers that do
    not end the copy early (every read but the last delivers data and no error): the bytes
    accepted are exactly the first `count₀` bytes of the concatenation of what was offered —
    however it was cut.  With `C14_writer_split_independent`: two ways of cutting the same
    stream into calls and reads commit exactly the same bytes. -/
theorem C14_writer_consumes_all (pl off0 cnt0 : Nat) (ha : off0 % CS = 0) (hin : off0 + cnt0 ≤ pl)
    (hpl : pl < U32) (st : Store) (hm : st.mode = .opn) (ops : List (Op Store))
    (hp : ∀ op ∈ ops, offerOp op) :
    (run (addAt pl) true (Run.init st off0 cnt0) ops).consumed = (offered ops).take cnt0 := by
  have h0 : (stored (Run.init st off0 cnt0).log).length
      = addCount pl off0 (Run.init st off0 cnt0).consumed.length := by
    simp only [Run.init, stored, List.map_nil, List.flatten_nil, List.length_nil]
    unfold addCount; simp only [CS]; split <;> omega
  have := consumes_run pl off0 cnt0 ha hin hpl ops hp (Run.init st off0 cnt0) []
    (RInv.init (addAt pl) st off0 cnt0) rfl hm h0 (by simp [Run.init])
  simpa using this

/-- two cuts of one stream commit the same bytes -/
theorem C14_writer_same_stream_same_result (pl off0 cnt0 : Nat) (ha : off0 % CS = 0)
    (hin : off0 + cnt0 ≤ pl) (hpl : pl < U32) (st st' : Store) (hm : st.mode = .opn)
    (hm' : st'.mode = .opn) (ops ops' : List (Op Store)) (hp : ∀ op ∈ ops, offerOp op)
    (hp' : ∀ op ∈ ops', offerOp op) (hs : offered ops = offered ops') :
    stored (run (addAt pl) true (Run.init st off0 cnt0) ops).log
      = stored (run (addAt pl) true (Run.init st' off0 cnt0) ops').log := by
  have pl1 : ∀ op ∈ ops, plainOp op := fun o ho => by
    have := hp o ho; cases o <;> simp_all [plainOp, offerOp]
  have pl2 : ∀ op ∈ ops', plainOp op := fun o ho => by
    have := hp' o ho; cases o <;> simp_all [plainOp, offerOp]
  have a := C14_writer_split_independent pl off0 cnt0 ha hin hpl st hm ops pl1
  have b := C14_writer_split_independent pl off0 cnt0 ha hin hpl st' hm' ops' pl2
  have ca := C14_writer_consumes_all pl off0 cnt0 ha hin hpl st hm ops hp
  have cb := C14_writer_consumes_all pl off0 cnt0 ha hin hpl st' hm' ops' hp'
  dsimp only at a b
  rw [a, b, ca, cb, hs]

/-- The theorems above are about the repaired `ReadFrom`.  The pinned one (`fixed = false`) faults:
    a piece that has become complete (AddData returns 0), `Write` of more than 32768 bytes, then
    `ReadFrom` with any reader evaluates `w.buf[len(w.buf):32768]`. -/
theorem C14_writer_unfixed_panics (p : Bytes) (src : Src) (h1 : 32768 < p.length)
    (h2 : p.length ≤ 65536) :
    (run addData false (Run.init ⟨65536, .frozen, []⟩ 0 65536) [.write p, .readFrom src]).panic = true := by
  have ht : List.take 65536 p = p := List.take_of_length_le h2
  have hlt : ¬ (65536 < p.length) := by omega
  simp [run, Run.step, Run.init, newWriter, write, wwrite, addData, readFrom, readLoop, WIN, ofAErr, ht,
    hlt, h1]


/-! ### GetRight.Get: response validation -/

theorem limitSrc_all : ∀ (s : Src) (n : Nat), srcAll (limitSrc s n) = (srcAll s).take n := by
  intro s
  induction s with
  | nil => intro n; simp [limitSrc, srcAll]
  | cons x rest ih =>
    intro n
    obtain ⟨d, e⟩ := x
    have hs : srcAll ((d, e) :: rest) = d ++ srcAll rest := by simp [srcAll]
    unfold limitSrc
    rw [hs]
    by_cases h0 : n = 0
    · simp [h0, srcAll]
    · rw [if_neg h0]
      by_cases h1 : d.length < n
      · rw [if_pos h1]
        have : srcAll ((d, e) :: limitSrc rest (n - d.length)) = d ++ srcAll (limitSrc rest (n - d.length)) := by
          simp [srcAll]
        rw [this, ih, List.take_append]
        rw [List.take_of_length_le (l := d) (by omega)]
      · rw [if_neg h1]
        by_cases h2 : d.length = n
        · rw [if_pos h2, ← h2, List.take_left]; simp [srcAll]
        · rw [if_neg h2, List.take_append_of_le_length (by omega)]; simp [srcAll]

/-- **Response validation** (repaired `Get`).  If a response is accepted then the body is wrapped
    in `io.LimitReader(length)`; a 200 is accepted only for a request starting at 0 and only
    without Content-Length or with one equal to the file's length; a 206 only with a parsable
    Content-Range that starts at the requested offset and whose total, if given, is the file's
    length.  Every other status, and everything else, is refused. -/
theorem C14_response_validation (status : Nat) (cl cr : List Char) (flength offset length : Int)
    (lim : Option Int) (h : grDecide true status cl cr flength offset length = .accept lim) :
    lim = some length ∧
    ((status = 200 ∧ offset = 0 ∧ (cl = [] ∨ ∃ v, parseInt64 cl = some v ∧ (v < 0 ∨ v = flength))) ∨
     (status = 206 ∧ cr ≠ [] ∧ ∃ l t, parseContentRange cr = some (offset, l, t) ∧ (t < 0 ∨ t = flength))) := by
  unfold grDecide at h
  by_cases h200 : status = 200
  · rw [if_pos h200] at h
    by_cases ho : offset ≠ 0
    · rw [if_pos ho] at h; simp at h
    · rw [if_neg ho] at h
      have ho' : offset = 0 := by omega
      by_cases hcl : cl.isEmpty
      · rw [if_pos hcl] at h
        unfold grFinish at h
        simp at h
        exact ⟨h.symm, Or.inl ⟨h200, ho', Or.inl (List.isEmpty_iff.1 hcl)⟩⟩
      · rw [if_neg hcl] at h
        cases hp : parseInt64 cl with
        | none => rw [hp] at h; simp at h
        | some v =>
          rw [hp] at h
          unfold grFinish at h
          dsimp only at h
          by_cases hm : v ≥ 0 ∧ v ≠ flength
          · rw [if_pos hm] at h; simp at h
          · rw [if_neg hm] at h
            simp at h
            exact ⟨h.symm, Or.inl ⟨h200, ho', Or.inr ⟨v, rfl, by omega⟩⟩⟩
  · rw [if_neg h200] at h
    by_cases h206 : status = 206
    · rw [if_pos h206] at h
      by_cases hcr : cr.isEmpty
      · rw [if_pos hcr] at h; simp at h
      · rw [if_neg hcr] at h
        cases hp : parseContentRange cr with
        | none => rw [hp] at h; simp at h
        | some x =>
          obtain ⟨o, l, t⟩ := x
          rw [hp] at h
          dsimp only at h
          by_cases hne : o ≠ offset
          · rw [if_pos hne] at h; simp at h
          · rw [if_neg hne] at h
            have : o = offset := by omega
            subst this
            unfold grFinish at h
            dsimp only at h
            by_cases hm : t ≥ 0 ∧ t ≠ flength
            · rw [if_pos hm] at h; simp at h
            · rw [if_neg hm] at h
              simp at h
              exact ⟨h.symm, Or.inr ⟨h206, fun hc => hcr (by simp [hc]), l, t, rfl, by omega⟩⟩
    · rw [if_neg h206] at h
      by_cases h416 : status = 416
      · rw [if_pos h416] at h
        by_cases hcr : cr.isEmpty
        · rw [if_pos hcr] at h; simp at h
        · rw [if_neg hcr] at h
          cases hp : parseContentRange cr <;> rw [hp] at h <;> simp at h
      · rw [if_neg h416] at h; simp at h

/-- so at most `length` bytes of the body reach the writer, and they are its first bytes — which
    the accepted response claims to be bytes `offset …` of the file -/
theorem C14_accepted_body_clipped (status : Nat) (cl cr : List Char) (flength offset length : Int)
    (lim : Option Int) (h : grDecide true status cl cr flength offset length = .accept lim)
    (body : Src) :
    srcAll (grSrc lim body) = (srcAll body).take length.toNat := by
  have hl := (C14_response_validation status cl cr flength offset length lim h).1
  subst hl
  exact limitSrc_all body _

/-- a refused response leaves the store and the writer untouched: not a byte is stored -/
theorem C14_rejected_stores_nothing {σ : Type} (add : σ → Nat → Bytes → σ × AddRes)
    (status : Nat) (cl cr : List Char) (body : Src) (fc : FileChunk) (why : Reject) (st : σ) (w : W)
    (h : grDecide true status cl cr fc.filelength fc.offset fc.length = .reject why) :
    grOne add true st w fc (.http status cl cr body) = ⟨st, w, 0, some why.name, [], false⟩ := by
  simp [grOne, h]

/-- The decision function is total over the parser's outputs, the `-1` of the unsatisfied-range form
    included: a 206 whose Content-Range is `bytes */N` (offset −1, length −1) is refused for every
    request — a requested offset is never negative — whatever `N` and whatever the body. -/
theorem C14_unsatisfied_range_refused (cl cr : List Char) (flength offset length l t : Int)
    (ho : 0 ≤ offset) (hcr : cr ≠ []) (hp : parseContentRange cr = some (-1, l, t)) :
    grDecide true 206 cl cr flength offset length = .reject .notHonoured := by
  unfold grDecide
  have h1 : cr.isEmpty = false := by
    cases cr with
    | nil => exact absurd rfl hcr
    | cons a r => rfl
  simp only [show (206 : Nat) ≠ 200 by decide, if_false, if_true, h1, hp, Bool.false_eq_true]
  rw [if_pos (by omega)]

/-- … and more generally whenever the range the server states does not start where asked -/
theorem C14_other_start_refused (cl cr : List Char) (flength offset length o l t : Int)
    (hcr : cr ≠ []) (hp : parseContentRange cr = some (o, l, t)) (hne : o ≠ offset) :
    grDecide true 206 cl cr flength offset length = .reject .notHonoured := by
  unfold grDecide
  have h1 : cr.isEmpty = false := by
    cases cr with
    | nil => exact absurd rfl hcr
    | cons a r => rfl
  simp only [show (206 : Nat) ≠ 200 by decide, if_false, if_true, h1, hp, Bool.false_eq_true]
  rw [if_pos hne]

/-- The pinned `Get` (`fixed = false`) limits the body only when the *claimed* length exceeds the
    request: a 206 claiming ten bytes is accepted without any limit on the body. -/
theorem C14_response_validation_unfixed_refuted :
    grDecide false 206 [] "bytes 0-9/100".toList 100 0 16384 = .accept none := by
  decide


/-! ### Hoffman.Get: response validation

(The request itself asks for `ranges=o-(o+l)`, one byte more than the inclusive range
`o…o+l-1`; that is outside this property — what the server sends beyond `l` bytes never reaches
the piece, by the statements below.) -/

/-- **Hoffman validation.**  A response is accepted only with status 200 and either no
    Content-Length (then the body is read through `io.LimitReader(length)`) or a Content-Length
    equal to the requested length. -/
theorem C14_hoffman_validation (status : Nat) (cl : List Char) (length : Nat) (lim : Bool)
    (h : hDecide status cl length = .accept lim) :
    status = 200 ∧ ((cl = [] ∧ lim = true) ∨ (parseInt64 cl = some (length : Int) ∧ lim = false)) := by
  unfold hDecide at h
  by_cases hs : status ≠ 200
  · rw [if_pos hs] at h; simp at h
  · rw [if_neg hs] at h
    have hs' : status = 200 := by omega
    by_cases hcl : cl.isEmpty
    · rw [if_pos hcl] at h
      simp only [HDecision.accept.injEq] at h
      exact ⟨hs', Or.inl ⟨List.isEmpty_iff.1 hcl, h.symm⟩⟩
    · rw [if_neg hcl] at h
      cases hp : parseInt64 cl with
      | none => rw [hp] at h; simp at h
      | some v =>
        rw [hp] at h
        dsimp only at h
        by_cases hv : v ≠ (length : Int)
        · rw [if_pos hv] at h; simp at h
        · rw [if_neg hv] at h
          simp only [HDecision.accept.injEq] at h
          have : v = (length : Int) := by omega
          exact ⟨hs', Or.inr ⟨by rw [this], h.symm⟩⟩

/-- at most `length` bytes are handed to the writer: by the LimitReader when there is no
    Content-Length, by HTTP framing (the client delivers at most Content-Length = `length` bytes of
    body) otherwise -/
theorem C14_hoffman_body_clipped (lim : Bool) (body : Src) (length : Nat)
    (hframe : lim = false → (srcAll body).length ≤ length) :
    (srcAll (hSrc lim body length)).length ≤ length := by
  unfold hSrc
  cases lim with
  | true => simp only [if_true]; rw [limitSrc_all, List.length_take]; exact Nat.min_le_left _ _
  | false => simpa using hframe rfl

/-- and whatever reader it copies from — even a body longer than announced — the writer
    `webseedH` creates for `(offset, length)` accepts at most `length` bytes and hands nothing
    to the store outside `[offset, offset+length)` -/
theorem C14_hoffman_writer_bound {σ : Type} (add : σ → Nat → Bytes → σ × AddRes) (hle : CountLe add)
    (offset length : Nat) (hU : offset + length < U32) (st : σ) (src : Src) :
    let r := run add true (Run.init st offset length) [.readFrom src, .close]
    r.panic = false ∧ r.consumed.length ≤ length ∧
    ∀ e ∈ r.log, offset ≤ e.1 ∧ e.1 + e.2.length ≤ offset + length := by
  intro r
  have h := C14_writer_exact add hle offset length hU st [.readFrom src, .close]
  refine ⟨C14_writer_no_panic add hle offset length hU st _, h.2.1, fun e he => ?_⟩
  obtain ⟨a, b, _⟩ := h.2.2 e he
  exact ⟨a, b⟩

/-! ### several writers at once

Writers are independent state machines: a writer's state is its own `(offset, count, buf)` and the
store of its piece; nothing is shared between writer instances.  (The harness ties this sharing
assumption to the Go code: it interleaves the calls of up to three live writers and compares each
one's observations with a run of the same calls alone — kind `writer:interference`.) -/

section
variable {σ : Type} (add : σ → Nat → Bytes → σ × AddRes)

/-- calls tagged with the writer they are made on; every writer has its own run state -/
def runTagged (rs : Nat → Run σ) (ops : List (Nat × Op σ)) : Nat → Run σ :=
  ops.foldl (fun rs x => fun j => if j = x.1 then Run.step add true (rs j) x.2 else rs j) rs

/-- **Writers are independent.**  For every interleaving of calls on any number of writers (each
    on its own piece store), the state, the accepted data, the events and the store of writer `i`
    are those of running its own calls alone, in their order — whatever the other writers were doing
    in between.  All single-writer theorems therefore hold for each writer of a concurrent set. -/
theorem C14_writers_independent (ops : List (Nat × Op σ)) : ∀ (rs : Nat → Run σ) (i : Nat),
    runTagged add rs ops i = run add true (rs i) ((ops.filter (fun x => x.1 = i)).map (·.2)) := by
  induction ops with
  | nil => intro rs i; rfl
  | cons x rest ih =>
    intro rs i
    show runTagged add (fun j => if j = x.1 then Run.step add true (rs j) x.2 else rs j) rest i = _
    rw [ih]
    by_cases h : x.1 = i
    · have hd : decide (x.1 = i) = true := by simp [h]
      simp only [List.filter_cons, hd, if_true, List.map_cons]
      rw [if_pos h.symm]
      rfl
    · have hd : decide (x.1 = i) = false := by simp [h]
      simp only [List.filter_cons, hd, Bool.false_eq_true, if_false]
      rw [if_neg (fun e => h e.symm)]

end

/-! ### the whole fetch: tor.webseedGR is a sequence of ReadFrom calls on one writer, then Close -/

section
variable {σ : Type} (add : σ → Nat → Bytes → σ × AddRes)

theorem run_cons (r : Run σ) (op : Op σ) (ops : List (Op σ)) :
    run add true r (op :: ops) = run add true (Run.step add true r op) ops := rfl

def toRun (x : σ × W × GROut) (c : Bytes) (lg : List (Nat × Bytes)) : Run σ :=
  ⟨x.1, x.2.1, c, lg, x.2.2.evs, x.2.2.panic⟩

/-- one iteration of the loop either does not touch the writer or is one `ReadFrom` -/
theorem grOne_cases (st : σ) (w : W) (fc : FileChunk) (r : Resp) :
    ((grOne add true st w fc r).st = st ∧ (grOne add true st w fc r).w = w ∧
      (grOne add true st w fc r).evs = [] ∧ (grOne add true st w fc r).panic = false) ∨
    ∃ src, (grOne add true st w fc r).st = (readFrom add true st w src).1 ∧
      (grOne add true st w fc r).w = (readFrom add true st w src).2.1 ∧
      (grOne add true st w fc r).evs = (readFrom add true st w src).2.2.evs ∧
      (grOne add true st w fc r).panic = (readFrom add true st w src).2.2.panic := by
  cases r with
  | transport => left; exact ⟨rfl, rfl, rfl, rfl⟩
  | pad => right; exact ⟨zeroSrc fc.length.toNat, rfl, rfl, rfl, rfl⟩
  | http status cl cr body =>
    cases hd : grDecide true status cl cr fc.filelength fc.offset fc.length with
    | reject why => left; simp [grOne, hd]
    | accept lim => right; exact ⟨grSrc lim body, by simp [grOne, hd]⟩

/-- whatever the servers answer, the effect of the per-file loop on the store, the writer and the
    events is that of some sequence of `ReadFrom` calls -/
theorem grLoop_run : ∀ (fcs : List FileChunk) (rs : List Resp) (st : σ) (w : W) (acc : GROut)
    (c : Bytes) (lg : List (Nat × Bytes)),
    ∃ srcs : List Src, ∃ c' lg',
      run add true ⟨st, w, c, lg, acc.evs, acc.panic⟩ (srcs.map Op.readFrom)
        = toRun (grLoop add true st w fcs rs acc) c' lg' := by
  intro fcs
  induction fcs with
  | nil => intro rs st w acc c lg; exact ⟨[], c, lg, rfl⟩
  | cons fc fcs ih =>
    intro rs st w acc c lg
    unfold grLoop
    dsimp only
    have hne : ∀ r, (noteReq acc fc r).evs = acc.evs ∧ (noteReq acc fc r).panic = acc.panic := by
      intro r; cases r <;> exact ⟨rfl, rfl⟩
    rcases grOne_cases add st w fc (rs.headD Resp.transport) with ⟨h1, h2, h3, h4⟩ | ⟨src, h1, h2, h3, h4⟩
    · -- the writer was not called in this iteration
      generalize grOne add true st w fc (rs.headD Resp.transport) = x at h1 h2 h3 h4
      rw [h4]
      simp only [Bool.false_eq_true, if_false, h3, List.append_nil, Bool.or_false, h1, h2]
      cases x.err with
      | some e => exact ⟨[], c, lg, by simp [run, toRun]⟩
      | none =>
        dsimp only
        split
        · exact ⟨[], c, lg, by simp [run, toRun]⟩
        · exact ih rs.tail st w ⟨(noteReq acc fc (rs.headD Resp.transport)).reqs,
            (noteReq acc fc (rs.headD Resp.transport)).log, acc.evs, acc.panic⟩ c lg
    · -- one ReadFrom
      generalize grOne add true st w fc (rs.headD Resp.transport) = x at h1 h2 h3 h4
      have hstep : Run.step add true ⟨st, w, c, lg, acc.evs, acc.panic⟩ (.readFrom src)
          = ⟨x.st, x.w, c ++ (readFrom add true st w src).2.2.rd, lg ++ (readFrom add true st w src).2.2.log,
             acc.evs ++ x.evs, acc.panic || x.panic⟩ := by
        simp only [Run.step, h1, h2, h3, h4]
      by_cases hp : x.panic = true
      · rw [if_pos hp]
        exact ⟨[src], _, _, by rw [List.map_cons, run_cons, hstep]; rfl⟩
      · rw [if_neg hp]
        cases x.err with
        | some e => exact ⟨[src], _, _, by rw [List.map_cons, run_cons, hstep]; rfl⟩
        | none =>
          dsimp only
          split
          · exact ⟨[src], _, _, by rw [List.map_cons, run_cons, hstep]; rfl⟩
          · obtain ⟨srcs, c', lg', h⟩ := ih rs.tail x.st x.w
              ⟨(noteReq acc fc (rs.headD Resp.transport)).reqs,
                (noteReq acc fc (rs.headD Resp.transport)).log, acc.evs ++ x.evs, acc.panic || x.panic⟩
              (c ++ (readFrom add true st w src).2.2.rd) (lg ++ (readFrom add true st w src).2.2.log)
            exact ⟨src :: srcs, c', lg', by rw [List.map_cons, run_cons, hstep]; exact h⟩

/-- `webseedGR` = some `ReadFrom`s on a fresh writer for the range, then `Close` -/
theorem webseedGR_run (st : σ) (fcs : List FileChunk) (off0 cnt0 : Nat) (rs : List Resp)
    (hle : CountLe add) (hU : off0 + cnt0 < U32) :
    ∃ srcs : List Src,
      let r := run add true (Run.init st off0 cnt0) (srcs.map Op.readFrom ++ [.close])
      (webseedGR add true st fcs off0 cnt0 rs).2.evs = r.evs ∧
      (webseedGR add true st fcs off0 cnt0 rs).2.panic = false ∧ r.w.closed = true ∧
      (webseedGR add true st fcs off0 cnt0 rs).1 = r.st := by
  obtain ⟨srcs, c', lg', h⟩ := grLoop_run add fcs rs st (newWriter off0 cnt0) {} [] []
  refine ⟨srcs, ?_⟩
  have hrun : run add true (Run.init st off0 cnt0) (srcs.map Op.readFrom ++ [.close])
      = Run.step add true (run add true (Run.init st off0 cnt0) (srcs.map Op.readFrom)) .close := by
    simp [run, List.foldl_append]
  have hnp := C14_writer_no_panic add hle off0 cnt0 hU st (srcs.map Op.readFrom)
  have h' : run add true (Run.init st off0 cnt0) (srcs.map Op.readFrom)
      = toRun (grLoop add true st (newWriter off0 cnt0) fcs rs {}) c' lg' := h
  have hpan : (grLoop add true st (newWriter off0 cnt0) fcs rs {}).2.2.panic = false := by
    have := congrArg Run.panic h'; rw [hnp] at this; exact this.symm
  dsimp only
  rw [hrun, h']
  unfold webseedGR
  dsimp only
  rw [hpan]
  simp only [Bool.false_eq_true, if_false, Run.step, toRun]
  refine ⟨trivial, trivial, ?_, trivial⟩
  unfold close
  split
  · assumption
  · split <;> rfl

/-- The store after `webseedGR` is the store after a run of the writer to which
    `C14_writer_exact`, `C14_writer_whole_blocks` apply: whatever the servers answered, what reached
    the piece store is a prefix of the bytes the writer accepted, at their offsets, inside the range. -/
theorem C14_webseedGR_is_writer_run (hle : CountLe add) (off0 cnt0 : Nat) (hU : off0 + cnt0 < U32)
    (st : σ) (fcs : List FileChunk) (rs : List Resp) :
    ∃ ops : List (Op σ), (webseedGR add true st fcs off0 cnt0 rs).1
      = (run add true (Run.init st off0 cnt0) ops).st := by
  obtain ⟨srcs, _, _, _, h⟩ := webseedGR_run add st fcs off0 cnt0 rs hle hU
  exact ⟨_, h⟩

/-- **The whole fetch.**  For every file layout (`fcs`), every answer of every server (`rs`: any
    status, headers, body, failure), every store honouring the contract: `webseedGR` does not
    fault, and the TorData events plus the final TorDrop it emits name exactly the blocks
    maybeWebseed reserved for the range — each once, in order. -/
theorem C14_webseedGR_released (hle : CountLe add) (pl : Nat) (hb : BlocksC add pl)
    (off0 cnt0 : Nat) (ha : off0 % CS = 0) (hin : off0 + cnt0 ≤ pl) (hpl : pl < U32)
    (st : σ) (fcs : List FileChunk) (rs : List Resp) :
    (webseedGR add true st fcs off0 cnt0 rs).2.panic = false ∧
    released (webseedGR add true st fcs off0 cnt0 rs).2.evs = reserve off0 cnt0 := by
  obtain ⟨srcs, h1, h2, h3, _⟩ := webseedGR_run add st fcs off0 cnt0 rs hle (by omega)
  refine ⟨h2, ?_⟩
  rw [h1]
  exact (C14_reservation_released add hle pl hb off0 cnt0 ha hin hpl st _).2 h3

end

/-! ### maybeWebseed's choice of range meets the hypotheses of the reservation theorems -/

theorem holeFrom_lt (bl : List (Option Bytes)) (st f n : Nat) (h : holeFrom bl st = some (f, n)) :
    f < bl.length := by
  unfold holeFrom at h
  dsimp only at h
  split at h
  · simp at h
  · rename_i hlt
    simp only [Option.some.injEq, Prod.mk.injEq] at h
    omega

theorem pickHole_lt (bl : List (Option Bytes)) (infl : List Nat) :
    ∀ (fuel st f n : Nat), pickHole bl infl fuel st = some (f, n) → f < bl.length := by
  intro fuel
  induction fuel with
  | zero => intro st f n h; simp [pickHole] at h
  | succ fuel ih =>
    intro st f n h
    unfold pickHole at h
    cases hh : holeFrom bl st with
    | none => rw [hh] at h; simp at h
    | some x =>
      obtain ⟨f', n'⟩ := x
      rw [hh] at h
      dsimp only at h
      split at h
      · exact ih _ _ _ h
      · simp only [Option.some.injEq, Prod.mk.injEq] at h
        obtain ⟨rfl, rfl⟩ := h
        exact holeFrom_lt bl st _ _ hh

theorem capLen_le (r l : Nat) : capLen r l ≤ l := by
  unfold capLen
  dsimp only
  repeat' split
  all_goals omega

/-- **maybeWebseed's range.**  For a piece whose block table has one entry per block, whatever is
    in flight and whatever the web seed's measured rate: the range chosen (first idle hole, capped)
    starts at a block boundary and lies inside the piece — the hypotheses under which
    `C14_reservation_released` / `C14_webseedGR_released` say that the blocks `reserve o l` marked
    in flight are exactly the blocks released by the fetch. -/
theorem C14_maybe_range_inside (s : Store) (infl : List Nat) (rate5 o l : Nat)
    (hn : s.blocks.length = ceilDiv s.pl CS) (h : maybeRange s infl rate5 = some (o, l)) :
    o % CS = 0 ∧ o + l ≤ s.pl := by
  unfold maybeRange at h
  split at h
  · cases hp : pickHole s.blocks infl (s.blocks.length + 1) 0 with
    | none => rw [hp] at h; simp at h
    | some x =>
      obtain ⟨f, n⟩ := x
      rw [hp] at h
      simp only [Option.map_some, Option.some.injEq, Prod.mk.injEq] at h
      obtain ⟨rfl, rfl⟩ := h
      have hf := pickHole_lt s.blocks infl _ _ _ _ hp
      refine ⟨by simp only [CS]; omega, ?_⟩
      have hc := capLen_le rate5 (if f + n ≥ s.blocks.length then s.pl - f * CS else n * CS)
      rw [hn] at hf
      by_cases hend : f + n ≥ s.blocks.length
      · rw [if_pos hend] at hc ⊢
        simp only [CS, ceilDiv] at *; omega
      · rw [if_neg hend] at hc ⊢
        rw [hn] at hend
        simp only [CS, ceilDiv] at *; omega
  · simp at h

/-! ### buildUrl: the request target names exactly the torrent's file -/

section Url
open Storrent.Http

/-- per byte: an escaped byte decodes to itself and contains no '/', an unescaped one is neither
    '%' nor '/' -/
def byteOK (n : Nat) : Bool :=
  let c := UInt8.ofNat n
  (if shouldEscape c then
     unhexDigit (upperhex (n / 16)) == some (n / 16) && unhexDigit (upperhex (n % 16)) == some (n % 16)
       && upperhex (n / 16) != 47 && upperhex (n % 16) != 47
   else c != 37 && c != 47)

set_option maxRecDepth 100000 in
theorem allBytesOK : ∀ n, n < 256 → byteOK n = true := by decide

theorem byte_cases (c : UInt8) :
    (shouldEscape c = true ∧ pctByte c = [37, upperhex (c.toNat / 16), upperhex (c.toNat % 16)] ∧
      unhexDigit (upperhex (c.toNat / 16)) = some (c.toNat / 16) ∧
      unhexDigit (upperhex (c.toNat % 16)) = some (c.toNat % 16) ∧
      upperhex (c.toNat / 16) ≠ 47 ∧ upperhex (c.toNat % 16) ≠ 47) ∨
    (shouldEscape c = false ∧ pctByte c = [c] ∧ c ≠ 37 ∧ c ≠ 47) := by
  have h := allBytesOK c.toNat (by have := UInt8.toNat_lt c; omega)
  unfold byteOK at h
  rw [UInt8.ofNat_toNat] at h
  dsimp only at h
  cases hs : shouldEscape c with
  | true =>
    left
    simp only [hs, if_true, Bool.and_eq_true, beq_iff_eq, bne_iff_ne, ne_eq] at h
    exact ⟨rfl, by simp [pctByte, hs], h.1.1.1, h.1.1.2, h.1.2, h.2⟩
  | false =>
    right
    simp only [hs, Bool.false_eq_true, if_false, Bool.and_eq_true, bne_iff_ne, ne_eq] at h
    exact ⟨rfl, by simp [pctByte, hs], h.1, h.2⟩

theorem unescape_cons (c : UInt8) (r : Bytes) (h : c ≠ 37) :
    unescape (c :: r) = (unescape r).map (c :: ·) := by
  match r with
  | [] => simp [unescape, h]
  | [d] => simp [unescape, h]
  | a :: b :: r' => simp [unescape, h]

theorem unescape_pct (c : UInt8) (r : Bytes) :
    unescape (pctByte c ++ r) = (unescape r).map (c :: ·) := by
  rcases byte_cases c with ⟨_, hp, h1, h2, _, _⟩ | ⟨_, hp, h37, _⟩
  · rw [hp]
    show unescape (37 :: upperhex (c.toNat / 16) :: upperhex (c.toNat % 16) :: r) = _
    have hc : UInt8.ofNat (c.toNat / 16 * 16 + c.toNat % 16) = c := by
      have : c.toNat / 16 * 16 + c.toNat % 16 = c.toNat := by omega
      rw [this, UInt8.ofNat_toNat]
    simp only [unescape, if_true, h1, h2]
    cases unescape r with
    | none => rfl
    | some t => simp [hc]
  · rw [hp]
    exact unescape_cons c r h37

/-- percent-decoding undoes `url.PathEscape` -/
theorem unescape_escape (s : Bytes) : unescape (pathEscape s) = some s := by
  induction s with
  | nil => rfl
  | cons c r ih =>
    show unescape (pctByte c ++ pathEscape r) = _
    rw [unescape_pct, ih]; rfl

/-- an escaped component contains no '/' -/
theorem no_slash_escape (s : Bytes) : slash ∉ pathEscape s := by
  induction s with
  | nil => simp [pathEscape]
  | cons c r ih =>
    show slash ∉ pctByte c ++ pathEscape r
    intro h
    rcases List.mem_append.1 h with h | h
    · rcases byte_cases c with ⟨_, hp, _, _, g1, g2⟩ | ⟨_, hp, _, h47⟩
      · rw [hp] at h
        simp only [List.mem_cons, List.not_mem_nil, or_false, slash] at h
        rcases h with h | h | h
        · exact absurd h (by decide)
        · exact g1 h.symm
        · exact g2 h.symm
      · rw [hp] at h
        simp only [List.mem_singleton, slash] at h
        exact h47 h.symm
    · exact ih h

theorem splitSlash_ne_nil (s : Bytes) : splitSlash s ≠ [] := by
  cases s with
  | nil => simp [splitSlash]
  | cons c r =>
    simp only [splitSlash]
    split
    · simp
    · split <;> simp

theorem splitSlash_cons (c : UInt8) (r : Bytes) :
    splitSlash (c :: r) = if c = slash then [] :: splitSlash r
      else ((splitSlash r).headD [] |> (c :: ·)) :: (splitSlash r).tail := by
  simp only [splitSlash]
  cases hr : splitSlash r with
  | nil => exact absurd hr (splitSlash_ne_nil r)
  | cons x t => by_cases hc : c = slash <;> simp [hc]

theorem splitSlash_noslash (a : Bytes) (h : slash ∉ a) : splitSlash a = [a] := by
  induction a with
  | nil => rfl
  | cons c r ih =>
    have hr : slash ∉ r := fun x => h (List.mem_cons_of_mem _ x)
    have hc : c ≠ slash := fun e => h (by rw [e]; exact List.mem_cons_self ..)
    rw [splitSlash_cons, ih hr]
    simp [hc]

theorem splitSlash_append (a b : Bytes) (h : slash ∉ a) :
    splitSlash (a ++ [slash] ++ b) = a :: splitSlash b := by
  induction a with
  | nil =>
    show splitSlash (slash :: b) = _
    rw [splitSlash_cons]; simp
  | cons c r ih =>
    have hr : slash ∉ r := fun x => h (List.mem_cons_of_mem _ x)
    have hc : c ≠ slash := fun e => h (by rw [e]; exact List.mem_cons_self ..)
    show splitSlash (c :: (r ++ [slash] ++ b)) = _
    rw [splitSlash_cons, ih hr]
    simp [hc]

theorem split_join_escape : ∀ (comps : List Bytes), comps ≠ [] →
    (splitSlash (joinSlash (comps.map pathEscape))).mapM unescape = some comps := by
  intro comps
  induction comps with
  | nil => intro h; exact absurd rfl h
  | cons c r ih =>
    intro _
    cases r with
    | nil =>
      simp only [List.map_cons, List.map_nil, joinSlash]
      rw [splitSlash_noslash _ (no_slash_escape c)]
      simp [unescape_escape]
    | cons c2 r2 =>
      have := ih (by simp)
      simp only [List.map_cons, joinSlash] at this ⊢
      rw [splitSlash_append _ _ (no_slash_escape c)]
      simp only [List.mapM_cons, unescape_escape]
      rw [this]; rfl

theorem escape_ne_nil (s : Bytes) (h : s ≠ []) : pathEscape s ≠ [] := by
  cases s with
  | nil => exact absurd rfl h
  | cons c r =>
    show pctByte c ++ pathEscape r ≠ []
    rcases byte_cases c with ⟨_, hp, _⟩ | ⟨_, hp, _⟩ <;> rw [hp] <;> simp

theorem not_endsWithSlash_append (u e : Bytes) (hne : e ≠ []) (hs : slash ∉ e) :
    endsWithSlash (u ++ e) = false := by
  unfold endsWithSlash
  rw [List.getLast?_append]
  cases hl : e.getLast? with
  | none => exact absurd (List.getLast?_eq_none_iff.1 hl) hne
  | some x =>
    have : x ∈ e := List.mem_of_getLast? hl
    have : x ≠ slash := fun e' => hs (e' ▸ this)
    simp [this]

/-- **The request target names the file.**  For a torrent name that is not empty and a file path
    with at least one component (what the metadata checks guarantee), the URL is the web seed's
    base (with a '/' added if it lacks one) followed by a path that, split at '/', is exactly the
    escaped name and the escaped components — each decoding to itself.  A '/' appears only between
    components; no component can introduce a query, a fragment or a different path. -/
theorem C14_url_components (url name : Bytes) (comps : List Bytes) (hn : name ≠ []) (hc : comps ≠ []) :
    ∃ pre tail, buildUrl url name (some comps) = pre ++ tail ∧
      (pre = url ∨ pre = url ++ [slash]) ∧
      (splitSlash tail).mapM unescape = some (name :: comps) := by
  have hen := escape_ne_nil name hn
  have hns := no_slash_escape name
  refine ⟨if !endsWithSlash url then url ++ [slash] else url,
    pathEscape name ++ [slash] ++ joinSlash (comps.map pathEscape), ?_, ?_, ?_⟩
  · unfold buildUrl
    dsimp only
    rw [not_endsWithSlash_append _ _ hen hns]
    simp [List.append_assoc]
  · cases endsWithSlash url <;> simp
  · rw [splitSlash_append _ _ hns]
    simp only [List.mapM_cons, unescape_escape]
    rw [split_join_escape comps hc]; rfl

/-- single-file torrents: the name alone -/
theorem C14_url_single (url name : Bytes) (hs : endsWithSlash url = true) :
    buildUrl url name none = url ++ pathEscape name ∧ unescape (pathEscape name) = some name := by
  refine ⟨by simp [buildUrl, hs], unescape_escape name⟩

/-- "h/" + name "a#b" + ["x y"] = "h/a%23b/x%20y" -/
example : buildUrl [104, 47] [97, 35, 98] (some [[120, 32, 121]])
    = [104, 47, 97, 37, 50, 51, 98, 47, 120, 37, 50, 48, 121] := by decide

end Url

/-! ### parseContentRange -/

/-- **parseContentRange** accepts exactly: `bytes a-b/t` (as scanned by `Sscanf`) with
    `a ≤ b < t`; `bytes a-b/*` with `a ≤ b`; `bytes */t`.  The returned length is `b - a + 1`
    in `int64` arithmetic. -/
theorem C14_parse_content_range (cr : List Char) (o l t : Int)
    (h : parseContentRange cr = some (o, l, t)) :
    (∃ e, scanForm1 cr = some (o, e, t) ∧ o ≤ e ∧ e < t ∧ l = wrap64 (e - o + 1)) ∨
    (scanForm1 cr = none ∧ t = -1 ∧ ∃ e, scanForm2 cr = some (o, e) ∧ o ≤ e ∧ l = wrap64 (e - o + 1)) ∨
    (scanForm1 cr = none ∧ scanForm2 cr = none ∧ o = -1 ∧ l = -1 ∧ scanForm3 cr = some t) := by
  unfold parseContentRange at h
  cases h1 : scanForm1 cr with
  | some x =>
    obtain ⟨a, e, fl⟩ := x
    rw [h1] at h
    dsimp only at h
    by_cases hc : e < a ∨ e ≥ fl
    · rw [if_pos hc] at h; simp at h
    · rw [if_neg hc] at h
      simp only [Option.some.injEq, Prod.mk.injEq] at h
      obtain ⟨rfl, rfl, rfl⟩ := h
      exact Or.inl ⟨e, rfl, by omega, by omega, rfl⟩
  | none =>
    rw [h1] at h
    dsimp only at h
    cases h2 : scanForm2 cr with
    | some x =>
      obtain ⟨a, e⟩ := x
      rw [h2] at h
      dsimp only at h
      by_cases hc : e < a
      · rw [if_pos hc] at h; simp at h
      · rw [if_neg hc] at h
        simp only [Option.some.injEq, Prod.mk.injEq] at h
        obtain ⟨rfl, rfl, rfl⟩ := h
        exact Or.inr (Or.inl ⟨rfl, rfl, e, rfl, by omega, rfl⟩)
    | none =>
      rw [h2] at h
      dsimp only at h
      cases h3 : scanForm3 cr with
      | some fl =>
        rw [h3] at h
        simp only [Option.some.injEq, Prod.mk.injEq] at h
        obtain ⟨rfl, rfl, rfl⟩ := h
        exact Or.inr (Or.inr ⟨rfl, rfl, rfl, rfl, rfl⟩)
      | none => rw [h3] at h; simp at h

theorem numTok_range (neg : Bool) (s : List Char) (v : Int) (r : List Char)
    (h : numTok neg s = some (v, r)) : -9223372036854775808 ≤ v ∧ v ≤ 9223372036854775807 := by
  unfold numTok at h
  dsimp only at h
  split at h
  · simp at h
  · split at h
    · split at h
      · simp only [Option.some.injEq, Prod.mk.injEq] at h; omega
      · simp at h
    · split at h
      · simp only [Option.some.injEq, Prod.mk.injEq] at h; omega
      · simp at h

/-- every number `%d` yields fits `int64` -/
theorem verbD_range (s : List Char) (v : Int) (r : List Char) (h : verbD s = some (v, r)) :
    -9223372036854775808 ≤ v ∧ v ≤ 9223372036854775807 := by
  unfold verbD at h
  split at h
  · simp at h
  · repeat' (split at h)
    all_goals first | (simp at h; done) | exact numTok_range _ _ _ _ h

/-- for a start a request can have (`0 ≤ o`) the first form denotes a non-empty range inside the
    total, with no wrap-around -/
theorem C14_parse_content_range_inside (cr : List Char) (o e t : Int)
    (h : scanForm1 cr = some (o, e, t)) (ho : 0 ≤ o) (h1 : o ≤ e) (h2 : e < t) :
    parseContentRange cr = some (o, e - o + 1, t) ∧ 1 ≤ e - o + 1 ∧ o + (e - o + 1) ≤ t := by
  have ht : t ≤ 9223372036854775807 := by
    unfold scanForm1 at h
    simp only [Option.bind_eq_bind] at h
    rcases Option.bind_eq_some_iff.1 h with ⟨s1, _, h⟩
    rcases Option.bind_eq_some_iff.1 h with ⟨⟨a, s2⟩, _, h⟩
    rcases Option.bind_eq_some_iff.1 h with ⟨s3, _, h⟩
    rcases Option.bind_eq_some_iff.1 h with ⟨⟨b, s4⟩, _, h⟩
    rcases Option.bind_eq_some_iff.1 h with ⟨s5, _, h⟩
    rcases Option.bind_eq_some_iff.1 h with ⟨⟨c, s6⟩, hc, h⟩
    dsimp only at h
    split at h
    · simp only [Option.some.injEq, Prod.mk.injEq] at h
      have := (verbD_range _ _ _ hc).2
      omega
    · simp at h
  unfold parseContentRange
  rw [h]
  dsimp only
  rw [if_neg (by omega)]
  have : wrap64 (e - o + 1) = e - o + 1 := by unfold wrap64; omega
  rw [this]
  exact ⟨rfl, by omega, by omega⟩

/-! the three forms are accepted, other units, reversed or oversized ranges are not -/
example : parseContentRange "bytes 100-199/1000".toList = some (100, 100, 1000) := by decide
example : parseContentRange "bytes 100-199/*".toList = some (100, 100, -1) := by decide
example : parseContentRange "bytes */1000".toList = some (-1, -1, 1000) := by decide
example : parseContentRange "bytes 5-2/10".toList = none := by decide
example : parseContentRange "bytes 0-10/10".toList = none := by decide
example : parseContentRange "items 0-5/10".toList = none := by decide
example : parseContentRange "bytes 0-9/10x".toList = none := by decide

end Storrent.Props.C14
