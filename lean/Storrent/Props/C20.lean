import Storrent.Model.Namespace
import Storrent.Lemmas.Namespace
import Storrent.Lemmas.NamespaceDirs
/-
C20 — Front-ends expose exactly the torrent's files.

The theorems are about the transcription in `Model/Namespace.lean` of path/path.go,
http.go (fileParms, the directory table, playlist, torHandler's dispatch), tor/torrents.go
(GetByName) and fuse/fuse.go (node methods); the `c20` correspondence stream diffs every one
of these functions against the real handlers (through VerifMux) and the real FUSE nodes.
-/
namespace Storrent.NS
open Storrent Storrent.Http

/-! ## paths -/

/-- `Parse (String p) = p` for every path made of good components (non-empty, no '/') -/
theorem C20_parse_string (p : Path) (h : ∀ c ∈ p, compOK c = true) : parse (pstring p) = p :=
  parse_pstring p h

/-- `Parse` never yields an empty leading or trailing component, whatever the input -/
theorem C20_parse_no_empty_ends (f : Str) :
    (parse f).head? ≠ some [] ∧ (parse f).getLast? ≠ some [] :=
  ⟨dropTrailingEmpty_head _ (dropWhile_head _), dropTrailingEmpty_last _⟩

/-- `Compare` is a total order on paths: values in {-1,0,1}, antisymmetric as a comparator,
    zero exactly on equal paths, and `≤` is reflexive, transitive, total, antisymmetric -/
theorem C20_compare_total_order :
    (∀ a b, compare a b = -1 ∨ compare a b = 0 ∨ compare a b = 1) ∧
    (∀ a b, compare a b = - compare b a) ∧
    (∀ a b, compare a b = 0 ↔ a = b) ∧
    (∀ a b c, compare a b ≤ 0 → compare b c ≤ 0 → compare a c ≤ 0) ∧
    (∀ a b, compare a b ≤ 0 ∨ compare b a ≤ 0) := by
  refine ⟨compare_range, compare_antisymm, ?_, le_trans, le_total⟩
  intro a b
  constructor
  · intro h
    apply le_antisymm a b
    · show compare a b ≤ 0; omega
    · show compare b a ≤ 0; have := compare_antisymm b a; omega
  · rintro rfl
    have h1 := le_refl a
    have h2 := compare_antisymm a a
    unfold le at h1; omega

/-- `Within` is "strictly longer and has `d` as a prefix"; in particular the index
    `p[len(d)]` used by the FUSE code is in range -/
theorem C20_within_spec (p d : Path) : within p d = true ↔ d.length < p.length ∧ d <+: p :=
  within_iff p d

/-! ## HTTP: resolution -/

theorem pairwise_unique {fs : List File} (hd : fs.Pairwise (fun a b => a.path ≠ b.path))
    {f g : File} (hf : f ∈ fs) (hg : g ∈ fs) (h : f.path = g.path) : f = g := by
  induction fs with
  | nil => cases hf
  | cons x xs ih =>
    have hx := List.pairwise_cons.mp hd
    rcases List.mem_cons.mp hf with rfl | hf'
    · rcases List.mem_cons.mp hg with rfl | hg'
      · rfl
      · exact absurd h (hx.1 g hg')
    · rcases List.mem_cons.mp hg with rfl | hg'
      · exact absurd h.symm (hx.1 f hf')
      · exact ih hx.2 hf' hg'

/-- multi-file torrents: a path resolves iff it is exactly the path of a file, and then to
    that file's offset and length; everything else is ErrNotExist, never another file -/
theorem C20_http_resolve (t : Torrent) (fs : List File) (ht : t.files = some fs) (wf : WFfiles fs)
    (p : Path) (o l : Int) :
    fileParms t p = some (o, l) ↔ ∃ f ∈ fs, f.path = p ∧ f.offset = o ∧ f.length = l := by
  unfold fileParms
  rw [ht]
  simp only
  constructor
  · intro h
    split at h
    · cases h
    · rename_i f hf
      have hm := List.mem_of_find?_eq_some hf
      have hp := List.find?_some hf
      simp only [equal, beq_iff_eq] at hp
      injection h with h
      injection h with h1 h2
      exact ⟨f, hm, hp.symm, h1, h2⟩
  · rintro ⟨f, hm, rfl, rfl, rfl⟩
    cases hfind : fs.find? (fun g => equal f.path g.path) with
    | none =>
      have := List.find?_eq_none.mp hfind f hm
      simp [equal] at this
    | some g =>
      have hgm := List.mem_of_find?_eq_some hfind
      have hgp := List.find?_some hfind
      simp only [equal, beq_iff_eq] at hgp
      rw [pairwise_unique wf.distinct hm hgm hgp]

/-- a unique resolution: two files never share a path, so "that file" is well defined -/
theorem C20_http_resolve_unique (fs : List File) (wf : WFfiles fs) (f g : File)
    (hf : f ∈ fs) (hg : g ∈ fs) (h : f.path = g.path) : f = g :=
  pairwise_unique wf.distinct hf hg h

/-- single-file torrents resolve exactly `[Name]`, to the whole torrent -/
theorem C20_http_resolve_single (t : Torrent) (ht : t.files = none) (p : Path) (o l : Int) :
    fileParms t p = some (o, l) ↔ p = [t.name] ∧ o = 0 ∧ l = t.length := by
  unfold fileParms
  rw [ht]
  simp only
  constructor
  · intro h
    split at h
    · rename_i c
      by_cases hc : c = t.name
      · simp only [hc, ne_eq, not_true_eq_false, if_false] at h
        injection h with h; injection h with h1 h2
        exact ⟨by rw [hc], h1.symm, h2.symm⟩
      · simp [hc] at h
    · cases h
  · rintro ⟨rfl, rfl, rfl⟩
    simp

/-- what the handler does with the path of a listed file: `Parse("/" + String p)` is `p` again,
    so the link of a well-formed file resolves to that very file -/
theorem C20_http_link_resolves (t : Torrent) (fs : List File) (ht : t.files = some fs)
    (hc : t.complete = true) (wf : WFfiles fs) (f : File) (hf : f ∈ fs) :
    torHandler t (pstring f.path) false = .file f.offset f.length := by
  have hne : f.path ≠ [] := wf.nonempty f hf
  have hcomp := wf.comps f hf
  have hparse : parse (47 :: pstring f.path) = f.path := by
    have h1 : (47 : UInt8) :: pstring f.path = pstring ([] :: f.path) := by
      cases hp : f.path with
      | nil => exact absurd hp hne
      | cons a b => rfl
    -- the leading empty component is dropped by Parse
    unfold parse
    have hsplit : splitSlash (47 :: pstring f.path) = [] :: splitSlash (pstring f.path) := by
      rw [splitSlash]; simp
    rw [hsplit]
    have : ([] :: splitSlash (pstring f.path)).dropWhile (·.isEmpty) =
        (splitSlash (pstring f.path)).dropWhile (·.isEmpty) := by simp [List.dropWhile]
    rw [this]
    exact parse_pstring f.path hcomp
  -- the last byte of the path string is not '/': last component is non-empty without '/'
  have hlast : (47 :: pstring f.path).getLast? ≠ some 47 := by
    intro hl
    have hps : ∀ (p : Path), p ≠ [] → (∀ c ∈ p, compOK c = true) → (pstring p).getLast? ≠ some 47 ∧ pstring p ≠ [] := by
      intro p
      induction p with
      | nil => intro h; exact absurd rfl h
      | cons s r ih =>
        intro _ hcs
        have hs := (compOK_iff s).mp (hcs s List.mem_cons_self)
        cases r with
        | nil =>
          refine ⟨?_, hs.1⟩
          show s.getLast? ≠ some 47
          intro e
          exact hs.2 (List.mem_of_getLast? e)
        | cons u v =>
          have ih' := ih (by simp) (fun c hm => hcs c (List.mem_cons_of_mem _ hm))
          have e : pstring (s :: u :: v) = s ++ 47 :: pstring (u :: v) := rfl
          rw [e]
          refine ⟨?_, by simp⟩
          rw [List.getLast?_append]
          cases hq : pstring (u :: v) with
          | nil => exact absurd hq ih'.2
          | cons a b =>
            rw [List.getLast?_cons_cons]
            rw [hq] at ih'
            cases hgl : (a :: b).getLast? with
            | none => simp at hgl
            | some z => simpa [hgl] using ih'.1
    have := hps f.path hne hcomp
    cases hq : pstring f.path with
    | nil => exact absurd hq this.2
    | cons a b =>
      rw [hq, List.getLast?_cons_cons] at hl
      rw [hq] at this
      exact this.1 hl
  unfold torHandler
  simp only [Bool.false_eq_true, if_false, hlast, hc, Bool.not_true, hparse]
  have := (C20_http_resolve t fs ht wf f.path f.offset f.length).mpr ⟨f, hf, rfl, rfl, rfl⟩
  rw [this]

/-! ## HTTP: directory listing and playlist -/

/-- the file rows of a page -/
def fileRows : List Row → List (Path × Int)
  | [] => []
  | .dir _ :: rs => fileRows rs
  | .file p l :: rs => (p, l) :: fileRows rs

theorem fileRows_append (a b : List Row) : fileRows (a ++ b) = fileRows a ++ fileRows b := by
  induction a with
  | nil => rfl
  | cons r rs ih => cases r <;> simp [fileRows, ih]

theorem fileRows_dirRows (p q : Path) : fileRows (dirRows p q) = [] := by
  unfold dirRows
  simp only
  generalize List.range _ = l
  induction l with
  | nil => rfl
  | cons i is ih => simpa [fileRows] using ih

theorem fileRows_tableLoop : ∀ (l : List File) (lastdir : Path),
    fileRows (tableLoop l lastdir) = l.map (fun f => (f.path, f.length)) := by
  intro l
  induction l with
  | nil => intro _; rfl
  | cons f fs ih =>
    intro lastdir
    unfold tableLoop
    simp only
    split
    · simp [fileRows, ih]
    · rw [fileRows_append, fileRows_dirRows]
      simp [fileRows, ih]

/-- the directory view of `dir` lists exactly the files `Within dir`, each once (a
    permutation of the filtered table), sorted by `Compare` -/
theorem C20_http_listing (t : Torrent) (fs : List File) (ht : t.files = some fs)
    (hc : t.complete = true) (dir : Path) (rows : List Row) (h : listing t dir = .ok rows) :
    (fileRows rows).Perm ((fs.filter fun f => within f.path dir).map fun f => (f.path, f.length)) ∧
    (fileRows rows).Pairwise (fun a b => compare a.1 b.1 ≤ 0) := by
  unfold listing at h
  simp only [hc, Bool.not_true, Bool.false_eq_true, if_false, ht] at h
  split at h
  · cases h
  · injection h with h
    subst h
    rw [fileRows_tableLoop]
    refine ⟨(sortFiles_perm _).map _, ?_⟩
    rw [List.pairwise_map]
    exact sortFiles_sorted _

/-- single-file torrents: the top page lists the one file under `Parse(Name)`, sub-pages nothing -/
theorem C20_http_listing_single (t : Torrent) (ht : t.files = none) (hc : t.complete = true)
    (hn : nameOK t.name = true) (dir : Path) :
    listing t dir = .ok (if dir.isEmpty then [.file [t.name] t.length] else []) := by
  have hp : parse t.name = [t.name] := by
    have := parse_pstring [t.name] (by simpa [nameOK] using hn)
    simpa [pstring] using this
  unfold listing
  simp only [hc, Bool.not_true, Bool.false_eq_true, if_false, ht, hp]
  by_cases hd : dir.isEmpty = true <;> simp [hd, rowsFault]

/-- the playlist of `dir` has one entry per file `Within dir` (404 when there is none) -/
theorem C20_playlist_entries (t : Torrent) (fs : List File) (ht : t.files = some fs)
    (hc : t.complete = true) (dir : Path) :
    (playlist t dir = .notFound ↔ ∀ f ∈ fs, within f.path dir = false) ∧
    (∀ ps, playlist t dir = .entries ps →
      ps.Perm ((fs.filter fun f => within f.path dir).map (·.path))) := by
  unfold playlist
  simp only [hc, Bool.not_true, Bool.false_eq_true, if_false, ht]
  constructor
  · constructor
    · intro h
      split at h
      · rename_i hany
        intro f hf
        cases hw : within f.path dir
        · rfl
        · have : (fs.any fun f => within f.path dir) = true := List.any_eq_true.mpr ⟨f, hf, hw⟩
          simp [this] at hany
      · split at h <;> cases h
    · intro h
      have : (fs.any fun f => within f.path dir) = false := by
        cases ha : fs.any fun f => within f.path dir
        · rfl
        · obtain ⟨f, hf, hw⟩ := List.any_eq_true.mp ha
          rw [h f hf] at hw; cases hw
      simp [this]
  · intro ps h
    split at h
    · cases h
    · split at h
      · cases h
      · injection h with h
        subst h
        exact (((sortFiles_perm fs).filter _).map _)

theorem nodup_filter_paths (fs : List File) (hd : fs.Pairwise (fun a b => a.path ≠ b.path))
    (p : File → Bool) : ((fs.filter p).map (·.path)).Nodup := by
  unfold List.Nodup
  rw [List.pairwise_map]
  exact List.Pairwise.filter p hd

/-- under `WFfiles` no file is listed twice on a directory page: the paths of the file rows
    are pairwise distinct (so "each file exactly once": a permutation without repetition) -/
theorem C20_http_listing_nodup (t : Torrent) (fs : List File) (ht : t.files = some fs)
    (hc : t.complete = true) (wf : WFfiles fs) (dir : Path) (rows : List Row)
    (h : listing t dir = .ok rows) : ((fileRows rows).map (·.1)).Nodup := by
  have hperm := ((C20_http_listing t fs ht hc dir rows h).1).map (·.1)
  rw [List.map_map] at hperm
  have : ((fs.filter fun f => within f.path dir).map ((·.1) ∘ fun f => (f.path, f.length))).Nodup :=
    nodup_filter_paths fs wf.distinct _
  exact hperm.nodup_iff.mpr this

/-- …and no file has two playlist entries -/
theorem C20_playlist_nodup (t : Torrent) (fs : List File) (ht : t.files = some fs)
    (hc : t.complete = true) (wf : WFfiles fs) (dir : Path) (ps : List Path)
    (h : playlist t dir = .entries ps) : ps.Nodup :=
  ((C20_playlist_entries t fs ht hc dir).2 ps h).nodup_iff.mpr (nodup_filter_paths fs wf.distinct _)

/-- a directory link `/hash/String(d)/` is dispatched to the directory view of exactly `d` -/
theorem C20_http_dir_link (t : Torrent) (d : Path) (hne : d ≠ []) (hcomp : ∀ c ∈ d, compOK c = true) :
    torHandler t (pstring d ++ [47]) false =
      (match listing t d with | .ok rows => .dirPage rows | .panic => .panic) ∧
    torHandler t (pstring d ++ [47]) true =
      (match playlist t d with
        | .notFound => .notFound | .incomplete => .incomplete | .panic => .panic
        | .entries ps => .plist ps) := by
  have hp := parse_dir_link d hne hcomp
  have hlast : (47 :: (pstring d ++ [47])).getLast? = some 47 := by
    rw [show (47 : UInt8) :: (pstring d ++ [47]) = (47 :: pstring d) ++ [47] from rfl]
    exact List.getLast?_concat
  unfold torHandler
  simp only [hp, hlast, Bool.false_eq_true, if_false, if_true]
  exact ⟨rfl, by cases playlist t d <;> rfl⟩

theorem listing_rows_eq (t : Torrent) (fs : List File) (ht : t.files = some fs)
    (hc : t.complete = true) (dir : Path) (rows : List Row) (h : listing t dir = .ok rows) :
    rows = tableLoop (sortFiles (fs.filter fun f => within f.path dir)) [] := by
  unfold listing at h
  simp only [hc, Bool.not_true, Bool.false_eq_true, if_false, ht] at h
  split at h
  · cases h
  · injection h with h; exact h.symm

/-- the directory rows of a page (any file table): a directory is shown iff it is a
    non-empty ancestor directory of a listed file, and at every file row all its ancestor
    directories have been shown before (`dirsBeforeFiles`) -/
theorem C20_http_dir_rows (t : Torrent) (fs : List File) (ht : t.files = some fs)
    (hc : t.complete = true) (dir : Path) (rows : List Row) (h : listing t dir = .ok rows) :
    (∀ d, d ∈ dirRowsOf rows ↔
      d ≠ [] ∧ ∃ f ∈ fs, within f.path dir = true ∧ d <+: f.path.dropLast) ∧
    dirsBeforeFiles rows [] = true := by
  rw [listing_rows_eq t fs ht hc dir rows h]
  have hmem : ∀ f, f ∈ sortFiles (fs.filter fun f => within f.path dir) ↔
      f ∈ fs ∧ within f.path dir = true := by
    intro f
    rw [(sortFiles_perm _).mem_iff, List.mem_filter]
  refine ⟨fun d => ⟨?_, ?_⟩, dirsBeforeFiles_tableLoop _ _ _ (fun d hne hd => ?_)⟩
  · intro hd
    obtain ⟨hne, f, hf, hdf⟩ := dirRowsOf_tableLoop_sound _ _ d hd
    exact ⟨hne, f, ((hmem f).mp hf).1, ((hmem f).mp hf).2, hdf⟩
  · rintro ⟨hne, f, hf, hw, hdf⟩
    rcases dirRowsOf_tableLoop_complete _ [] d f ((hmem f).mpr ⟨hf, hw⟩) hdf with h | h
    · exact h
    · exact absurd (List.prefix_nil.mp h) hne
  · exact absurd (List.prefix_nil.mp hd) hne

/-- under `WFfiles` every directory is shown exactly once, and its link parses back to it
    (`C20_http_dir_link`): its components are good components -/
theorem C20_http_dir_rows_once (t : Torrent) (fs : List File) (ht : t.files = some fs)
    (hc : t.complete = true) (wf : WFfiles fs) (dir : Path) (rows : List Row)
    (h : listing t dir = .ok rows) :
    (dirRowsOf rows).Nodup ∧
    (∀ d ∈ dirRowsOf rows, d ≠ [] ∧ (∀ c ∈ d, compOK c = true) ∧
      parse (47 :: (pstring d ++ [47])) = d) := by
  have hrows := (C20_http_dir_rows t fs ht hc dir rows h).1
  have hmem : ∀ f, f ∈ sortFiles (fs.filter fun f => within f.path dir) → f ∈ fs := by
    intro f hf
    exact (List.mem_filter.mp ((sortFiles_perm _).mem_iff.mp hf)).1
  constructor
  · rw [listing_rows_eq t fs ht hc dir rows h]
    exact (dirRowsOf_tableLoop_nodup _ [] (sortFiles_sorted _)
      (fun a ha b hb => wf.noPrefix a (hmem a ha) b (hmem b hb))
      (fun a ha => wf.nonempty a (hmem a ha))
      (fun d hne hd => absurd (List.prefix_nil.mp hd) hne)).1
  · intro d hd
    obtain ⟨hne, f, hf, _, hdf⟩ := (hrows d).mp hd
    have hcomp : ∀ c ∈ d, compOK c = true := by
      intro c hc'
      have : c ∈ f.path := ((hdf.trans (List.dropLast_prefix _)).subset) hc'
      exact wf.comps f hf c this
    exact ⟨hne, hcomp, parse_dir_link d hne hcomp⟩

/-! ## FUSE -/

/-- `directory.Lookup name` succeeds iff some file (padding ones included) lies below the
    directory with `name` as its next component -/
theorem C20_fuse_lookup_iff (t : Torrent) (hc : t.complete = true) (dirname name : Str) :
    (dirLookup t dirname name).isSome ↔
      ∃ f ∈ filesOf t, within f.path (parse dirname) = true ∧
        f.path.getD (parse dirname).length [] = name := by
  unfold dirLookup
  simp only [hc, Bool.not_true, Bool.false_eq_true, if_false]
  constructor
  · intro h
    split at h
    · cases h
    · rename_i f hf
      have hp := List.find?_some hf
      simp only [Bool.and_eq_true, beq_iff_eq] at hp
      exact ⟨f, List.mem_of_find?_eq_some hf, hp.1, hp.2⟩
  · rintro ⟨f, hf, hw, hn⟩
    cases hfind : (filesOf t).find? (fun f => within f.path (parse dirname) &&
        f.path.getD (parse dirname).length [] == name) with
    | none =>
      have := List.find?_eq_none.mp hfind f hf
      simp only [hw, Bool.true_and, beq_iff_eq] at this
      exact absurd hn this
    | some g => simp only; split <;> rfl

/-- the node returned by `Lookup` is named `String(dir ++ [name])`, which `Parse`s back to
    `dir ++ [name]`: the tree can be descended level by level without losing the path -/
theorem C20_fuse_lookup_node (t : Torrent) (dirname name : Str) (n : Node)
    (h : dirLookup t dirname name = some n) :
    (n = .dir t.hash (pstring (parse dirname ++ [name])) ∨
     n = .file t.hash (pstring (parse dirname ++ [name]))) ∧
    ((∀ c ∈ parse dirname ++ [name], compOK c = true) →
      parse (pstring (parse dirname ++ [name])) = parse dirname ++ [name]) := by
  refine ⟨?_, fun hc => parse_pstring _ hc⟩
  unfold dirLookup at h
  split at h
  · cases h
  · simp only at h
    split at h
    · cases h
    · split at h <;> (injection h with h; simp [← h])

/-- a file node is returned only when the file `dir ++ [name]` itself is in the table (and
    under `WFfiles.noPrefix` no other entry lies below that path, so the kind does not
    depend on which matching entry comes first) -/
theorem C20_fuse_lookup_kind (t : Torrent) (fs : List File) (ht : t.files = some fs)
    (dirname name : Str) (nm : Str)
    (h : dirLookup t dirname name = some (.file t.hash nm)) :
    ∃ f ∈ fs, f.path = parse dirname ++ [name] := by
  unfold dirLookup at h
  split at h
  · cases h
  · simp only at h
    split at h
    · cases h
    · rename_i f hf
      have hm : f ∈ fs := by
        have := List.mem_of_find?_eq_some hf
        simpa [filesOf, ht] using this
      have hp := List.find?_some hf
      simp only [Bool.and_eq_true, beq_iff_eq] at hp
      split at h
      · injection h with h; cases h
      · rename_i hlen
        refine ⟨f, hm, ?_⟩
        obtain ⟨hlt, hpre⟩ := (within_iff _ _).mp hp.1
        obtain ⟨r, hr⟩ := hpre
        have hrl : r.length = 1 := by
          have := congrArg List.length hr
          simp at this; omega
        match r, hrl with
        | [x], _ =>
          rw [← hr] at hp
          have : x = name := by simpa using hp.2
          rw [← hr, this]

/-- `directory.ReadDirAll` (after "." and ".."): every entry is the next component of a
    non-padding file below the directory, typed `dir` exactly when that file lies deeper -/
theorem readDirLoop_sound (pth : Path) : ∀ (fs : List File) (dirs : List Str) (e : Str × DType),
    e ∈ readDirLoop pth fs dirs →
      ∃ f ∈ fs, f.padding = false ∧ within f.path pth = true ∧ f.path.getD pth.length [] = e.1 ∧
        (e.2 = .dir ↔ f.path.length > pth.length + 1) := by
  intro fs
  induction fs with
  | nil => intro _ _ h; cases h
  | cons f fs ih =>
    intro dirs e h
    have lift : (∃ g ∈ fs, g.padding = false ∧ within g.path pth = true ∧
        g.path.getD pth.length [] = e.1 ∧ (e.2 = .dir ↔ g.path.length > pth.length + 1)) →
        ∃ g ∈ f :: fs, g.padding = false ∧ within g.path pth = true ∧
        g.path.getD pth.length [] = e.1 ∧ (e.2 = .dir ↔ g.path.length > pth.length + 1) :=
      fun ⟨g, hg, r⟩ => ⟨g, List.mem_cons_of_mem _ hg, r⟩
    unfold readDirLoop at h
    by_cases hp : f.padding = true
    · simp only [hp, if_true] at h; exact lift (ih _ _ h)
    · have hp' : f.padding = false := by simpa using hp
      simp only [hp', Bool.false_eq_true, if_false] at h
      by_cases hw : within f.path pth = true
      · simp only [hw, Bool.not_true, Bool.false_eq_true, if_false] at h
        by_cases hl : f.path.length > pth.length + 1
        · simp only [hl, if_true] at h
          by_cases hd : dirs.contains (f.path.getD pth.length []) = true
          · simp only [hd, if_true] at h; exact lift (ih _ _ h)
          · simp only [hd, Bool.false_eq_true, if_false] at h
            rcases List.mem_cons.mp h with rfl | h
            · exact ⟨f, List.mem_cons_self, hp', hw, rfl, by simp [hl]⟩
            · exact lift (ih _ _ h)
        · simp only [hl, if_false] at h
          rcases List.mem_cons.mp h with rfl | h
          · exact ⟨f, List.mem_cons_self, hp', hw, rfl, by simp [hl]⟩
          · exact lift (ih _ _ h)
      · have hw' : within f.path pth = false := by simpa using hw
        simp only [hw', Bool.not_false, if_true] at h
        exact lift (ih _ _ h)

/-- …and every such component is listed: files always, directories unless already seen -/
theorem readDirLoop_complete (pth : Path) : ∀ (fs : List File) (dirs : List Str) (f : File),
    f ∈ fs → f.padding = false → within f.path pth = true →
      (f.path.length > pth.length + 1 →
        (f.path.getD pth.length [], DType.dir) ∈ readDirLoop pth fs dirs ∨
        f.path.getD pth.length [] ∈ dirs) ∧
      (¬ f.path.length > pth.length + 1 →
        (f.path.getD pth.length [], DType.file) ∈ readDirLoop pth fs dirs) := by
  intro fs
  induction fs with
  | nil => intro _ _ h; cases h
  | cons g gs ih =>
    intro dirs f hf hp hw
    unfold readDirLoop
    rcases List.mem_cons.mp hf with rfl | hf'
    · simp only [hp, Bool.false_eq_true, if_false, hw, Bool.not_true]
      constructor
      · intro hl
        simp only [hl, if_true]
        by_cases hd : dirs.contains (f.path.getD pth.length []) = true
        · exact Or.inr (List.contains_iff_mem.mp hd)
        · simp only [hd, Bool.false_eq_true, if_false]; exact Or.inl List.mem_cons_self
      · intro hl
        simp only [hl, if_false]; exact List.mem_cons_self
    · by_cases hgp : g.padding = true
      · simp only [hgp, if_true]; exact ih dirs f hf' hp hw
      · simp only [hgp, Bool.false_eq_true, if_false]
        by_cases hgw : within g.path pth = true
        · simp only [hgw, Bool.not_true, Bool.false_eq_true, if_false]
          by_cases hgl : g.path.length > pth.length + 1
          · simp only [hgl, if_true]
            by_cases hd : dirs.contains (g.path.getD pth.length []) = true
            · simp only [hd, if_true]; exact ih dirs f hf' hp hw
            · simp only [hd, Bool.false_eq_true, if_false]
              have := ih (g.path.getD pth.length [] :: dirs) f hf' hp hw
              constructor
              · intro hl
                rcases this.1 hl with h | h
                · exact Or.inl (List.mem_cons_of_mem _ h)
                · rcases List.mem_cons.mp h with h | h
                  · rw [h]; exact Or.inl List.mem_cons_self
                  · exact Or.inr h
              · intro hl; exact List.mem_cons_of_mem _ (this.2 hl)
          · simp only [hgl, if_false]
            have := ih dirs f hf' hp hw
            constructor
            · intro hl
              rcases this.1 hl with h | h
              · exact Or.inl (List.mem_cons_of_mem _ h)
              · exact Or.inr h
            · intro hl; exact List.mem_cons_of_mem _ (this.2 hl)
        · have hgw' : within g.path pth = false := by simpa using hgw
          simp only [hgw', Bool.not_false, if_true]; exact ih dirs f hf' hp hw

/-- the FUSE tree: `ReadDirAll` names exactly the first components below the directory of
    the non-padding files, with the right type -/
theorem C20_fuse_tree (t : Torrent) (hc : t.complete = true) (dirname : Str) (name : Str) (ty : DType) :
    (∃ es, dirReadDir t dirname = some es ∧ (name, ty) ∈ es) ↔
      ∃ f ∈ filesOf t, f.padding = false ∧ within f.path (parse dirname) = true ∧
        f.path.getD (parse dirname).length [] = name ∧
        (ty = .dir ↔ f.path.length > (parse dirname).length + 1) := by
  unfold dirReadDir
  simp only [hc, Bool.not_true, Bool.false_eq_true, if_false]
  constructor
  · rintro ⟨es, hes, hm⟩
    injection hes with hes
    subst hes
    exact readDirLoop_sound _ _ _ _ hm
  · rintro ⟨f, hf, hp, hw, hn, hty⟩
    refine ⟨_, rfl, ?_⟩
    have := readDirLoop_complete (parse dirname) (filesOf t) [] f hf hp hw
    by_cases hl : f.path.length > (parse dirname).length + 1
    · have hd : ty = .dir := hty.mpr hl
      rcases this.1 hl with h | h
      · rw [hd, ← hn]; exact h
      · cases h
    · have hd : ty = .file := by
        cases ty with
        | dir => exact absurd (hty.mp rfl) hl
        | file => rfl
      rw [hd, ← hn]; exact this.2 hl

theorem readDirLoop_nodup (pth : Path) : ∀ (fs : List File) (dirs : List Str), WFfiles fs →
    ((readDirLoop pth fs dirs).map (·.1)).Nodup := by
  intro fs
  induction fs with
  | nil => intro _ _; simp [readDirLoop]
  | cons f fs ih =>
    intro dirs wf
    have wft := WFfiles_tail wf
    have hdist := (List.pairwise_cons.mp wf.distinct).1
    unfold readDirLoop
    by_cases hp : f.padding = true
    · simp only [hp, if_true]; exact ih _ wft
    · simp only [hp, Bool.false_eq_true, if_false]
      by_cases hw : within f.path pth = true
      · simp only [hw, Bool.not_true, Bool.false_eq_true, if_false]
        -- any later entry with the same name comes from a file g whose path continues pth ++ [name]
        have clash : ∀ (dirs' : List Str) (ty : DType),
            (f.path.getD pth.length [], ty) ∈ readDirLoop pth fs dirs' →
            ∃ g ∈ fs, within g.path pth = true ∧ g.path.getD pth.length [] = f.path.getD pth.length [] ∧
              (ty = .dir ↔ g.path.length > pth.length + 1) := by
          intro dirs' ty hm
          obtain ⟨g, hg, _, hgw, hgn, hgt⟩ := readDirLoop_sound pth fs dirs' _ hm
          exact ⟨g, hg, hgw, hgn, hgt⟩
        by_cases hl : f.path.length > pth.length + 1
        · simp only [hl, if_true]
          by_cases hd : dirs.contains (f.path.getD pth.length []) = true
          · simp only [hd, if_true]; exact ih _ wft
          · simp only [hd, Bool.false_eq_true, if_false, List.map_cons]
            refine List.nodup_cons.mpr ⟨?_, ih _ wft⟩
            intro hm
            obtain ⟨⟨n, ty⟩, hmem, hn⟩ := List.mem_map.mp hm
            simp only at hn
            subst hn
            cases ty with
            | dir => exact readDirLoop_dir_notin pth fs _ _ hmem List.mem_cons_self
            | file =>
              obtain ⟨g, hg, hgw, hgn, hgt⟩ := clash _ _ hmem
              have hgl : ¬ g.path.length > pth.length + 1 := fun hh => by
                have := hgt.mpr hh; cases this
              have hgp := within_exact g.path pth hgw hgl
              have hfp := within_prefix f.path pth hw
              rw [hgn] at hgp
              rw [← hgp] at hfp
              have := wf.noPrefix g (List.mem_cons_of_mem _ hg) f List.mem_cons_self hfp
              exact hdist g hg this.symm
        · simp only [hl, if_false, List.map_cons]
          refine List.nodup_cons.mpr ⟨?_, ih _ wft⟩
          intro hm
          obtain ⟨⟨n, ty⟩, hmem, hn⟩ := List.mem_map.mp hm
          simp only at hn
          subst hn
          obtain ⟨g, hg, hgw, hgn, _⟩ := clash _ _ hmem
          have hfp := within_exact f.path pth hw hl
          have hgp := within_prefix g.path pth hgw
          rw [hgn, ← hfp] at hgp
          have := wf.noPrefix f List.mem_cons_self g (List.mem_cons_of_mem _ hg) hgp
          exact hdist g hg this
      · have hw' : within f.path pth = false := by simpa using hw
        simp only [hw', Bool.not_false, if_true]; exact ih _ wft

/-- under `WFfiles` the names listed by `directory.ReadDirAll` are pairwise distinct: every
    first component below the directory appears exactly once (with `C20_fuse_tree`) -/
theorem C20_fuse_tree_nodup (t : Torrent) (fs : List File) (ht : t.files = some fs)
    (wf : WFfiles fs) (dirname : Str) (es : List (Str × DType))
    (h : dirReadDir t dirname = some es) : (es.map (·.1)).Nodup := by
  unfold dirReadDir at h
  split at h
  · cases h
  · injection h with h
    subst h
    have : filesOf t = fs := by simp [filesOf, ht]
    rw [this]
    exact readDirLoop_nodup _ fs [] wf

/-- `root.ReadDirAll`: one entry per live torrent that is complete and has a name, named
    after it, a directory exactly for multi-file torrents -/
theorem C20_root_readdir (ts : List Torrent) :
    (rootReadDir ts).length = (ts.filter fun t => t.complete && !t.name.isEmpty).length ∧
    (∀ n ty, (n, ty) ∈ rootReadDir ts ↔
      ∃ t ∈ ts, t.complete = true ∧ t.name ≠ [] ∧ n = t.name ∧ (ty = .dir ↔ t.files.isSome = true)) := by
  unfold rootReadDir
  refine ⟨by simp, ?_⟩
  intro n ty
  simp only [List.mem_map, List.mem_filter, Bool.and_eq_true, Bool.not_eq_true',
    Prod.mk.injEq]
  constructor
  · rintro ⟨t, ⟨ht, hc, hn⟩, rfl, rfl⟩
    refine ⟨t, ht, hc, ?_, rfl, ?_⟩
    · intro e; rw [e] at hn; simp at hn
    · cases t.files <;> simp
  · rintro ⟨t, ht, hc, hn, rfl, hty⟩
    refine ⟨t, ⟨ht, hc, ?_⟩, rfl, ?_⟩
    · cases hnm : t.name with
      | nil => exact absurd hnm hn
      | cons _ _ => rfl
    · cases hf : t.files with
      | none =>
        rw [hf] at hty
        cases ty with
        | dir => have := hty.mp rfl; simp at this
        | file => rfl
      | some _ =>
        rw [hf] at hty
        exact (hty.mpr (by simp)).symm

/-- `file.Attr` / `file.Open` on the node of a well-formed file give that file's size,
    offset and length; a name that is not a file's path is ENOENT -/
theorem C20_fuse_open (t : Torrent) (fs : List File) (ht : t.files = some fs)
    (hc : t.complete = true) (wf : WFfiles fs) (filename : Str) (o l : Int) :
    fileOpen t filename = some (o, l) ↔
      ∃ f ∈ fs, f.path = parse filename ∧ f.offset = o ∧ f.length = l := by
  have := C20_http_resolve t fs ht wf (parse filename) o l
  unfold fileParms at this
  rw [ht] at this
  unfold fileOpen
  simp only [hc, Bool.not_true, Bool.false_eq_true, if_false, ht]
  exact this

theorem C20_fuse_open_file (t : Torrent) (fs : List File) (ht : t.files = some fs)
    (hc : t.complete = true) (wf : WFfiles fs) (f : File) (hf : f ∈ fs) :
    fileOpen t (pstring f.path) = some (f.offset, f.length) ∧
    fileAttr t (pstring f.path) = some f.length := by
  have h := (C20_fuse_open t fs ht hc wf (pstring f.path) f.offset f.length).mpr
    ⟨f, hf, (parse_pstring f.path (wf.comps f hf)).symm, rfl, rfl⟩
  exact ⟨h, by simp [fileAttr, h]⟩

/-! ## no crash -/

theorem dirRows_nofault (p q : Path) : rowsFault (dirRows p q) = false := by
  unfold dirRows rowsFault
  simp only [List.any_map, List.any_eq_false, List.mem_range]
  intro i hi
  simp only [Function.comp]
  cases hp : p with
  | nil => simp [hp] at hi
  | cons a b => simp [List.take]

theorem rowsFault_append (a b : List Row) : rowsFault (a ++ b) = (rowsFault a || rowsFault b) := by
  simp [rowsFault, List.any_append]

theorem tableLoop_nofault : ∀ (l : List File) (lastdir : Path), (∀ f ∈ l, f.path ≠ []) →
    rowsFault (tableLoop l lastdir) = false := by
  intro l
  induction l with
  | nil => intro _ _; rfl
  | cons f fs ih =>
    intro lastdir h
    have hf : f.path.isEmpty = false := by
      have := h f List.mem_cons_self
      cases hp : f.path <;> simp_all
    have ih' := fun ld => ih ld (fun g hg => h g (List.mem_cons_of_mem _ hg))
    unfold tableLoop
    simp only
    split
    · have := ih' lastdir
      simp only [rowsFault] at this ⊢
      simp [hf, this]
    · rw [rowsFault_append, dirRows_nofault]
      have := ih' f.path.dropLast
      simp only [rowsFault] at this ⊢
      simp [hf, this]

/-- multi-file torrents: no directory page, playlist or lookup faults, for EVERY file table
    (well-formed or not) and every path: a listed file is `Within` the directory, hence has
    a non-empty path, and directory rows are non-empty prefixes -/
theorem C20_no_crash_multi (t : Torrent) (fs : List File) (ht : t.files = some fs)
    (s : Str) (q : Bool) : torHandler t s q ≠ .panic := by
  have hl : ∀ dir, listing t dir ≠ .panic := by
    intro dir
    unfold listing
    by_cases hc : t.complete = true
    · simp only [hc, Bool.not_true, Bool.false_eq_true, if_false, ht]
      have : rowsFault (tableLoop (sortFiles (fs.filter fun f => within f.path dir)) []) = false := by
        apply tableLoop_nofault
        intro f hf
        have hm : f ∈ fs.filter fun f => within f.path dir := (sortFiles_perm _).mem_iff.mp hf
        exact within_ne_nil _ _ (List.mem_filter.mp hm).2
      simp [this]
    · simp [hc]
  have hp : ∀ dir, playlist t dir ≠ .panic := by
    intro dir
    unfold playlist
    by_cases hc : t.complete = true
    · simp only [hc, Bool.not_true, Bool.false_eq_true, if_false, ht]
      split
      · simp
      · have : (((sortFiles fs).filter fun f => within f.path dir).map (·.path)).any (·.isEmpty) = false := by
          simp only [List.any_map, List.any_eq_false, List.mem_filter, Function.comp]
          intro f hf
          have := within_ne_nil _ _ hf.2
          cases hp : f.path <;> simp_all
        simp [this]
    · simp [hc]
  unfold torHandler
  simp only
  split
  · have := hp (parse (47 :: s))
    split <;> simp_all
  · split
    · have := hl (parse (47 :: s))
      split <;> simp_all
    · split
      · simp
      · split <;> simp

/-- single-file torrents: the page and the playlist fault exactly when `Parse(Name)` is
    empty (a name made of slashes only); a name the validation accepts never faults -/
theorem C20_no_crash (t : Torrent) (ha : accepts t = true) (s : Str) (q : Bool) :
    torHandler t s q ≠ .panic := by
  cases ht : t.files with
  | some fs => exact C20_no_crash_multi t fs ht s q
  | none =>
    have hn : nameOK t.name = true := by
      unfold accepts at ha
      simp only [Bool.and_eq_true] at ha
      exact ha.1
    have hp : parse t.name = [t.name] := by
      have := parse_pstring [t.name] (by simpa [nameOK] using hn)
      simpa [pstring] using this
    unfold torHandler
    simp only
    split
    · unfold playlist
      simp only [ht, hp]
      by_cases hc : t.complete = true
      · simp only [hc, Bool.not_true, Bool.false_eq_true, if_false]
        by_cases hd : (parse (47 :: s)).length > 0 <;> simp [hd]
      · simp [hc]
    · split
      · by_cases hc : t.complete = true
        · rw [C20_http_listing_single t ht hc hn]; simp
        · unfold listing; simp [hc]
      · split
        · simp
        · split <;> simp

/-- the fault that exists in the code, stated exactly (the witness the harness replays on
    a tree without the name validation): a single-file torrent called "/" -/
theorem C20_slash_name_faults :
    torHandler ⟨[1], [47], true, none, 5⟩ [] false = .panic ∧
    torHandler ⟨[1], [47], true, none, 5⟩ [] true = .panic := by decide

/-! ## GetByName -/

theorem getByName_fold (name : Str) : ∀ (ts : List Torrent) (acc : Option Torrent),
    (∀ a, acc = some a → a.name = name) →
    let r := ts.foldl (fun best t =>
      if t.name = name then
        match best with
        | none => some t
        | some b => if ltStr t.hash b.hash then some t else some b
      else best) acc
    (∀ a, r = some a → a.name = name ∧ (acc = some a ∨ a ∈ ts)) ∧
    (r = none ↔ acc = none ∧ ∀ t ∈ ts, t.name ≠ name) := by
  intro ts
  induction ts with
  | nil =>
    intro acc h
    simp only [List.foldl_nil]
    exact ⟨fun a ha => ⟨h a ha, Or.inl ha⟩, by simp⟩
  | cons t ts ih =>
    intro acc h
    simp only [List.foldl_cons]
    by_cases hn : t.name = name
    · simp only [hn, if_true]
      cases acc with
      | none =>
        have := ih (some t) (by intro a ha; injection ha with ha; rw [← ha]; exact hn)
        simp only at this ⊢
        refine ⟨fun a ha => ?_, ?_⟩
        · obtain ⟨h1, h2⟩ := this.1 a ha
          refine ⟨h1, Or.inr ?_⟩
          rcases h2 with h2 | h2
          · injection h2 with h2; rw [h2]; exact List.mem_cons_self
          · exact List.mem_cons_of_mem _ h2
        · constructor
          · intro hr; have := this.2.mp hr; simp at this
          · intro hr; exact absurd hn (hr.2 t List.mem_cons_self)
      | some b =>
        simp only
        by_cases hlt : ltStr t.hash b.hash = true
        · simp only [hlt, if_true]
          have := ih (some t) (by intro a ha; injection ha with ha; rw [← ha]; exact hn)
          simp only at this ⊢
          refine ⟨fun a ha => ?_, ?_⟩
          · obtain ⟨h1, h2⟩ := this.1 a ha
            refine ⟨h1, Or.inr ?_⟩
            rcases h2 with h2 | h2
            · injection h2 with h2; rw [h2]; exact List.mem_cons_self
            · exact List.mem_cons_of_mem _ h2
          · constructor
            · intro hr; have := this.2.mp hr; simp at this
            · intro hr; simp at hr
        · simp only [hlt, Bool.false_eq_true, if_false]
          have := ih (some b) h
          simp only at this ⊢
          refine ⟨fun a ha => ?_, ?_⟩
          · obtain ⟨h1, h2⟩ := this.1 a ha
            refine ⟨h1, ?_⟩
            rcases h2 with h2 | h2
            · exact Or.inl h2
            · exact Or.inr (List.mem_cons_of_mem _ h2)
          · constructor
            · intro hr; have := this.2.mp hr; simp at this
            · intro hr; simp at hr
    · simp only [hn, if_false]
      have := ih acc h
      simp only at this ⊢
      refine ⟨fun a ha => ?_, ?_⟩
      · obtain ⟨h1, h2⟩ := this.1 a ha
        refine ⟨h1, ?_⟩
        rcases h2 with h2 | h2
        · exact Or.inl h2
        · exact Or.inr (List.mem_cons_of_mem _ h2)
      · constructor
        · intro hr
          have := this.2.mp hr
          refine ⟨this.1, ?_⟩
          intro u hu
          rcases List.mem_cons.mp hu with rfl | hu
          · exact hn
          · exact this.2 u hu
        · intro hr
          exact this.2.mpr ⟨hr.1, fun u hu => hr.2 u (List.mem_cons_of_mem _ hu)⟩

/-- `GetByName` (hence `root.Lookup`) finds a torrent iff one with that name is live, and
    what it finds is a live torrent of that name -/
theorem C20_get_by_name (ts : List Torrent) (name : Str) :
    (getByName ts name = none ↔ ∀ t ∈ ts, t.name ≠ name) ∧
    (∀ t, getByName ts name = some t → t ∈ ts ∧ t.name = name) := by
  have := getByName_fold name ts none (by intro a h; cases h)
  simp only at this
  unfold getByName
  refine ⟨this.2.trans ⟨fun h => h.2, fun h => ⟨trivial, h⟩⟩, ?_⟩
  · intro t ht
    obtain ⟨h1, h2⟩ := this.1 t ht
    rcases h2 with h2 | h2
    · cases h2
    · exact ⟨h2, h1⟩

theorem getByName_min (name : Str) : ∀ (ts : List Torrent) (acc : Option Torrent) (a : Torrent),
    ts.foldl (fun best t =>
      if t.name = name then
        match best with
        | none => some t
        | some b => if ltStr t.hash b.hash then some t else some b
      else best) acc = some a →
    (∀ b, acc = some b → ltStr b.hash a.hash = false) ∧
    (∀ u ∈ ts, u.name = name → ltStr u.hash a.hash = false) := by
  intro ts
  induction ts with
  | nil =>
    intro acc a h
    simp only [List.foldl_nil] at h
    refine ⟨fun b hb => ?_, fun u hu => (by cases hu)⟩
    rw [h] at hb; injection hb with hb; rw [hb]; exact ltStr_irrefl _
  | cons t ts ih =>
    intro acc a h
    simp only [List.foldl_cons] at h
    by_cases hn : t.name = name
    · simp only [hn, if_true] at h
      cases acc with
      | none =>
        obtain ⟨h1, h2⟩ := ih _ a h
        refine ⟨fun b hb => (by cases hb), fun u hu hun => ?_⟩
        rcases List.mem_cons.mp hu with rfl | hu
        · exact h1 _ rfl
        · exact h2 u hu hun
      | some b =>
        simp only at h
        by_cases hlt : ltStr t.hash b.hash = true
        · simp only [hlt, if_true] at h
          obtain ⟨h1, h2⟩ := ih _ a h
          have hta := h1 t rfl
          refine ⟨fun b' hb' => ?_, fun u hu hun => ?_⟩
          · injection hb' with hb'; subst hb'
            cases hba : ltStr b.hash a.hash
            · rfl
            · rw [ltStr_trans _ _ _ hlt hba] at hta; cases hta
          · rcases List.mem_cons.mp hu with rfl | hu
            · exact hta
            · exact h2 u hu hun
        · have hlt' : ltStr t.hash b.hash = false := by simpa using hlt
          simp only [hlt', Bool.false_eq_true, if_false] at h
          obtain ⟨h1, h2⟩ := ih _ a h
          have hba := h1 b rfl
          refine ⟨fun b' hb' => (by injection hb' with hb'; subst hb'; exact hba), fun u hu hun => ?_⟩
          rcases List.mem_cons.mp hu with rfl | hu
          · cases hua : ltStr u.hash a.hash
            · rfl
            · cases hab : ltStr a.hash b.hash
              · have := ltStr_tri _ _ hab hba
                rw [this] at hua; rw [hua] at hlt'; cases hlt'
              · rw [ltStr_trans _ _ _ hua hab] at hlt'; cases hlt'
          · exact h2 u hu hun
    · simp only [hn, if_false] at h
      obtain ⟨h1, h2⟩ := ih _ a h
      refine ⟨h1, fun u hu hun => ?_⟩
      rcases List.mem_cons.mp hu with rfl | hu
      · exact absurd hun hn
      · exact h2 u hu hun

/-- duplicate torrent names are resolved deterministically: to a torrent whose hash no
    other live torrent of that name undercuts (`bytes.Compare` smallest) -/
theorem C20_get_by_name_smallest (ts : List Torrent) (name : Str) (t : Torrent)
    (h : getByName ts name = some t) :
    ∀ u ∈ ts, u.name = name → ltStr u.hash t.hash = false :=
  (getByName_min name ts none t h).2

/-! ## non-vacuity -/

def exFiles : List File :=
  [⟨[[97], [98]], 0, 5, false⟩, ⟨[[97], [99]], 5, 7, false⟩, ⟨[[100]], 12, 3, true⟩]

def exTor : Torrent := ⟨[1], [110], true, some exFiles, 15⟩

example : WFfiles exFiles :=
  ⟨by decide, by decide, by decide, by decide⟩
example : accepts exTor = true := by decide
example : fileParms exTor [[97], [99]] = some (5, 7) := by decide
example : fileParms exTor [[97]] = none := by decide
example : listing exTor [] = .ok [.dir [[97]], .file [[97], [98]] 5, .file [[97], [99]] 7, .file [[100]] 3] := by decide
example : dirReadDir exTor [] = some [([97], .dir)] := by decide
example : dirLookup exTor [] [100] = some (.file [1] [100]) := by decide
example : torHandler exTor [97, 47, 99] false = .file 5 7 := by decide

end Storrent.NS
