import Storrent.Model.Reader
import Storrent.Lemmas.Reader
/-
C02 — A Reader is an exact, live view of its byte range.

Theorems about Model/Reader.lean (the repaired tor/reader.go, `Torrent.Request`,
`Pieces.ReadAt`), tied to the real code by the `rd …` correspondence stream of
harness/cmd/c02 (real event loop, real http handler).  "The store's verified byte" is
`storeByte`: the byte a complete (hash-verified) piece holds at a torrent offset; that it
equals the torrent's true content is C01 (`Pieces.Finalise` accepts only data whose SHA-1
is the torrent's piece hash).
-/
namespace Storrent.Props.C02
open Storrent Storrent.Requested Storrent.Reader

/-- the byte at torrent offset `x` if its piece is complete -/
def storeByte (w : World) (x : Nat) : Option UInt8 :=
  match w.data[x / w.ps]? with
  | some (some d) => d[x % w.ps]?
  | _ => none

/-- geometry: a piece's buffer is never longer than the piece size (`AddData` allocates
    `PieceLength(index) ≤ pieceSize`) -/
def PieceFits (w : World) : Prop :=
  ∀ (i : Nat) (d : Bytes), w.data[i]? = some (some d) → d.length ≤ w.ps

theorem div_mod_shift (a p k : Nat) (hp : 0 < p) (h : a % p + k < p) :
    (a + k) / p = a / p ∧ (a + k) % p = a % p + k := by
  have h1 : a + k = p * (a / p) + (a % p + k) := by
    have := Nat.div_add_mod a p; omega
  rw [h1]
  constructor
  · rw [Nat.mul_add_div hp, Nat.div_eq_of_lt h]; simp
  · rw [Nat.mul_add_mod, Nat.mod_eq_of_lt h]

/-- `Pieces.ReadAt` returns at most `m` bytes, each the store's byte at its offset -/
theorem readAt_exact (w : World) (hfit : PieceFits w) (m a : Nat) (bs : Bytes) (eof : Bool)
    (h : readAt w m (a : Int) = .ok bs eof) :
    bs.length ≤ m ∧ (eof = true → bs = []) ∧
    ∀ k (hk : k < bs.length), storeByte w (a + k) = some bs[k] := by
  unfold readAt at h
  split at h
  · simp at h; obtain ⟨h1, h2⟩ := h; subst h1; simp
  · split at h
    · simp at h
    · rename_i hps
      have hps' : 0 < w.ps := Nat.pos_of_ne_zero hps
      have hdiv : Int.tdiv (a : Int) (w.ps : Int) = ((a / w.ps : Nat) : Int) := by
        simp [Int.tdiv]
      have hmod : Int.tmod (a : Int) (w.ps : Int) = ((a % w.ps : Nat) : Int) := by
        simp [Int.tmod]
      simp only [hdiv, hmod] at h
      split at h
      · simp at h
      · simp only [Int.toNat_natCast] at h
        split at h
        · simp at h
        · simp at h; obtain ⟨h1, h2⟩ := h; subst h1; simp
        · rename_i d hd
          split at h
          · simp at h; obtain ⟨h1, h2⟩ := h; subst h1; simp
          · split at h
            · simp at h
            · rename_i hlen _
              simp at h
              obtain ⟨h1, h2⟩ := h
              subst h1
              refine ⟨by simp [List.length_take]; omega, by intro he; rw [he] at h2; simp at h2, ?_⟩
              intro k hk
              simp [List.length_take] at hk
              have hfd := hfit _ d hd
              have hlen' : a % w.ps < d.length := by omega
              obtain ⟨e1, e2⟩ := div_mod_shift a w.ps k hps' (by omega)
              unfold storeByte
              rw [e1, hd]
              simp only [e2]
              simp [List.getElem_take, List.getElem_drop]


theorem storeByte_same {w w' : World} (h : SameStore w w') (x : Nat) :
    storeByte w' x = storeByte w x := by
  obtain ⟨h1, _, _, h4, _, _⟩ := h
  unfold storeByte; rw [h1, h4]

theorem pieceFits_same {w w' : World} (h : SameStore w w') (hf : PieceFits w) : PieceFits w' := by
  obtain ⟨h1, _, _, h4, _, _⟩ := h
  intro i d hd; rw [h4] at hd; rw [h1]; exact hf i d hd

/-- what a call of `Read` (or its continuation after the wait) guarantees, relative to the
    reader `r` and the store `w` it started from -/
structure Exact (w : World) (r : Rd) (n : Nat) (res : RdRes) : Prop where
  store : SameStore w res.w
  off : res.r.offset = r.offset
  len : res.r.length = r.length
  ret : ∀ bs err, res.out = .ret bs err →
    bs.length ≤ n ∧ res.r.position = r.position + bs.length ∧
    (bs ≠ [] → r.position + bs.length ≤ r.length) ∧
    (∀ k (hk : k < bs.length), storeByte w ((r.offset + r.position).toNat + k) = some bs[k]) ∧
    (err = some .eof → r.length ≤ res.r.position ∨ (w.total : Int) ≤ r.offset + r.position) ∧
    (err = none → res.r.position < r.length ∧ (n > 0 → bs ≠ []))
  blk : ∀ c, res.out = .block c → res.r.position = r.position

theorem bail_exact (cfg : Cfg) (w : World) (r : Rd) (n : Nat) (e : RErr)
    (he : e = .eof → r.length ≤ r.position) : Exact w r n (bail cfg w r e) := by
  obtain ⟨hs, h1, h2, h3, _, _⟩ := request_frame cfg w r (-1) (-1)
  unfold bail
  simp only []
  split
  · exact ⟨hs, h1, h2, by intro bs err h; simp at h, by intro c h; simp at h⟩
  · refine ⟨hs, h1, h2, ?_, by intro c h; simp at h⟩
    intro bs err h
    simp at h
    obtain ⟨hb, herr⟩ := h
    subst hb
    refine ⟨by simp, by simp [h3], by simp, by intro k hk; simp at hk, ?_, ?_⟩
    · intro h; rw [← herr] at h; simp at h; left; rw [h3]; exact he h
    · intro h; rw [← herr] at h; simp at h

theorem readAt_eof_beyond (w : World) (m : Nat) (off : Int) (bs : Bytes)
    (h : readAt w m off = .ok bs true) : (w.total : Int) ≤ off := by
  unfold readAt at h
  split at h
  · assumption
  · exfalso
    split at h
    · simp at h
    · simp only [] at h
      split at h
      · simp at h
      · split at h
        · simp at h
        · simp at h
        · split at h
          · simp at h
          · split at h <;> simp at h

theorem readEnd_exact (cfg : Cfg) (w : World) (r : Rd) (n : Nat) (hfit : PieceFits w)
    (hoff : 0 ≤ r.offset + r.position) (hpos : r.position < r.length) :
    (∀ res, readEnd cfg w r n = .fin res → Exact w r n res) ∧
    (∀ r', readEnd cfg w r n = .again r' → r' = { r with requestedIndex := -1 }) := by
  unfold readEnd
  simp only []
  obtain ⟨a, ha⟩ := Int.eq_ofNat_of_zero_le hoff
  generalize hm : (if r.position + ↑n < r.length then n else (r.length - r.position).toNat) = m
  have hmn : m ≤ n := by subst hm; split <;> omega
  have hml : r.position + m ≤ r.length := by subst hm; split <;> omega
  rw [ha]
  cases hra : readAt w m (a : Int) with
  | panic =>
    simp only []
    constructor
    · intro res h; simp at h; subst h
      exact ⟨SameStore.refl w, rfl, rfl, by intro bs err h; simp at h, by intro c h; simp at h⟩
    · intro r' h; simp at h
  | ok bs eof =>
    simp only []
    obtain ⟨hlen, heof, hbytes⟩ := readAt_exact w hfit m a bs eof hra
    by_cases hz : bs.length = 0 ∧ eof = false ∧ n > 0
    · rw [if_pos hz]
      constructor
      · intro res h; simp at h
      · intro r' h; simp at h; exact h.symm
    · rw [if_neg hz]
      by_cases hiseof : (eof || decide ((bs.length : Int) = r.length - r.position)) = true
      · rw [if_pos hiseof]
        obtain ⟨hs, h1, h2, h3, _, _⟩ := request_frame cfg w r (-1) (-1)
        constructor
        · intro res h
          by_cases hp : (request cfg w r (-1) (-1)).panic = true
          · rw [if_pos hp] at h; simp at h; subst h
            exact ⟨hs, h1, h2, by intro bs err h; simp at h, by intro c h; simp at h⟩
          · rw [if_neg hp] at h; simp at h; subst h
            refine ⟨hs, h1, h2, ?_, by intro c h; simp at h⟩
            intro bs' err h
            simp at h
            obtain ⟨hb, herr⟩ := h
            subst hb
            refine ⟨by omega, by simp [h3], by intro _; omega, ?_, ?_, ?_⟩
            · intro k hk; rw [ha]; simp; exact hbytes k hk
            · intro _
              simp at hiseof
              rcases hiseof with h | h
              · right; subst h; rw [ha]; exact readAt_eof_beyond w m a bs hra
              · left; simp [h3]; omega
            · intro h; rw [← herr] at h; simp at h
        · intro r' h; split at h <;> simp at h
      · rw [if_neg hiseof]
        constructor
        · intro res h; simp at h; subst h
          refine ⟨SameStore.refl w, rfl, rfl, ?_, by intro c h; simp at h⟩
          intro bs' err h
          simp at h
          obtain ⟨hb, herr⟩ := h
          subst hb
          simp at hiseof
          refine ⟨by omega, rfl, by intro _; omega, ?_, ?_, ?_⟩
          · intro k hk; rw [ha]; simp; exact hbytes k hk
          · intro h; rw [← herr] at h; simp at h
          · intro _
            constructor
            · simp; have := hiseof.2; omega
            · intro hn hbe
              apply hz
              subst hbe
              exact ⟨rfl, hiseof.1, hn⟩
        · intro r' h; simp at h


theorem readEnd_reset (cfg : Cfg) (w : World) (r : Rd) (n : Nat) (r' : Rd)
    (h : readEnd cfg w r n = .again r') : r' = { r with requestedIndex := -1 } := by
  unfold readEnd at h
  simp only [] at h
  split at h
  · simp at h
  · split at h
    · simp at h; exact h.symm
    · split at h
      · split at h <;> simp at h
      · simp at h

theorem exact_of_frame {w w' : World} {r r' : Rd} {n : Nat} {res : RdRes}
    (hs : SameStore w w') (hc : SameCursor r r') (h : Exact w' r' n res) : Exact w r n res := by
  obtain ⟨c1, c2, c3, _, _⟩ := hc
  refine ⟨hs.trans h.store, h.off.trans c1, h.len.trans c2, ?_, ?_⟩
  · intro bs err hout
    obtain ⟨a1, a2, a3, a4, a5, a6⟩ := h.ret bs err hout
    rw [c1, c2, c3] at *
    refine ⟨a1, a2, a3, ?_, ?_, a6⟩
    · intro k hk; rw [← storeByte_same hs]; exact a4 k hk
    · intro he; rw [← hs.2.1]; exact a5 he
  · intro c hout; rw [h.blk c hout, c3]

theorem exact_reset {w : World} {r : Rd} {n : Nat} {res : RdRes}
    (h : Exact w { r with requestedIndex := -1 } n res) : Exact w r n res :=
  exact_of_frame (SameStore.refl w) (r := r) (r' := { r with requestedIndex := -1 })
    ⟨rfl, rfl, rfl, rfl, rfl⟩ h

theorem readFrom_exact (fuel : Nat) (cfg : Cfg) (w : World) (r : Rd) (n : Nat) (hfit : PieceFits w)
    (hoff : 0 ≤ r.offset + r.position) (hpos : r.position < r.length) :
    Exact w r n (readFrom fuel cfg w r n) := by
  induction fuel generalizing w r with
  | zero =>
    unfold readFrom
    split
    · exact bail_exact cfg w r n .ctx (by simp)
    · obtain ⟨hs, hc⟩ := request_frame cfg w r (r.offset + r.position) (r.offset + r.length)
      simp only []
      split
      · exact ⟨hs, hc.1, hc.2.1, by intro bs err h; simp at h, by intro c h; simp at h⟩
      · split
        · refine ⟨hs, hc.1, hc.2.1, ?_, by intro c h; simp at h⟩
          intro bs err h; simp at h
          obtain ⟨hb, herr⟩ := h; subst hb
          refine ⟨by simp, by simp [hc.2.2.1], by simp, by intro k hk; simp at hk, ?_, ?_⟩
          · intro h; rw [← herr] at h; simp at h
          · intro h; rw [← herr] at h; simp at h
        · split
          · split
            · exact exact_of_frame hs hc (bail_exact cfg _ _ n .dead (by simp))
            · exact ⟨hs, hc.1, hc.2.1, by intro bs err h; simp at h,
                by intro c h; exact hc.2.2.1⟩
          · have hfit' := pieceFits_same hs hfit
            have hoff' : 0 ≤ (request cfg w r (r.offset + r.position) (r.offset + r.length)).r.offset +
                (request cfg w r (r.offset + r.position) (r.offset + r.length)).r.position := by
              rw [hc.1, hc.2.2.1]; exact hoff
            have hpos' : (request cfg w r (r.offset + r.position) (r.offset + r.length)).r.position <
                (request cfg w r (r.offset + r.position) (r.offset + r.length)).r.length := by
              rw [hc.2.1, hc.2.2.1]; exact hpos
            obtain ⟨e1, e2⟩ := readEnd_exact cfg _ _ n hfit' hoff' hpos'
            split
            · rename_i res heq; exact exact_of_frame hs hc (e1 res heq)
            · rename_i r' heq
              have := e2 r' heq
              subst this
              exact ⟨hs, hc.1, hc.2.1, by intro bs err h; simp at h, by intro c h; simp at h⟩
  | succ fuel ih =>
    unfold readFrom
    split
    · exact bail_exact cfg w r n .ctx (by simp)
    · obtain ⟨hs, hc⟩ := request_frame cfg w r (r.offset + r.position) (r.offset + r.length)
      simp only []
      split
      · exact ⟨hs, hc.1, hc.2.1, by intro bs err h; simp at h, by intro c h; simp at h⟩
      · split
        · refine ⟨hs, hc.1, hc.2.1, ?_, by intro c h; simp at h⟩
          intro bs err h; simp at h
          obtain ⟨hb, herr⟩ := h; subst hb
          refine ⟨by simp, by simp [hc.2.2.1], by simp, by intro k hk; simp at hk, ?_, ?_⟩
          · intro h; rw [← herr] at h; simp at h
          · intro h; rw [← herr] at h; simp at h
        · split
          · split
            · exact exact_of_frame hs hc (bail_exact cfg _ _ n .dead (by simp))
            · exact ⟨hs, hc.1, hc.2.1, by intro bs err h; simp at h,
                by intro c h; exact hc.2.2.1⟩
          · have hfit' := pieceFits_same hs hfit
            have hoff' : 0 ≤ (request cfg w r (r.offset + r.position) (r.offset + r.length)).r.offset +
                (request cfg w r (r.offset + r.position) (r.offset + r.length)).r.position := by
              rw [hc.1, hc.2.2.1]; exact hoff
            have hpos' : (request cfg w r (r.offset + r.position) (r.offset + r.length)).r.position <
                (request cfg w r (r.offset + r.position) (r.offset + r.length)).r.length := by
              rw [hc.2.1, hc.2.2.1]; exact hpos
            obtain ⟨e1, e2⟩ := readEnd_exact cfg _ _ n hfit' hoff' hpos'
            split
            · rename_i res heq; exact exact_of_frame hs hc (e1 res heq)
            · rename_i r' heq
              have := e2 r' heq
              subst this
              apply exact_of_frame hs hc
              apply exact_reset
              exact ih _ _ hfit' hoff' hpos'

/-- **bytes exact / EOF exact.**  For every store, every reader window, every cursor inside
    it, every buffer length and every state of the requests: whatever `Read` returns
    * is at most `n` bytes and does not go beyond the window (`position + k ≤ length`),
    * byte `k` is the store's verified byte at torrent offset `offset + position + k`,
    * the cursor advances by exactly the bytes returned, the window never changes,
    * EOF is reported only when the cursor has reached `length` (or the offset is outside
      the torrent), and a `nil` error means the cursor is still before `length` and — for a
      non-empty buffer — at least one byte was returned (never `(0, nil)`). -/
theorem C02_bytes_exact (cfg : Cfg) (w : World) (r : Rd) (n : Nat) (hfit : PieceFits w)
    (hoff : 0 ≤ r.offset) (hp : 0 ≤ r.position) : Exact w r n (Reader.read cfg w r n) := by
  unfold Reader.read
  split
  · exact ⟨SameStore.refl w, rfl, rfl, by
      intro bs err h; simp at h; obtain ⟨hb, herr⟩ := h; subst hb
      refine ⟨by simp, by simp, by simp, by intro k hk; simp at hk, ?_, ?_⟩
      · intro h; rw [← herr] at h; simp at h
      · intro h; rw [← herr] at h; simp at h, by intro c h; simp at h⟩
  · split
    · rename_i hge; exact bail_exact cfg w r n .eof (fun _ => hge)
    · rename_i hlt; exact readFrom_exact readFuel cfg w r n hfit (by omega) (by omega)

/-- the same for the continuation of a `Read` that was blocked, whichever alternative of
    the `select` fires and whatever happened to the store and the requests meanwhile -/
theorem C02_bytes_exact_wake (cfg : Cfg) (w : World) (r : Rd) (n c : Nat) (k : Wake)
    (hfit : PieceFits w) (hoff : 0 ≤ r.offset + r.position) (hpos : r.position < r.length) :
    Exact w r n (wake cfg w r n c k) := by
  unfold wake
  split
  · exact ⟨SameStore.refl w, rfl, rfl, by intro bs err h; simp at h, by intro c h; rfl⟩
  · cases k with
    | dead => exact bail_exact cfg w r n .dead (by simp)
    | ctx => exact bail_exact cfg w r n .ctx (by simp)
    | done =>
      simp only []
      obtain ⟨e1, e2⟩ := readEnd_exact cfg w r n hfit hoff hpos
      split
      · rename_i res heq; exact e1 res heq
      · rename_i r' heq
        have := e2 r' heq
        subst this
        exact exact_reset (readFrom_exact readFuel cfg w _ n hfit hoff hpos)

/-- **EOF exactly at length**, for a reader inside the torrent: `Read` reports EOF if and only
    if afterwards the cursor is at (or was already beyond) `length`. -/
theorem C02_eof_exact (cfg : Cfg) (w : World) (r : Rd) (n : Nat) (hfit : PieceFits w)
    (hoff : 0 ≤ r.offset) (hp : 0 ≤ r.position) (hin : r.offset + r.length ≤ w.total)
    (bs : Bytes) (err : Option RErr) (h : (Reader.read cfg w r n).out = .ret bs err)
    (hnoerr : err = none ∨ err = some .eof) :
    (err = some .eof ↔ r.length ≤ (Reader.read cfg w r n).r.position) := by
  have hx := C02_bytes_exact cfg w r n hfit hoff hp
  obtain ⟨a1, a2, a3, a4, a5, a6⟩ := hx.ret bs err h
  constructor
  · intro he
    rcases a5 he with h1 | h1
    · exact h1
    · rw [a2]; omega
  · intro hle
    rcases hnoerr with h1 | h1
    · have := (a6 h1).1; omega
    · exact h1

/-- **Seek** never moves the cursor below 0, `SeekEnd` is relative to `length`, a rejected
    seek leaves the cursor where it was. -/
theorem C02_seek (r : Rd) (o : Int) (whence : Nat) (hp : 0 ≤ r.position) :
    0 ≤ (seek r o whence).1.position ∧
    ((seek r o whence).2.2 ≠ none → (seek r o whence).1 = r ∧ (seek r o whence).2.1 = r.position) ∧
    ((seek r o whence).2.2 = none →
      (seek r o whence).2.1 = (seek r o whence).1.position ∧
      (whence = 0 → (seek r o whence).1.position = o) ∧
      (whence = 1 → (seek r o whence).1.position = r.position + o) ∧
      (whence = 2 → (seek r o whence).1.position = r.length + o)) := by
  unfold seek
  split
  · simp [hp]
  · match whence with
    | 0 => simp only []; split <;> simp_all <;> omega
    | 1 => simp only []; split <;> simp_all <;> omega
    | 2 => simp only []; split <;> simp_all <;> omega
    | k + 3 => simp [hp]

/-- **withdraw** (C10 `reader_balance`, second half): after `Close`, after EOF, after a
    cancellation and after the torrent died — every exit of `Read` through `bail`, and
    `Close` — the reader holds no priority and no cached request. -/
theorem C02_withdraw (cfg : Cfg) (w : World) (r : Rd) (e : RErr) :
    (bail cfg w r e).r.requested = [] ∧ (bail cfg w r e).r.requestedIndex = -1 ∧
    (r.closed = false → (close cfg w r).2.1.requested = []) := by
  obtain ⟨h1, h2, _, _⟩ := request_withdraw cfg w r
  refine ⟨?_, ?_, ?_⟩
  · unfold bail; simp only []; split <;> exact h1
  · unfold bail; simp only []; split <;> exact h2
  · intro hc; unfold close; simp [hc, h1]

/-- **progress (c).**  A blocked `Read` is enabled as soon as the context is cancelled or the
    torrent's `Done` is closed, and then returns the corresponding error with no data. -/
theorem C02_progress_cancel (cfg : Cfg) (w : World) (r : Rd) (n c : Nat) :
    (r.cancelled = true → (wake cfg w r n c .ctx).out = .ret [] (some .ctx) ∨
                          (wake cfg w r n c .ctx).out = .panic) ∧
    (w.dead = true → (wake cfg w r n c .dead).out = .ret [] (some .dead) ∨
                     (wake cfg w r n c .dead).out = .panic) := by
  constructor
  · intro h; unfold wake; simp [wakeEnabled, h]; unfold bail; simp only []; split <;> simp
  · intro h; unfold wake; simp [wakeEnabled, h]; unfold bail; simp only []; split <;> simp


/-! ## no Go fault -/

theorem bail_nopanic (cfg : Cfg) (w : World) (r : Rd) (e : RErr) (g : Geom w) :
    (bail cfg w r e).out ≠ .panic ∧ Geom (bail cfg w r e).w ∧ (bail cfg w r e).r.closed = r.closed := by
  have hp := request_nopanic cfg w r (-1) (-1) g
  obtain ⟨hs, hc⟩ := request_frame cfg w r (-1) (-1)
  unfold bail
  simp only [hp, Bool.false_eq_true, if_false]
  exact ⟨by simp, g.same hs, hc.2.2.2.1⟩

theorem readEnd_nopanic (cfg : Cfg) (w : World) (r : Rd) (n : Nat) (g : Geom w)
    (hoff : 0 ≤ r.offset + r.position) :
    ∀ res, readEnd cfg w r n = .fin res → res.out ≠ .panic ∧ Geom res.w ∧ res.r.closed = r.closed := by
  intro res h
  unfold readEnd at h
  simp only [] at h
  obtain ⟨a, ha⟩ := Int.eq_ofNat_of_zero_le hoff
  rw [ha] at h
  generalize (if r.position + ↑n < r.length then n else (r.length - r.position).toNat) = m at h
  cases hra : readAt w m (a : Int) with
  | panic => exact absurd hra (readAt_nopanic w g m a)
  | ok bs eof =>
    rw [hra] at h
    simp only [] at h
    split at h
    · simp at h
    · split at h
      · have hp := request_nopanic cfg w r (-1) (-1) g
        obtain ⟨hs, hc⟩ := request_frame cfg w r (-1) (-1)
        simp only [hp, Bool.false_eq_true, if_false] at h
        simp at h; subst h
        exact ⟨by simp, g.same hs, hc.2.2.2.1⟩
      · simp at h; subst h; exact ⟨by simp, g, rfl⟩

theorem readFrom_nopanic (fuel : Nat) (cfg : Cfg) (w : World) (r : Rd) (n : Nat) (g : Geom w)
    (hoff : 0 ≤ r.offset + r.position) :
    (readFrom fuel cfg w r n).out ≠ .panic ∧ Geom (readFrom fuel cfg w r n).w ∧
    (readFrom fuel cfg w r n).r.closed = r.closed := by
  induction fuel generalizing w r with
  | zero =>
    unfold readFrom
    split
    · exact bail_nopanic cfg w r .ctx g
    · obtain ⟨hs, hc⟩ := request_frame cfg w r (r.offset + r.position) (r.offset + r.length)
      have hp := request_nopanic cfg w r (r.offset + r.position) (r.offset + r.length) g
      have g' := g.same hs
      have hcl := hc.2.2.2.1
      simp only [hp, Bool.false_eq_true, if_false]
      split
      · exact ⟨by simp, g', hcl⟩
      · split
        · split
          · obtain ⟨b1, b2, b3⟩ := bail_nopanic cfg _ _ .dead g'
            exact ⟨b1, b2, b3.trans hcl⟩
          · exact ⟨by simp, g', hcl⟩
        · have hoff' : 0 ≤ (request cfg w r (r.offset + r.position) (r.offset + r.length)).r.offset +
              (request cfg w r (r.offset + r.position) (r.offset + r.length)).r.position := by
            rw [hc.1, hc.2.2.1]; exact hoff
          have e1 := readEnd_nopanic cfg _ _ n g' hoff'
          split
          · rename_i res heq
            obtain ⟨b1, b2, b3⟩ := e1 res heq
            exact ⟨b1, b2, b3.trans hcl⟩
          · rename_i r' heq
            have e2 := (readEnd_reset cfg _ _ n r' heq)
            subst e2
            exact ⟨by simp, g', hcl⟩
  | succ fuel ih =>
    unfold readFrom
    split
    · exact bail_nopanic cfg w r .ctx g
    · obtain ⟨hs, hc⟩ := request_frame cfg w r (r.offset + r.position) (r.offset + r.length)
      have hp := request_nopanic cfg w r (r.offset + r.position) (r.offset + r.length) g
      have g' := g.same hs
      have hcl := hc.2.2.2.1
      simp only [hp, Bool.false_eq_true, if_false]
      split
      · exact ⟨by simp, g', hcl⟩
      · split
        · split
          · obtain ⟨b1, b2, b3⟩ := bail_nopanic cfg _ _ .dead g'
            exact ⟨b1, b2, b3.trans hcl⟩
          · exact ⟨by simp, g', hcl⟩
        · have hoff' : 0 ≤ (request cfg w r (r.offset + r.position) (r.offset + r.length)).r.offset +
              (request cfg w r (r.offset + r.position) (r.offset + r.length)).r.position := by
            rw [hc.1, hc.2.2.1]; exact hoff
          have e1 := readEnd_nopanic cfg _ _ n g' hoff'
          split
          · rename_i res heq
            obtain ⟨b1, b2, b3⟩ := e1 res heq
            exact ⟨b1, b2, b3.trans hcl⟩
          · rename_i r' heq
            have e2 := (readEnd_reset cfg _ _ n r' heq)
            subst e2
            obtain ⟨b1, b2, b3⟩ := ih _ { (request cfg w r (r.offset + r.position) (r.offset + r.length)).r with requestedIndex := -1 } g' hoff'
            exact ⟨b1, b2, b3.trans hcl⟩

theorem read_nopanic (cfg : Cfg) (w : World) (r : Rd) (n : Nat) (g : Geom w)
    (hoff : 0 ≤ r.offset) (hp : 0 ≤ r.position) :
    (Reader.read cfg w r n).out ≠ .panic ∧ Geom (Reader.read cfg w r n).w ∧
    (Reader.read cfg w r n).r.closed = r.closed := by
  unfold Reader.read
  split
  · exact ⟨by simp, g, rfl⟩
  · split
    · exact bail_nopanic cfg w r .eof g
    · exact readFrom_nopanic readFuel cfg w r n g (by omega)

theorem wake_nopanic (cfg : Cfg) (w : World) (r : Rd) (n c : Nat) (k : Wake) (g : Geom w)
    (hoff : 0 ≤ r.offset + r.position) :
    (wake cfg w r n c k).out ≠ .panic ∧ Geom (wake cfg w r n c k).w ∧
    (wake cfg w r n c k).r.closed = r.closed := by
  unfold wake
  split
  · exact ⟨by simp, g, rfl⟩
  · cases k with
    | dead => exact bail_nopanic cfg w r .dead g
    | ctx => exact bail_nopanic cfg w r .ctx g
    | done =>
      simp only []
      have e1 := readEnd_nopanic cfg w r n g hoff
      split
      · rename_i res heq; exact e1 res heq
      · rename_i r' heq
        have e2 := readEnd_reset cfg _ _ n r' heq
        subst e2
        exact readFrom_nopanic readFuel cfg w { r with requestedIndex := -1 } n g hoff

theorem close_nopanic (cfg : Cfg) (w : World) (r : Rd) (g : Geom w)
    (hc : r.closed = true → r.requested = []) :
    (close cfg w r).2.2 = false ∧ Geom (close cfg w r).1 ∧ (close cfg w r).2.1.closed = true ∧
    (close cfg w r).2.1.requested = [] := by
  unfold close
  by_cases h : r.closed = true
  · simp [h, hc h, g]
  · have hp := request_nopanic cfg w r (-1) (-1) g
    obtain ⟨hs, _⟩ := request_frame cfg w r (-1) (-1)
    obtain ⟨h1, _⟩ := request_withdraw cfg w r
    simp [h, hp, g.same hs, h1]

/-! ## op histories: one reader, any sequence of operations, anything the other goroutines
    do to the store and the requests in between -/

inductive HOp where
  /-- `Read` with a buffer of `n` bytes (any `n`, also 0) -/
  | read (n : Nat)
  /-- the `select` of a blocked `Read` fires with alternative `k` (if enabled) -/
  | wake (k : Wake)
  /-- `Seek(o, whence)`: any `Int`, any whence -/
  | seek (o : Int) (whence : Nat)
  /-- `SetContext` / the context being cancelled -/
  | setContext (cancelled : Bool)
  /-- `Close` (also a second time) -/
  | close
  /-- everything else: pieces arrive, are evicted, other consumers and the loop change the
      requests, the torrent dies — the piece table keeps its length -/
  | env (data : List (Option Bytes)) (rs : RS) (dead : Bool)

structure HState where
  w : World
  r : Rd
  /-- a `Read(n)` parked on channel `c` -/
  pend : Option (Nat × Nat) := none
  /-- a Go fault happened -/
  faulted : Bool := false
  /-- the cursor after the last successful `Seek` (initially where the history starts) -/
  start : Int := 0
  /-- all bytes returned since -/
  got : Bytes := []

def absorb (s : HState) (n : Nat) (res : RdRes) : HState :=
  match res.out with
  | .ret bs _ => { s with w := res.w, r := res.r, pend := none, got := s.got ++ bs }
  | .block c => { s with w := res.w, r := res.r, pend := some (n, c) }
  | .panic => { s with faulted := true }
  | .spin => s

def hstep (cfg : Cfg) (s : HState) : HOp → HState
  | .read n => if s.pend.isSome then s else absorb s n (Reader.read cfg s.w s.r n)
  | .wake k =>
    match s.pend with
    | none => s
    | some (n, c) =>
      if wakeEnabled s.w s.r c k then absorb s n (wake cfg s.w s.r n c k) else s
  | .seek o wh =>
    if s.pend.isSome then s
    else if (seek s.r o wh).2.2 = none then
      { s with r := (seek s.r o wh).1, start := (seek s.r o wh).1.position, got := [] }
    else s
  | .setContext b => { s with r := { s.r with cancelled := b } }
  | .close =>
    if s.pend.isSome then s
    else { s with w := (close cfg s.w s.r).1, r := (close cfg s.w s.r).2.1,
                  faulted := s.faulted || (close cfg s.w s.r).2.2 }
  | .env data rs dead =>
    if data.length = s.w.data.length then
      { s with w := { s.w with data := data, rs := rs, dead := dead } }
    else s

/-- what the store may hold: `C x b` = "byte `b` is admissible at torrent offset `x`".
    `C = fun _ _ => True`: any bytes (no-fault theorem); `C x b = (b = content x)`: verified
    content (C01). -/
def DataOK (C : Nat → UInt8 → Prop) (ps : Nat) (data : List (Option Bytes)) : Prop :=
  ∀ (i : Nat) (d : Bytes), data[i]? = some (some d) →
    d.length ≤ ps ∧ ∀ k (hk : k < d.length), C (i * ps + k) d[k]

/-- a history is valid when every environment step leaves an admissible store -/
inductive ValidRun (C : Nat → UInt8 → Prop) (cfg : Cfg) : HState → List HOp → Prop
  | nil (s : HState) : ValidRun C cfg s []
  | cons (s : HState) (op : HOp) (ops : List HOp)
      (hop : ∀ data rs dead, op = .env data rs dead → DataOK C s.w.ps data)
      (h : ValidRun C cfg (hstep cfg s op) ops) : ValidRun C cfg s (op :: ops)

def hrun (cfg : Cfg) (s : HState) (ops : List HOp) : HState := ops.foldl (hstep cfg) s

structure HInv (C : Nat → UInt8 → Prop) (s : HState) : Prop where
  geom : Geom s.w
  off : 0 ≤ s.r.offset
  pos : 0 ≤ s.r.position
  cl : s.r.closed = true → s.r.requested = []
  pd : s.pend.isSome = true → s.r.position < s.r.length ∧ s.r.closed = false
  nf : s.faulted = false
  dok : DataOK C s.w.ps s.w.data
  st : 0 ≤ s.start ∧ s.start ≤ s.r.position
  glen : (s.got.length : Int) = s.r.position - s.start
  gok : ∀ k (hk : k < s.got.length), C ((s.r.offset + s.start).toNat + k) s.got[k]

theorem dataOK_fits {C : Nat → UInt8 → Prop} {w : World} (h : DataOK C w.ps w.data) : PieceFits w :=
  fun i d hd => (h i d hd).1

theorem dataOK_byte {C : Nat → UInt8 → Prop} {w : World} (h : DataOK C w.ps w.data) (hps : 0 < w.ps)
    (x : Nat) (b : UInt8) (hb : storeByte w x = some b) : C x b := by
  unfold storeByte at hb
  split at hb
  · rename_i d hd
    obtain ⟨_, h2⟩ := h _ d hd
    have hlt : x % w.ps < d.length := by
      cases Nat.lt_or_ge (x % w.ps) d.length with
      | inl h => exact h
      | inr hge => rw [List.getElem?_eq_none hge] at hb; simp at hb
    rw [List.getElem?_eq_getElem hlt] at hb
    simp at hb
    have := h2 (x % w.ps) hlt
    rw [hb] at this
    have e : x / w.ps * w.ps + x % w.ps = x := by
      have := Nat.div_add_mod x w.ps; rw [Nat.mul_comm] at this; exact this
    rw [e] at this; exact this
  · simp at hb

theorem bail_out (cfg : Cfg) (w : World) (r : Rd) (e : RErr) :
    (bail cfg w r e).out = .panic ∨ (bail cfg w r e).out = .ret [] (some e) := by
  unfold bail; simp only []; split <;> simp

theorem read_block (cfg : Cfg) (w : World) (r : Rd) (n c : Nat)
    (h : (Reader.read cfg w r n).out = .block c) : r.closed = false ∧ r.position < r.length := by
  unfold Reader.read at h
  split at h
  · simp at h
  · rename_i hc
    split at h
    · rcases bail_out cfg w r .eof with h' | h' <;> rw [h'] at h <;> simp at h
    · rename_i hp; exact ⟨by simpa using hc, by omega⟩

/-- absorbing the result of a `Read` (or of its continuation) that satisfies `Exact` -/
theorem hinv_absorb {C : Nat → UInt8 → Prop} {s : HState} (h : HInv C s) (n : Nat) (res : RdRes)
    (hx : Exact s.w s.r n res) (hnp : res.out ≠ .panic) (hg : Geom res.w)
    (hcl : res.r.closed = s.r.closed)
    (hcr : s.r.closed = true → res.r = s.r)
    (hblk : ∀ c, res.out = .block c → s.r.closed = false ∧ s.r.position < s.r.length) :
    HInv C (absorb s n res) := by
  unfold absorb
  have hps : res.w.ps = s.w.ps := hx.store.1
  have hdata : res.w.data = s.w.data := hx.store.2.2.2.1
  cases hout : res.out with
  | panic => exact absurd hout hnp
  | spin => exact h
  | block c =>
    simp only []
    obtain ⟨b1, b2⟩ := hblk c hout
    have hp := hx.blk c hout
    refine ⟨hg, by rw [hx.off]; exact h.off, by rw [hp]; exact h.pos, ?_, ?_, h.nf, ?_, ?_, ?_, ?_⟩
    · intro hc; rw [hcl, b1] at hc; simp at hc
    · intro _; rw [hp, hx.len, hcl]; exact ⟨b2, b1⟩
    · show DataOK C res.w.ps res.w.data
      rw [hps, hdata]; exact h.dok
    · show 0 ≤ s.start ∧ s.start ≤ res.r.position
      rw [hp]; exact h.st
    · show (s.got.length : Int) = res.r.position - s.start
      rw [hp]; exact h.glen
    · intro k hk
      show C ((res.r.offset + s.start).toNat + k) s.got[k]
      rw [hx.off]; exact h.gok k hk
  | ret bs err =>
    simp only []
    obtain ⟨a1, a2, a3, a4, a5, a6⟩ := hx.ret bs err hout
    have hst := h.st
    have hpos := h.pos
    have hoff := h.off
    refine ⟨hg, by rw [hx.off]; exact h.off, by rw [a2]; omega, ?_, by simp, h.nf, ?_, ?_, ?_, ?_⟩
    · intro hc
      rw [hcl] at hc
      rw [hcr hc]; exact h.cl hc
    · show DataOK C res.w.ps res.w.data
      rw [hps, hdata]; exact h.dok
    · show 0 ≤ s.start ∧ s.start ≤ res.r.position
      rw [a2]; omega
    · show (((s.got ++ bs).length : Nat) : Int) = res.r.position - s.start
      rw [a2, List.length_append]; have := h.glen; omega
    · intro k hk
      show C ((res.r.offset + s.start).toNat + k) (s.got ++ bs)[k]
      rw [hx.off]
      by_cases hlt : k < s.got.length
      · rw [List.getElem_append_left hlt]; exact h.gok k hlt
      · have hge : s.got.length ≤ k := by omega
        rw [List.getElem_append_right hge]
        have hk' : k - s.got.length < bs.length := by
          rw [List.length_append] at hk; omega
        have hb := a4 (k - s.got.length) hk'
        have hC := dataOK_byte h.dok h.geom.1 _ _ hb
        have e : (s.r.offset + s.r.position).toNat + (k - s.got.length) =
            (s.r.offset + s.start).toNat + k := by
          have := h.glen; omega
        rw [e] at hC; exact hC

theorem hinv_step {C : Nat → UInt8 → Prop} (cfg : Cfg) {s : HState} (h : HInv C s) (op : HOp)
    (hop : ∀ data rs dead, op = .env data rs dead → DataOK C s.w.ps data) :
    HInv C (hstep cfg s op) := by
  cases op with
  | read n =>
    simp only [hstep]
    split
    · exact h
    · obtain ⟨p1, p2, p3⟩ := read_nopanic cfg s.w s.r n h.geom h.off h.pos
      apply hinv_absorb h n _ (C02_bytes_exact cfg s.w s.r n (dataOK_fits h.dok) h.off h.pos) p1 p2 p3
      · intro hc; unfold Reader.read; simp [hc]
      · intro c hb; exact read_block cfg s.w s.r n c hb
  | wake k =>
    simp only [hstep]
    cases hp : s.pend with
    | none => exact h
    | some nc =>
      obtain ⟨n, c⟩ := nc
      simp only []
      split
      · obtain ⟨b1, b2⟩ := h.pd (by rw [hp]; rfl)
        have hoff : 0 ≤ s.r.offset + s.r.position := by have := h.off; have := h.pos; omega
        obtain ⟨p1, p2, p3⟩ := wake_nopanic cfg s.w s.r n c k h.geom hoff
        apply hinv_absorb h n _ (C02_bytes_exact_wake cfg s.w s.r n c k (dataOK_fits h.dok) hoff b1) p1 p2 p3
        · intro hc; rw [b2] at hc; simp at hc
        · intro _ _; exact ⟨b2, b1⟩
      · exact h
  | seek o wh =>
    simp only [hstep]
    by_cases hpend : s.pend.isSome = true
    · rw [if_pos hpend]; exact h
    · rw [if_neg hpend]
      split
      · rename_i hnone
        obtain ⟨s1, _, s3⟩ := C02_seek s.r o wh h.pos
        have hsame : (seek s.r o wh).1.offset = s.r.offset ∧ (seek s.r o wh).1.length = s.r.length ∧
            (seek s.r o wh).1.closed = s.r.closed ∧ (seek s.r o wh).1.requested = s.r.requested := by
          unfold seek; split
          · exact ⟨rfl, rfl, rfl, rfl⟩
          · split
            · exact ⟨rfl, rfl, rfl, rfl⟩
            · split <;> exact ⟨rfl, rfl, rfl, rfl⟩
        obtain ⟨e1, e2, e3, e4⟩ := hsame
        refine ⟨h.geom, by show 0 ≤ (seek s.r o wh).1.offset; rw [e1]; exact h.off, s1, ?_, ?_, h.nf, h.dok,
          ⟨s1, Int.le_refl _⟩, by simp, by intro k hk; simp at hk⟩
        · intro hc; show (seek s.r o wh).1.requested = []; rw [e4]; rw [e3] at hc; exact h.cl hc
        · intro hpd; exact absurd hpd hpend
      · exact h
  | setContext b =>
    exact ⟨h.geom, h.off, h.pos, h.cl, h.pd, h.nf, h.dok, h.st, h.glen, h.gok⟩
  | close =>
    simp only [hstep]
    split
    · exact h
    · rename_i hnp
      obtain ⟨c1, c2, c3, c4⟩ := close_nopanic cfg s.w s.r h.geom h.cl
      have hfr : SameStore s.w (close cfg s.w s.r).1 ∧ (close cfg s.w s.r).2.1.offset = s.r.offset ∧
          (close cfg s.w s.r).2.1.position = s.r.position := by
        unfold close
        split
        · exact ⟨SameStore.refl _, rfl, rfl⟩
        · obtain ⟨hs, hc⟩ := request_frame cfg s.w s.r (-1) (-1)
          exact ⟨hs, hc.1, hc.2.2.1⟩
      obtain ⟨f1, f2, f3⟩ := hfr
      refine ⟨c2, by show 0 ≤ (close cfg s.w s.r).2.1.offset; rw [f2]; exact h.off,
        by show 0 ≤ (close cfg s.w s.r).2.1.position; rw [f3]; exact h.pos, fun _ => c4, ?_, ?_, ?_, ?_, ?_, ?_⟩
      · intro hpd; exact absurd hpd hnp
      · show (s.faulted || (close cfg s.w s.r).2.2) = false; rw [h.nf, c1]; rfl
      · show DataOK C (close cfg s.w s.r).1.ps (close cfg s.w s.r).1.data
        rw [f1.1, f1.2.2.2.1]; exact h.dok
      · show 0 ≤ s.start ∧ s.start ≤ (close cfg s.w s.r).2.1.position
        rw [f3]; exact h.st
      · show (s.got.length : Int) = (close cfg s.w s.r).2.1.position - s.start
        rw [f3]; exact h.glen
      · intro k hk
        show C (((close cfg s.w s.r).2.1.offset + s.start).toNat + k) s.got[k]
        rw [f2]; exact h.gok k hk
  | env data rs dead =>
    simp only [hstep]
    split
    · rename_i hl
      obtain ⟨g1, g2, g3⟩ := h.geom
      refine ⟨⟨g1, by show s.w.numHashes ≤ data.length; rw [hl]; exact g2,
        by show s.w.total ≤ data.length * s.w.ps; rw [hl]; exact g3⟩, h.off, h.pos, h.cl, h.pd, h.nf,
        hop data rs dead rfl, h.st, h.glen, h.gok⟩
    · exact h

theorem hinv_run {C : Nat → UInt8 → Prop} (cfg : Cfg) (ops : List HOp) :
    ∀ s : HState, HInv C s → ValidRun C cfg s ops → HInv C (hrun cfg s ops) := by
  induction ops with
  | nil => intro s h _; exact h
  | cons op r ih =>
    intro s h hv
    cases hv with
    | cons _ _ _ hop hr => exact ih _ (hinv_step cfg h op hop) hr

/-- the start of a history: any store within the geometry, any reader the front-ends create
    (`offset ≥ 0`; any length, any cursor ≥ 0) -/
def hinit (w : World) (r : Rd) : HState := { w := w, r := r, start := r.position }

theorem hinv_init {C : Nat → UInt8 → Prop} (w : World) (r : Rd) (g : Geom w)
    (hd : DataOK C w.ps w.data) (hoff : 0 ≤ r.offset) (hpos : 0 ≤ r.position)
    (hcl : r.closed = true → r.requested = []) : HInv C (hinit w r) :=
  ⟨g, hoff, hpos, hcl, by intro h; simp [hinit] at h, rfl, hd, ⟨hpos, Int.le_refl _⟩,
   by simp [hinit], by intro k hk; simp [hinit] at hk⟩

/-- **no Go fault.**  For every geometry (positive piece size of any value, piece table
    covering the torrent, offsets of any magnitude — the model computes in `Int`/`Nat` and
    makes Go's `uint32` conversions explicit), every reader with `offset ≥ 0` (any length:
    zero, beyond the torrent; any starting cursor ≥ 0), every store whose piece buffers fit
    the piece size, and every history of Read (any buffer, also 0) / continuation of a blocked
    Read / Seek (any whence, any `Int`) / SetContext / Close (repeated, reads after Close) with
    arbitrary changes of the store, the requests and the torrent's life in between: the
    model never reaches a Go fault (index or slice out of range, integer division by zero,
    nil dereference).  That every `Read` returns `n ≤ len(buf)`, `n ≤ length − position`
    and advances the cursor by exactly `n` is `C02_bytes_exact` at every step. -/
theorem C02_no_panic (cfg : Cfg) (w : World) (r : Rd) (ops : List HOp) (g : Geom w)
    (hd : DataOK (fun _ _ => True) w.ps w.data) (hoff : 0 ≤ r.offset) (hpos : 0 ≤ r.position)
    (hcl : r.closed = true → r.requested = [])
    (hv : ValidRun (fun _ _ => True) cfg (hinit w r) ops) :
    (hrun cfg (hinit w r) ops).faulted = false ∧ 0 ≤ (hrun cfg (hinit w r) ops).r.position :=
  let h := hinv_run cfg ops _ (hinv_init w r g hd hoff hpos hcl) hv
  ⟨h.nf, h.pos⟩

/-- **history-level exactness** (the sequential consumer's view, what `http.ServeContent`
    and FUSE rely on): for any history over stores holding verified content, the
    concatenation of all bytes returned by the Reads since the last successful Seek is the
    content slice `[offset + pos₀, offset + pos)` where `pos₀` is the cursor that Seek set and
    `pos` the current cursor — whatever was evicted, re-fetched, cancelled or retried in
    between, however the reads were cut. -/
theorem C02_bytes_exact_history (content : Nat → UInt8) (cfg : Cfg) (w : World) (r : Rd)
    (ops : List HOp) (g : Geom w)
    (hd : DataOK (fun x b => b = content x) w.ps w.data) (hoff : 0 ≤ r.offset)
    (hpos : 0 ≤ r.position) (hcl : r.closed = true → r.requested = [])
    (hv : ValidRun (fun x b => b = content x) cfg (hinit w r) ops) :
    (hrun cfg (hinit w r) ops).got =
      (List.range ((hrun cfg (hinit w r) ops).r.position - (hrun cfg (hinit w r) ops).start).toNat).map
        (fun k => content (((hrun cfg (hinit w r) ops).r.offset +
          (hrun cfg (hinit w r) ops).start).toNat + k)) := by
  have h := hinv_run cfg ops _ (hinv_init w r g hd hoff hpos hcl) hv
  apply List.ext_getElem
  · simp; have := h.glen; omega
  · intro k h1 h2
    simp
    exact h.gok k h1

/-! ## progress: a parked Read is registered; it returns data once its piece is there -/

/-- the situation of a `Read` parked on channel `c` -/
structure Registered (w : World) (r : Rd) (c : Nat) : Prop where
  /-- the cached request is the cursor's piece (the `uint32` index the code computes) -/
  idx : r.requestedIndex = (cacheIndex w.ps (r.offset + r.position) : Int)
  /-- … which is requested from the torrent with the reader's priority 1 (> IdlePriority) -/
  entry : ∃ e, find w.rs.pieces r.requestedIndex.toNat = some e ∧ (1 : Int) ∈ e.prio
  /-- the channel is open and is the one the reader caches -/
  isOpen : isClosed w.rs c = false
  ch : r.ch = some c
  holds : Holds w r
  rinv : RInv r

theorem readEnd_fin_out (cfg : Cfg) (w : World) (r : Rd) (n : Nat) (res : RdRes)
    (h : readEnd cfg w r n = .fin res) : ∀ c, res.out ≠ .block c := by
  intro c
  unfold readEnd at h
  simp only [] at h
  split at h
  · simp at h; subst h; simp
  · split at h
    · simp at h
    · split at h
      · split at h <;> (simp at h; subst h; simp)
      · simp at h; subst h; simp

theorem bail_noblock (cfg : Cfg) (w : World) (r : Rd) (e : RErr) (c : Nat) :
    (bail cfg w r e).out ≠ .block c := by
  rcases bail_out cfg w r e with h | h <;> rw [h] <;> simp

theorem readFrom_block (fuel : Nat) (cfg : Cfg) (w : World) (r : Rd) (n c : Nat) (g : Geom w)
    (hh : Holds w r) (hr : RInv r) (hb : (readFrom fuel cfg w r n).out = .block c) :
    Registered (readFrom fuel cfg w r n).w (readFrom fuel cfg w r n).r c := by
  induction fuel generalizing w r with
  | zero =>
    unfold readFrom at hb ⊢
    split at hb
    · exact absurd hb (bail_noblock _ _ _ _ _)
    · rename_i hcan
      rw [if_neg hcan]
      obtain ⟨hs, hc⟩ := request_frame cfg w r (r.offset + r.position) (r.offset + r.length)
      have sp := request_spec cfg w r (r.offset + r.position) (r.offset + r.length) g hh hr
      have hp := request_nopanic cfg w r (r.offset + r.position) (r.offset + r.length) g
      simp only [hp, Bool.false_eq_true, if_false] at hb ⊢
      split at hb
      · simp at hb
      · rename_i herr
        try simp only [herr] at hb ⊢
        split at hb
        · rename_i c' hblk
          try simp only [hblk]
          split at hb
          · exact absurd hb (bail_noblock _ _ _ _ _)
          · rename_i hdead
            try rw [if_neg hdead]
            simp at hb; subst hb
            cases hq : (request cfg w r (r.offset + r.position) (r.offset + r.length)).ch with
            | none => rw [hq] at hblk; simp at hblk
            | some c2 =>
              rw [hq] at hblk
              simp only [] at hblk
              split at hblk
              · simp at hblk
              · rename_i hopen
                simp at hblk; subst hblk
                obtain ⟨a1, a2, a3, a4⟩ := sp.cached c2 hq
                refine ⟨?_, ?_, by simpa using hopen, by rw [sp.chEq, hq], sp.holds, sp.rinv⟩
                · show (request cfg w r (r.offset + r.position) (r.offset + r.length)).r.requestedIndex = _
                  rw [a4, hs.1, hc.1, hc.2.2.1]
                · have hcnt : 0 < cnt (request cfg w r (r.offset + r.position) (r.offset + r.length)).w.rs
                      (request cfg w r (r.offset + r.position) (r.offset + r.length)).r.requestedIndex.toNat 1 :=
                    Nat.lt_of_lt_of_le (List.count_pos_iff.2 a2) (sp.holds _ (1 : Int))
                  unfold cnt at hcnt
                  cases hf : find (request cfg w r (r.offset + r.position) (r.offset + r.length)).w.rs.pieces
                      (request cfg w r (r.offset + r.position) (r.offset + r.length)).r.requestedIndex.toNat with
                  | none => rw [hf] at hcnt; simp at hcnt
                  | some e => rw [hf] at hcnt; exact ⟨e, rfl, List.count_pos_iff.1 hcnt⟩
        · rename_i hblk
          try simp only [hblk] at ⊢
          split at hb
          · rename_i res heq; exact absurd hb (readEnd_fin_out _ _ _ _ _ heq c)
          · simp at hb
  | succ fuel ih =>
    unfold readFrom at hb ⊢
    split at hb
    · exact absurd hb (bail_noblock _ _ _ _ _)
    · rename_i hcan
      rw [if_neg hcan]
      obtain ⟨hs, hc⟩ := request_frame cfg w r (r.offset + r.position) (r.offset + r.length)
      have sp := request_spec cfg w r (r.offset + r.position) (r.offset + r.length) g hh hr
      have hp := request_nopanic cfg w r (r.offset + r.position) (r.offset + r.length) g
      simp only [hp, Bool.false_eq_true, if_false] at hb ⊢
      split at hb
      · simp at hb
      · rename_i herr
        try simp only [herr] at hb ⊢
        split at hb
        · rename_i c' hblk
          try simp only [hblk]
          split at hb
          · exact absurd hb (bail_noblock _ _ _ _ _)
          · rename_i hdead
            try rw [if_neg hdead]
            simp at hb; subst hb
            cases hq : (request cfg w r (r.offset + r.position) (r.offset + r.length)).ch with
            | none => rw [hq] at hblk; simp at hblk
            | some c2 =>
              rw [hq] at hblk
              simp only [] at hblk
              split at hblk
              · simp at hblk
              · rename_i hopen
                simp at hblk; subst hblk
                obtain ⟨a1, a2, a3, a4⟩ := sp.cached c2 hq
                refine ⟨?_, ?_, by simpa using hopen, by rw [sp.chEq, hq], sp.holds, sp.rinv⟩
                · show (request cfg w r (r.offset + r.position) (r.offset + r.length)).r.requestedIndex = _
                  rw [a4, hs.1, hc.1, hc.2.2.1]
                · have hcnt : 0 < cnt (request cfg w r (r.offset + r.position) (r.offset + r.length)).w.rs
                      (request cfg w r (r.offset + r.position) (r.offset + r.length)).r.requestedIndex.toNat 1 :=
                    Nat.lt_of_lt_of_le (List.count_pos_iff.2 a2) (sp.holds _ (1 : Int))
                  unfold cnt at hcnt
                  cases hf : find (request cfg w r (r.offset + r.position) (r.offset + r.length)).w.rs.pieces
                      (request cfg w r (r.offset + r.position) (r.offset + r.length)).r.requestedIndex.toNat with
                  | none => rw [hf] at hcnt; simp at hcnt
                  | some e => rw [hf] at hcnt; exact ⟨e, rfl, List.count_pos_iff.1 hcnt⟩
        · rename_i hblk
          try simp only [hblk] at ⊢
          split at hb
          · rename_i res heq; exact absurd hb (readEnd_fin_out _ _ _ _ _ heq c)
          · rename_i r' heq
            try simp only [heq]
            have e2 := readEnd_reset cfg _ _ n r' heq
            subst e2
            exact ih _ _ (g.same hs) sp.holds (by intro h; simp at h) hb

/-- **progress (b): a blocked Read is registered.**  Whenever `Read` parks — for every
    geometry, store, state of the requests and cached state of the reader that satisfies the
    reader's own invariants (`Holds`, `RInv`: both hold initially and are preserved by every
    reader operation, `C02_reader_invariants`) — the piece under the cursor (the `uint32`
    index the code computes, `C02_index_no_truncation`) is requested from the torrent with
    the reader's priority 1, and the channel it waits on is open and cached.  With
    `C10_open_channel_awaited`/`C10_done_wakes` that channel is the one the completion of
    that piece closes. -/
theorem C02_blocked_is_registered (cfg : Cfg) (w : World) (r : Rd) (n c : Nat) (g : Geom w)
    (hh : Holds w r) (hr : RInv r) (hb : (Reader.read cfg w r n).out = .block c) :
    Registered (Reader.read cfg w r n).w (Reader.read cfg w r n).r c := by
  unfold Reader.read at hb ⊢
  by_cases h1 : r.closed = true
  · rw [if_pos h1] at hb; simp at hb
  · rw [if_neg h1] at hb ⊢
    by_cases h2 : r.position ≥ r.length
    · rw [if_pos h2] at hb; exact absurd hb (bail_noblock _ _ _ _ _)
    · rw [if_neg h2] at hb ⊢
      exact readFrom_block readFuel cfg w r n c g hh hr hb

/-- the same when the continuation of a blocked Read parks again (stale notification, the
    piece evicted again before `ReadAt`: `Read` starts over and re-registers) -/
theorem C02_blocked_is_registered_wake (cfg : Cfg) (w : World) (r : Rd) (n c c' : Nat) (k : Wake)
    (g : Geom w) (hh : Holds w r) (hen : wakeEnabled w r c k = true)
    (hb : (wake cfg w r n c k).out = .block c') :
    Registered (wake cfg w r n c k).w (wake cfg w r n c k).r c' := by
  unfold wake at hb ⊢
  simp only [hen, Bool.not_true, Bool.false_eq_true, if_false] at hb ⊢
  cases k with
  | dead => exact absurd hb (bail_noblock _ _ _ _ _)
  | ctx => exact absurd hb (bail_noblock _ _ _ _ _)
  | done =>
    simp only [] at hb ⊢
    split at hb
    · rename_i res heq; exact absurd hb (readEnd_fin_out _ _ _ _ _ heq c')
    · rename_i r' heq
      have e2 := readEnd_reset cfg _ _ n r' heq
      subst e2
      exact readFrom_block readFuel cfg w _ n c' g hh (by intro h; simp at h) hb

/-! the reader's own invariants are preserved by everything it does -/

def Keeps (res : RdRes) : Prop := Holds res.w res.r ∧ RInv res.r

theorem bail_keeps (cfg : Cfg) (w : World) (r : Rd) (e : RErr) (g : Geom w) (hh : Holds w r)
    (hr : RInv r) : Keeps (bail cfg w r e) := by
  have sp := request_spec cfg w r (-1) (-1) g hh hr
  unfold bail; simp only []; split <;> exact ⟨sp.holds, sp.rinv⟩

theorem readEnd_keeps (cfg : Cfg) (w : World) (r : Rd) (n : Nat) (g : Geom w) (hh : Holds w r)
    (hr : RInv r) : ∀ res, readEnd cfg w r n = .fin res → Keeps res := by
  intro res h
  unfold readEnd at h
  simp only [] at h
  split at h
  · simp at h; subst h; exact ⟨hh, hr⟩
  · split at h
    · simp at h
    · split at h
      · have sp := request_spec cfg w r (-1) (-1) g hh hr
        split at h
        · simp at h; subst h; exact ⟨sp.holds, sp.rinv⟩
        · simp at h; subst h; exact ⟨sp.holds, sp.rinv⟩
      · simp at h; subst h; exact ⟨hh, hr⟩

theorem readFrom_keeps (fuel : Nat) (cfg : Cfg) (w : World) (r : Rd) (n : Nat) (g : Geom w)
    (hh : Holds w r) (hr : RInv r) : Keeps (readFrom fuel cfg w r n) := by
  induction fuel generalizing w r with
  | zero =>
    unfold readFrom
    split
    · exact bail_keeps cfg w r .ctx g hh hr
    · obtain ⟨hs, _⟩ := request_frame cfg w r (r.offset + r.position) (r.offset + r.length)
      have sp := request_spec cfg w r (r.offset + r.position) (r.offset + r.length) g hh hr
      have g' := g.same hs
      simp only []
      split
      · exact ⟨sp.holds, sp.rinv⟩
      · split
        · exact ⟨sp.holds, sp.rinv⟩
        · split
          · split
            · exact bail_keeps cfg _ _ .dead g' sp.holds sp.rinv
            · exact ⟨sp.holds, sp.rinv⟩
          · split
            · rename_i res heq; exact readEnd_keeps cfg _ _ n g' sp.holds sp.rinv res heq
            · rename_i r' heq
              have e2 := readEnd_reset cfg _ _ n r' heq
              subst e2
              exact ⟨sp.holds, by intro h; simp at h⟩
  | succ fuel ih =>
    unfold readFrom
    split
    · exact bail_keeps cfg w r .ctx g hh hr
    · obtain ⟨hs, _⟩ := request_frame cfg w r (r.offset + r.position) (r.offset + r.length)
      have sp := request_spec cfg w r (r.offset + r.position) (r.offset + r.length) g hh hr
      have g' := g.same hs
      simp only []
      split
      · exact ⟨sp.holds, sp.rinv⟩
      · split
        · exact ⟨sp.holds, sp.rinv⟩
        · split
          · split
            · exact bail_keeps cfg _ _ .dead g' sp.holds sp.rinv
            · exact ⟨sp.holds, sp.rinv⟩
          · split
            · rename_i res heq; exact readEnd_keeps cfg _ _ n g' sp.holds sp.rinv res heq
            · rename_i r' heq
              have e2 := readEnd_reset cfg _ _ n r' heq
              subst e2
              exact ih _ _ g' sp.holds (by intro h; simp at h)

/-- **reader invariants** (the registration half of C10's reader balance): after `Read`,
    after the continuation of a blocked `Read`, after `Seek` and after `Close`, every
    registration listed in `r.requested` is present in `Torrent.requested` (`Holds`) and the
    cached request is consistent (`RInv`).  Other consumers keep `Holds` as long as they only
    withdraw what they hold (`C10_priorities_balance`). -/
theorem C02_reader_invariants (cfg : Cfg) (w : World) (r : Rd) (g : Geom w) (hh : Holds w r)
    (hr : RInv r) :
    (∀ n, Keeps (Reader.read cfg w r n)) ∧
    (∀ n c k, Keeps (wake cfg w r n c k)) ∧
    (∀ o wh, Holds w (seek r o wh).1 ∧ RInv (seek r o wh).1) ∧
    (Holds (close cfg w r).1 (close cfg w r).2.1 ∧ RInv (close cfg w r).2.1) := by
  refine ⟨?_, ?_, ?_, ?_⟩
  · intro n
    unfold Reader.read
    split
    · exact ⟨hh, hr⟩
    · split
      · exact bail_keeps cfg w r .eof g hh hr
      · exact readFrom_keeps readFuel cfg w r n g hh hr
  · intro n c k
    unfold wake
    split
    · exact ⟨hh, hr⟩
    · cases k with
      | dead => exact bail_keeps cfg w r .dead g hh hr
      | ctx => exact bail_keeps cfg w r .ctx g hh hr
      | done =>
        simp only []
        split
        · rename_i res heq; exact readEnd_keeps cfg w r n g hh hr res heq
        · rename_i r' heq
          have e2 := readEnd_reset cfg _ _ n r' heq
          subst e2
          exact readFrom_keeps readFuel cfg w _ n g hh (by intro h; simp at h)
  · intro o wh
    unfold seek
    split
    · exact ⟨hh, hr⟩
    · split
      · exact ⟨hh, hr⟩
      · split <;> exact ⟨hh, hr⟩
  · unfold close
    split
    · exact ⟨hh, hr⟩
    · have sp := request_spec cfg w r (-1) (-1) g hh hr
      exact ⟨sp.holds, sp.rinv⟩

theorem readAt_avail (w : World) (g : Geom w) (m a : Nat) (hm : 0 < m) (ha : a < w.total)
    (hb : storeByte w a ≠ none) : ∃ bs, readAt w m (a : Int) = .ok bs false ∧ 1 ≤ bs.length := by
  obtain ⟨hps, _, _⟩ := g
  unfold storeByte at hb
  unfold readAt
  have h0 : ¬ ((a : Int) ≥ (w.total : Int)) := by omega
  have hps' : ¬ w.ps = 0 := by omega
  rw [if_neg h0, if_neg hps']
  have hdiv : Int.tdiv (a : Int) (w.ps : Int) = ((a / w.ps : Nat) : Int) := by simp [Int.tdiv]
  have hmod : Int.tmod (a : Int) (w.ps : Int) = ((a % w.ps : Nat) : Int) := by simp [Int.tmod]
  simp only [hdiv, hmod]
  have h1 : ¬ ((a / w.ps : Nat) : Int) < 0 := by have := Int.natCast_nonneg (a / w.ps); omega
  rw [if_neg h1]
  simp only [Int.toNat_natCast]
  split at hb
  · rename_i d hd
    rw [hd]
    simp only []
    have hlt : a % w.ps < d.length := by
      cases Nat.lt_or_ge (a % w.ps) d.length with
      | inl h => exact h
      | inr hge => rw [List.getElem?_eq_none hge] at hb; simp at hb
    have h2 : ¬ ((d.length : Int) ≤ ((a % w.ps : Nat) : Int)) := by omega
    have h3 : ¬ (((a % w.ps : Nat) : Int) < 0) := by have := Int.natCast_nonneg (a % w.ps); omega
    rw [if_neg h2, if_neg h3]
    refine ⟨_, rfl, ?_⟩
    simp [List.length_take]
    omega
  · simp at hb

/-- **progress (a) / wake.**  A `Read` parked on channel `c` whose piece has meanwhile been
    verified and is still in memory (the store holds the byte under the cursor), once `c` is
    closed (`C10_no_lost_wakeup`: the `TorHave` of that verification is in flight, and
    handling it closes `c`, `C10_done_wakes`) returns at least one byte — the exact bytes by
    `C02_bytes_exact_wake`. -/
theorem C02_progress_wake (cfg : Cfg) (w : World) (r : Rd) (n c : Nat) (g : Geom w)
    (hn : 0 < n) (hoff : 0 ≤ r.offset + r.position) (hpos : r.position < r.length)
    (hin : r.offset + r.position < w.total)
    (hclosed : isClosed w.rs c = true)
    (hbyte : storeByte w (r.offset + r.position).toNat ≠ none) :
    ∃ bs err, (wake cfg w r n c .done).out = .ret bs err ∧ 1 ≤ bs.length := by
  obtain ⟨a, ha⟩ := Int.eq_ofNat_of_zero_le hoff
  unfold wake
  simp only [wakeEnabled, hclosed, Bool.not_true, Bool.false_eq_true, if_false]
  unfold readEnd
  simp only []
  generalize hm : (if r.position + ↑n < r.length then n else (r.length - r.position).toNat) = m
  have hmpos : 0 < m := by subst hm; split <;> omega
  rw [ha] at hbyte ⊢
  simp only [Int.toNat_natCast] at hbyte
  obtain ⟨bs, hra, hlen⟩ := readAt_avail w g m a hmpos (by omega) hbyte
  rw [hra]
  simp only []
  have hz : ¬ (bs.length = 0 ∧ True ∧ n > 0) := by omega
  rw [if_neg hz]
  have hp := request_nopanic cfg w r (-1) (-1) g
  by_cases he : (false || decide ((bs.length : Int) = r.length - r.position)) = true
  · rw [if_pos he]
    simp only [hp, Bool.false_eq_true, if_false]
    exact ⟨bs, some .eof, rfl, hlen⟩
  · rw [if_neg he]
    exact ⟨bs, none, rfl, hlen⟩

/-- **the window.**  Whenever `Reader.request` leaves its cache (the cursor entered another
    piece, or the cache was dropped) and its first request succeeds, what the reader holds
    registered afterwards is exactly the window `Reader.chunks` computes from the position,
    the prefetch parameters, the piece size and the limit, minus the pieces that need no
    request (already complete, beyond the hash table, torrent dead): nothing else, nothing
    missing.  The shape of that window is `chunks_spec`: it starts with the cursor's piece at
    priority 1, every other entry has priority 0 (aggressive prefetch) or -1. -/
theorem C02_window_exact (cfg : Cfg) (w : World) (r : Rd) (pos limit : Int) (g : Geom w)
    (hh : Holds w r) (l : List (Nat × Int)) (hl : chunks cfg w.ps pos limit = some l)
    (hok : (requestSlow false cfg w r pos limit).err = none) :
    (requestSlow false cfg w r pos limit).r.requested = l.filter (fun c => regB w c.1) ∧
    ((l = [] ∧ (pos < 0 ∨ pos > limit)) ∨
     (0 ≤ pos ∧ pos ≤ limit ∧ ∃ rest, l = (cacheIndex w.ps pos, 1) :: rest ∧
        ∀ c ∈ rest, c.2 = 0 ∨ c.2 = -1)) := by
  refine ⟨(requestSlow_spec false cfg w r pos limit g hh).window l hl hok, ?_⟩
  rcases chunks_spec cfg w.ps pos limit l hl with h | ⟨p1, p2, rest, h1, h2⟩
  · exact Or.inl h
  · right
    refine ⟨p1, p2, rest, ?_, h2⟩
    obtain ⟨a, ha⟩ := Int.eq_ofNat_of_zero_le p1
    rw [h1, ha, cacheIndex_nat]; simp

/-- **no harmful truncation.**  The code computes the piece index as `uint32(pos / ps)`.
    Inside a torrent whose piece table has at most 2^32 entries (what `MetadataComplete`
    accepts: the chunk count must fit `uint32`) the conversion loses nothing, for offsets of
    any magnitude (≥ 2^32 included) and any piece size: the index is `pos / ps`. -/
theorem C02_index_no_truncation (w : World) (g : Geom w) (hn : w.data.length ≤ 4294967296)
    (pos : Int) (h0 : 0 ≤ pos) (hlt : pos < w.total) :
    cacheIndex w.ps pos = pos.toNat / w.ps := by
  obtain ⟨a, ha⟩ := Int.eq_ofNat_of_zero_le h0
  obtain ⟨hps, _, htot⟩ := g
  rw [ha, cacheIndex_nat]
  simp
  have : a / w.ps < w.data.length := by
    apply (Nat.div_lt_iff_lt_mul hps).2; omega
  omega

/-- **short reads.**  `Read` hands its (clipped) buffer to one `ReadAt`; a non-empty result
    shorter than the buffer ends exactly at the end of the cursor piece's data: reads are cut
    only by the buffer, the window (`C02_bytes_exact`) and the piece boundary. -/
theorem C02_short_read (w : World) (g : Geom w) (m a : Nat) (bs : Bytes)
    (h : readAt w m (a : Int) = .ok bs false) (hne : bs ≠ []) :
    ∃ d, w.data[a / w.ps]? = some (some d) ∧ bs.length = min m (d.length - a % w.ps) := by
  obtain ⟨hps, _, _⟩ := g
  unfold readAt at h
  split at h
  · simp at h
  · have hps' : ¬ w.ps = 0 := by omega
    rw [if_neg hps'] at h
    have hdiv : Int.tdiv (a : Int) (w.ps : Int) = ((a / w.ps : Nat) : Int) := by simp [Int.tdiv]
    have hmod : Int.tmod (a : Int) (w.ps : Int) = ((a % w.ps : Nat) : Int) := by simp [Int.tmod]
    simp only [hdiv, hmod] at h
    have h1 : ¬ ((a / w.ps : Nat) : Int) < 0 := by have := Int.natCast_nonneg (a / w.ps); omega
    rw [if_neg h1] at h
    simp only [Int.toNat_natCast] at h
    split at h
    · simp at h
    · simp at h; exact absurd h hne
    · rename_i d hd
      split at h
      · simp at h; exact absurd h hne
      · split at h
        · simp at h
        · simp at h
          subst h
          exact ⟨d, hd, by simp [List.length_take]⟩

/-- the hypothesis `offset ≥ 0` of `C02_no_panic` is necessary: `ReadAt` at a negative
    offset indexes piece 0 with a negative start when that piece is complete (Go: slice
    bounds out of range).  `NewReader` accepts any offset; its two callers (`http.file`,
    `fuse.Open`) pass file offsets of the torrent's file table, which are ≥ 0. -/
theorem C02_negative_offset_faults :
    readAt { ps := 4, total := 10, numHashes := 3, data := [some [1, 2, 3, 4], none, none] } 1 (-1)
      = .panic := by decide

/-! non-vacuity: a store with a complete piece satisfies `PieceFits`, and a window inside it
    satisfies the hypotheses of `C02_bytes_exact` / `C02_eof_exact` -/
example : PieceFits { ps := 4, total := 10, numHashes := 3, data := [some [1, 2, 3, 4], none, none] } := by
  intro i d h
  match i with
  | 0 => simp at h; subst h; decide
  | 1 => simp at h
  | 2 => simp at h
  | k + 3 => simp at h
example : storeByte { ps := 4, total := 10, numHashes := 3, data := [some [1, 2, 3, 4], none, none] } 2 = some 3 := by
  decide
example : ∃ r : Rd, 0 ≤ r.offset ∧ 0 ≤ r.position ∧ r.offset + r.length ≤ (10 : Nat) ∧ r.position < r.length :=
  ⟨{ offset := 1, length := 5 }, by decide, by decide, by decide, by decide⟩


/-! non-vacuity for the history theorems, the progress theorems and the window -/
example : Geom { ps := 4, total := 10, numHashes := 3, data := [some [1, 2, 3, 4], none, none] } := by
  refine ⟨by decide, by decide, by decide⟩
example : DataOK (fun _ _ => True) 4 [some [1, 2, 3, 4], none, none] := by
  intro i d h
  match i with
  | 0 => simp at h; subst h; exact ⟨by decide, fun _ _ => trivial⟩
  | 1 => simp at h
  | 2 => simp at h
  | k + 3 => simp at h
/-- a fresh reader satisfies the reader invariants in any world -/
example (w : World) (off len : Int) : Holds w { offset := off, length := len } ∧ RInv { offset := off, length := len } :=
  ⟨by intro j q; simp, by intro h; simp at h⟩
/-- a valid history with every kind of operation, including an environment step that evicts
    the piece and kills the torrent -/
example (cfg : Cfg) (s : HState) : ValidRun (fun _ _ => True) cfg s
    [.read 10, .seek (-3) 2, .setContext true, .wake .ctx, .env (List.replicate s.w.data.length none) {} true,
     .close, .close, .read 0] := by
  have hnone : ∀ (n ps : Nat), DataOK (fun _ _ => True) ps (List.replicate n none) := by
    intro n ps i d h
    rw [List.getElem?_replicate] at h
    split at h <;> simp at h
  repeat' first
    | exact ValidRun.nil _
    | apply ValidRun.cons
  all_goals first
    | (intro data rs dead h; cases h; exact hnone _ _)
    | (intro data rs dead h; cases h)
example : chunks { pf := fun _ => 1, aggr := fun _ => false } 4 (-1) (-1) = some [] := by simp [chunks]

end Storrent.Props.C02
