import Storrent.Model.Reader
import Storrent.Lemmas.Reader
/-
C02 — A Reader is an exact, live view of its byte range.

Theorems about Model/Reader.lean (the repaired tor/reader.go, `Torrent.Request`,
`Pieces.ReadAt`), tied to the real code by the `rd …` correspondence stream of
harness/cmd/c02 (real event loop, real http handler).  "The store's verified byte" is
`storeByte`: the byte a complete (hash-verified) piece holds at a torrent offset; that it
equals the torrent's true content is C01 (`Pieces.Finalise` accepts only data whose SHA-1
is the torrent's piece hash).
-/
namespace Storrent.Props.C02
open Storrent Storrent.Requested Storrent.Reader

/-- the byte at torrent offset `x` if its piece is complete -/
def storeByte (w : World) (x : Nat) : Option UInt8 :=
  match w.data[x / w.ps]? with
  | some (some d) => d[x % w.ps]?
  | _ => none

/-- geometry: a piece's buffer is never longer than the piece size (`AddData` allocates
    `PieceLength(index) ≤ pieceSize`) -/
def PieceFits (w : World) : Prop :=
  ∀ (i : Nat) (d : Bytes), w.data[i]? = some (some d) → d.length ≤ w.ps

theorem div_mod_shift (a p k : Nat) (hp : 0 < p) (h : a % p + k < p) :
    (a + k) / p = a / p ∧ (a + k) % p = a % p + k := by
  have h1 : a + k = p * (a / p) + (a % p + k) := by
    have := Nat.div_add_mod a p; omega
  rw [h1]
  constructor
  · rw [Nat.mul_add_div hp, Nat.div_eq_of_lt h]; simp
  · rw [Nat.mul_add_mod, Nat.mod_eq_of_lt h]

/-- `Pieces.ReadAt` returns at most `m` bytes, each the store's byte at its offset -/
theorem readAt_exact (w : World) (hfit : PieceFits w) (m a : Nat) (bs : Bytes) (eof : Bool)
    (h : readAt w m (a : Int) = .ok bs eof) :
    bs.length ≤ m ∧ (eof = true → bs = []) ∧
    ∀ k (hk : k < bs.length), storeByte w (a + k) = some bs[k] := by
  unfold readAt at h
  split at h
  · simp at h; obtain ⟨h1, h2⟩ := h; subst h1; simp
  · split at h
    · simp at h
    · rename_i hps
      have hps' : 0 < w.ps := Nat.pos_of_ne_zero hps
      have hdiv : Int.tdiv (a : Int) (w.ps : Int) = ((a / w.ps : Nat) : Int) := by
        simp [Int.tdiv]
      have hmod : Int.tmod (a : Int) (w.ps : Int) = ((a % w.ps : Nat) : Int) := by
        simp [Int.tmod]
      simp only [hdiv, hmod] at h
      split at h
      · simp at h
      · simp only [Int.toNat_natCast] at h
        split at h
        · simp at h
        · simp at h; obtain ⟨h1, h2⟩ := h; subst h1; simp
        · rename_i d hd
          split at h
          · simp at h; obtain ⟨h1, h2⟩ := h; subst h1; simp
          · split at h
            · simp at h
            · rename_i hlen _
              simp at h
              obtain ⟨h1, h2⟩ := h
              subst h1
              refine ⟨by simp [List.length_take]; omega, by intro he; rw [he] at h2; simp at h2, ?_⟩
              intro k hk
              simp [List.length_take] at hk
              have hfd := hfit _ d hd
              have hlen' : a % w.ps < d.length := by omega
              obtain ⟨e1, e2⟩ := div_mod_shift a w.ps k hps' (by omega)
              unfold storeByte
              rw [e1, hd]
              simp only [e2]
              simp [List.getElem_take, List.getElem_drop]


theorem storeByte_same {w w' : World} (h : SameStore w w') (x : Nat) :
    storeByte w' x = storeByte w x := by
  obtain ⟨h1, _, _, h4, _, _⟩ := h
  unfold storeByte; rw [h1, h4]

theorem pieceFits_same {w w' : World} (h : SameStore w w') (hf : PieceFits w) : PieceFits w' := by
  obtain ⟨h1, _, _, h4, _, _⟩ := h
  intro i d hd; rw [h4] at hd; rw [h1]; exact hf i d hd

/-- what a call of `Read` (or its continuation after the wait) guarantees, relative to the
    reader `r` and the store `w` it started from -/
structure Exact (w : World) (r : Rd) (n : Nat) (res : RdRes) : Prop where
  store : SameStore w res.w
  off : res.r.offset = r.offset
  len : res.r.length = r.length
  ret : ∀ bs err, res.out = .ret bs err →
    bs.length ≤ n ∧ res.r.position = r.position + bs.length ∧
    (bs ≠ [] → r.position + bs.length ≤ r.length) ∧
    (∀ k (hk : k < bs.length), storeByte w ((r.offset + r.position).toNat + k) = some bs[k]) ∧
    (err = some .eof → r.length ≤ res.r.position ∨ (w.total : Int) ≤ r.offset + r.position) ∧
    (err = none → res.r.position < r.length ∧ (n > 0 → bs ≠ []))
  blk : ∀ c, res.out = .block c → res.r.position = r.position

theorem bail_exact (cfg : Cfg) (w : World) (r : Rd) (n : Nat) (e : RErr)
    (he : e = .eof → r.length ≤ r.position) : Exact w r n (bail cfg w r e) := by
  obtain ⟨hs, h1, h2, h3, _, _⟩ := request_frame cfg w r (-1) (-1)
  unfold bail
  simp only []
  split
  · exact ⟨hs, h1, h2, by intro bs err h; simp at h, by intro c h; simp at h⟩
  · refine ⟨hs, h1, h2, ?_, by intro c h; simp at h⟩
    intro bs err h
    simp at h
    obtain ⟨hb, herr⟩ := h
    subst hb
    refine ⟨by simp, by simp [h3], by simp, by intro k hk; simp at hk, ?_, ?_⟩
    · intro h; rw [← herr] at h; simp at h; left; rw [h3]; exact he h
    · intro h; rw [← herr] at h; simp at h

theorem readAt_eof_beyond (w : World) (m : Nat) (off : Int) (bs : Bytes)
    (h : readAt w m off = .ok bs true) : (w.total : Int) ≤ off := by
  unfold readAt at h
  split at h
  · assumption
  · exfalso
    split at h
    · simp at h
    · simp only [] at h
      split at h
      · simp at h
      · split at h
        · simp at h
        · simp at h
        · split at h
          · simp at h
          · split at h <;> simp at h

theorem readEnd_exact (cfg : Cfg) (w : World) (r : Rd) (n : Nat) (hfit : PieceFits w)
    (hoff : 0 ≤ r.offset + r.position) (hpos : r.position < r.length) :
    (∀ res, readEnd cfg w r n = .fin res → Exact w r n res) ∧
    (∀ r', readEnd cfg w r n = .again r' → r' = { r with requestedIndex := -1 }) := by
  unfold readEnd
  simp only []
  obtain ⟨a, ha⟩ := Int.eq_ofNat_of_zero_le hoff
  generalize hm : (if r.position + ↑n < r.length then n else (r.length - r.position).toNat) = m
  have hmn : m ≤ n := by subst hm; split <;> omega
  have hml : r.position + m ≤ r.length := by subst hm; split <;> omega
  rw [ha]
  cases hra : readAt w m (a : Int) with
  | panic =>
    simp only []
    constructor
    · intro res h; simp at h; subst h
      exact ⟨SameStore.refl w, rfl, rfl, by intro bs err h; simp at h, by intro c h; simp at h⟩
    · intro r' h; simp at h
  | ok bs eof =>
    simp only []
    obtain ⟨hlen, heof, hbytes⟩ := readAt_exact w hfit m a bs eof hra
    by_cases hz : bs.length = 0 ∧ eof = false ∧ n > 0
    · rw [if_pos hz]
      constructor
      · intro res h; simp at h
      · intro r' h; simp at h; exact h.symm
    · rw [if_neg hz]
      by_cases hiseof : (eof || decide ((bs.length : Int) = r.length - r.position)) = true
      · rw [if_pos hiseof]
        obtain ⟨hs, h1, h2, h3, _, _⟩ := request_frame cfg w r (-1) (-1)
        constructor
        · intro res h
          by_cases hp : (request cfg w r (-1) (-1)).panic = true
          · rw [if_pos hp] at h; simp at h; subst h
            exact ⟨hs, h1, h2, by intro bs err h; simp at h, by intro c h; simp at h⟩
          · rw [if_neg hp] at h; simp at h; subst h
            refine ⟨hs, h1, h2, ?_, by intro c h; simp at h⟩
            intro bs' err h
            simp at h
            obtain ⟨hb, herr⟩ := h
            subst hb
            refine ⟨by omega, by simp [h3], by intro _; omega, ?_, ?_, ?_⟩
            · intro k hk; rw [ha]; simp; exact hbytes k hk
            · intro _
              simp at hiseof
              rcases hiseof with h | h
              · right; subst h; rw [ha]; exact readAt_eof_beyond w m a bs hra
              · left; simp [h3]; omega
            · intro h; rw [← herr] at h; simp at h
        · intro r' h; split at h <;> simp at h
      · rw [if_neg hiseof]
        constructor
        · intro res h; simp at h; subst h
          refine ⟨SameStore.refl w, rfl, rfl, ?_, by intro c h; simp at h⟩
          intro bs' err h
          simp at h
          obtain ⟨hb, herr⟩ := h
          subst hb
          simp at hiseof
          refine ⟨by omega, rfl, by intro _; omega, ?_, ?_, ?_⟩
          · intro k hk; rw [ha]; simp; exact hbytes k hk
          · intro h; rw [← herr] at h; simp at h
          · intro _
            constructor
            · simp; have := hiseof.2; omega
            · intro hn hbe
              apply hz
              subst hbe
              exact ⟨rfl, hiseof.1, hn⟩
        · intro r' h; simp at h


theorem exact_of_frame {w w' : World} {r r' : Rd} {n : Nat} {res : RdRes}
    (hs : SameStore w w') (hc : SameCursor r r') (h : Exact w' r' n res) : Exact w r n res := by
  obtain ⟨c1, c2, c3, _, _⟩ := hc
  refine ⟨hs.trans h.store, h.off.trans c1, h.len.trans c2, ?_, ?_⟩
  · intro bs err hout
    obtain ⟨a1, a2, a3, a4, a5, a6⟩ := h.ret bs err hout
    rw [c1, c2, c3] at *
    refine ⟨a1, a2, a3, ?_, ?_, a6⟩
    · intro k hk; rw [← storeByte_same hs]; exact a4 k hk
    · intro he; rw [← hs.2.1]; exact a5 he
  · intro c hout; rw [h.blk c hout, c3]

theorem exact_reset {w : World} {r : Rd} {n : Nat} {res : RdRes}
    (h : Exact w { r with requestedIndex := -1 } n res) : Exact w r n res :=
  exact_of_frame (SameStore.refl w) (r := r) (r' := { r with requestedIndex := -1 })
    ⟨rfl, rfl, rfl, rfl, rfl⟩ h

theorem readFrom_exact (fuel : Nat) (cfg : Cfg) (w : World) (r : Rd) (n : Nat) (hfit : PieceFits w)
    (hoff : 0 ≤ r.offset + r.position) (hpos : r.position < r.length) :
    Exact w r n (readFrom fuel cfg w r n) := by
  induction fuel generalizing w r with
  | zero =>
    unfold readFrom
    split
    · exact bail_exact cfg w r n .ctx (by simp)
    · obtain ⟨hs, hc⟩ := request_frame cfg w r (r.offset + r.position) (r.offset + r.length)
      simp only []
      split
      · exact ⟨hs, hc.1, hc.2.1, by intro bs err h; simp at h, by intro c h; simp at h⟩
      · split
        · refine ⟨hs, hc.1, hc.2.1, ?_, by intro c h; simp at h⟩
          intro bs err h; simp at h
          obtain ⟨hb, herr⟩ := h; subst hb
          refine ⟨by simp, by simp [hc.2.2.1], by simp, by intro k hk; simp at hk, ?_, ?_⟩
          · intro h; rw [← herr] at h; simp at h
          · intro h; rw [← herr] at h; simp at h
        · split
          · split
            · exact exact_of_frame hs hc (bail_exact cfg _ _ n .dead (by simp))
            · exact ⟨hs, hc.1, hc.2.1, by intro bs err h; simp at h,
                by intro c h; exact hc.2.2.1⟩
          · have hfit' := pieceFits_same hs hfit
            have hoff' : 0 ≤ (request cfg w r (r.offset + r.position) (r.offset + r.length)).r.offset +
                (request cfg w r (r.offset + r.position) (r.offset + r.length)).r.position := by
              rw [hc.1, hc.2.2.1]; exact hoff
            have hpos' : (request cfg w r (r.offset + r.position) (r.offset + r.length)).r.position <
                (request cfg w r (r.offset + r.position) (r.offset + r.length)).r.length := by
              rw [hc.2.1, hc.2.2.1]; exact hpos
            obtain ⟨e1, e2⟩ := readEnd_exact cfg _ _ n hfit' hoff' hpos'
            split
            · rename_i res heq; exact exact_of_frame hs hc (e1 res heq)
            · rename_i r' heq
              have := e2 r' heq
              subst this
              exact ⟨hs, hc.1, hc.2.1, by intro bs err h; simp at h, by intro c h; simp at h⟩
  | succ fuel ih =>
    unfold readFrom
    split
    · exact bail_exact cfg w r n .ctx (by simp)
    · obtain ⟨hs, hc⟩ := request_frame cfg w r (r.offset + r.position) (r.offset + r.length)
      simp only []
      split
      · exact ⟨hs, hc.1, hc.2.1, by intro bs err h; simp at h, by intro c h; simp at h⟩
      · split
        · refine ⟨hs, hc.1, hc.2.1, ?_, by intro c h; simp at h⟩
          intro bs err h; simp at h
          obtain ⟨hb, herr⟩ := h; subst hb
          refine ⟨by simp, by simp [hc.2.2.1], by simp, by intro k hk; simp at hk, ?_, ?_⟩
          · intro h; rw [← herr] at h; simp at h
          · intro h; rw [← herr] at h; simp at h
        · split
          · split
            · exact exact_of_frame hs hc (bail_exact cfg _ _ n .dead (by simp))
            · exact ⟨hs, hc.1, hc.2.1, by intro bs err h; simp at h,
                by intro c h; exact hc.2.2.1⟩
          · have hfit' := pieceFits_same hs hfit
            have hoff' : 0 ≤ (request cfg w r (r.offset + r.position) (r.offset + r.length)).r.offset +
                (request cfg w r (r.offset + r.position) (r.offset + r.length)).r.position := by
              rw [hc.1, hc.2.2.1]; exact hoff
            have hpos' : (request cfg w r (r.offset + r.position) (r.offset + r.length)).r.position <
                (request cfg w r (r.offset + r.position) (r.offset + r.length)).r.length := by
              rw [hc.2.1, hc.2.2.1]; exact hpos
            obtain ⟨e1, e2⟩ := readEnd_exact cfg _ _ n hfit' hoff' hpos'
            split
            · rename_i res heq; exact exact_of_frame hs hc (e1 res heq)
            · rename_i r' heq
              have := e2 r' heq
              subst this
              apply exact_of_frame hs hc
              apply exact_reset
              exact ih _ _ hfit' hoff' hpos'

/-- **bytes exact / EOF exact.**  For every store, every reader window, every cursor inside
    it, every buffer length and every state of the requests: whatever `Read` returns
    * is at most `n` bytes and does not go beyond the window (`position + k ≤ length`),
    * byte `k` is the store's verified byte at torrent offset `offset + position + k`,
    * the cursor advances by exactly the bytes returned, the window never changes,
    * EOF is reported only when the cursor has reached `length` (or the offset is outside
      the torrent), and a `nil` error means the cursor is still before `length` and — for a
      non-empty buffer — at least one byte was returned (never `(0, nil)`). -/
theorem C02_bytes_exact (cfg : Cfg) (w : World) (r : Rd) (n : Nat) (hfit : PieceFits w)
    (hoff : 0 ≤ r.offset) (hp : 0 ≤ r.position) : Exact w r n (Reader.read cfg w r n) := by
  unfold Reader.read
  split
  · exact ⟨SameStore.refl w, rfl, rfl, by
      intro bs err h; simp at h; obtain ⟨hb, herr⟩ := h; subst hb
      refine ⟨by simp, by simp, by simp, by intro k hk; simp at hk, ?_, ?_⟩
      · intro h; rw [← herr] at h; simp at h
      · intro h; rw [← herr] at h; simp at h, by intro c h; simp at h⟩
  · split
    · rename_i hge; exact bail_exact cfg w r n .eof (fun _ => hge)
    · rename_i hlt; exact readFrom_exact readFuel cfg w r n hfit (by omega) (by omega)

/-- the same for the continuation of a `Read` that was blocked, whichever alternative of
    the `select` fires and whatever happened to the store and the requests meanwhile -/
theorem C02_bytes_exact_wake (cfg : Cfg) (w : World) (r : Rd) (n c : Nat) (k : Wake)
    (hfit : PieceFits w) (hoff : 0 ≤ r.offset + r.position) (hpos : r.position < r.length) :
    Exact w r n (wake cfg w r n c k) := by
  unfold wake
  split
  · exact ⟨SameStore.refl w, rfl, rfl, by intro bs err h; simp at h, by intro c h; rfl⟩
  · cases k with
    | dead => exact bail_exact cfg w r n .dead (by simp)
    | ctx => exact bail_exact cfg w r n .ctx (by simp)
    | done =>
      simp only []
      obtain ⟨e1, e2⟩ := readEnd_exact cfg w r n hfit hoff hpos
      split
      · rename_i res heq; exact e1 res heq
      · rename_i r' heq
        have := e2 r' heq
        subst this
        exact exact_reset (readFrom_exact readFuel cfg w _ n hfit hoff hpos)

/-- **EOF exactly at length**, for a reader inside the torrent: `Read` reports EOF if and only
    if afterwards the cursor is at (or was already beyond) `length`. -/
theorem C02_eof_exact (cfg : Cfg) (w : World) (r : Rd) (n : Nat) (hfit : PieceFits w)
    (hoff : 0 ≤ r.offset) (hp : 0 ≤ r.position) (hin : r.offset + r.length ≤ w.total)
    (bs : Bytes) (err : Option RErr) (h : (Reader.read cfg w r n).out = .ret bs err)
    (hnoerr : err = none ∨ err = some .eof) :
    (err = some .eof ↔ r.length ≤ (Reader.read cfg w r n).r.position) := by
  have hx := C02_bytes_exact cfg w r n hfit hoff hp
  obtain ⟨a1, a2, a3, a4, a5, a6⟩ := hx.ret bs err h
  constructor
  · intro he
    rcases a5 he with h1 | h1
    · exact h1
    · rw [a2]; omega
  · intro hle
    rcases hnoerr with h1 | h1
    · have := (a6 h1).1; omega
    · exact h1

/-- **Seek** never moves the cursor below 0, `SeekEnd` is relative to `length`, a rejected
    seek leaves the cursor where it was. -/
theorem C02_seek (r : Rd) (o : Int) (whence : Nat) (hp : 0 ≤ r.position) :
    0 ≤ (seek r o whence).1.position ∧
    ((seek r o whence).2.2 ≠ none → (seek r o whence).1 = r ∧ (seek r o whence).2.1 = r.position) ∧
    ((seek r o whence).2.2 = none →
      (seek r o whence).2.1 = (seek r o whence).1.position ∧
      (whence = 0 → (seek r o whence).1.position = o) ∧
      (whence = 1 → (seek r o whence).1.position = r.position + o) ∧
      (whence = 2 → (seek r o whence).1.position = r.length + o)) := by
  unfold seek
  split
  · simp [hp]
  · match whence with
    | 0 => simp only []; split <;> simp_all <;> omega
    | 1 => simp only []; split <;> simp_all <;> omega
    | 2 => simp only []; split <;> simp_all <;> omega
    | k + 3 => simp [hp]

/-- **withdraw** (C10 `reader_balance`, second half): after `Close`, after EOF, after a
    cancellation and after the torrent died — every exit of `Read` through `bail`, and
    `Close` — the reader holds no priority and no cached request. -/
theorem C02_withdraw (cfg : Cfg) (w : World) (r : Rd) (e : RErr) :
    (bail cfg w r e).r.requested = [] ∧ (bail cfg w r e).r.requestedIndex = -1 ∧
    (r.closed = false → (close cfg w r).2.1.requested = []) := by
  obtain ⟨h1, h2, _, _⟩ := request_withdraw cfg w r
  refine ⟨?_, ?_, ?_⟩
  · unfold bail; simp only []; split <;> exact h1
  · unfold bail; simp only []; split <;> exact h2
  · intro hc; unfold close; simp [hc, h1]

/-- **progress (c).**  A blocked `Read` is enabled as soon as the context is cancelled or the
    torrent's `Done` is closed, and then returns the corresponding error with no data. -/
theorem C02_progress_cancel (cfg : Cfg) (w : World) (r : Rd) (n c : Nat) :
    (r.cancelled = true → (wake cfg w r n c .ctx).out = .ret [] (some .ctx) ∨
                          (wake cfg w r n c .ctx).out = .panic) ∧
    (w.dead = true → (wake cfg w r n c .dead).out = .ret [] (some .dead) ∨
                     (wake cfg w r n c .dead).out = .panic) := by
  constructor
  · intro h; unfold wake; simp [wakeEnabled, h]; unfold bail; simp only []; split <;> simp
  · intro h; unfold wake; simp [wakeEnabled, h]; unfold bail; simp only []; split <;> simp


/-! non-vacuity: a store with a complete piece satisfies `PieceFits`, and a window inside it
    satisfies the hypotheses of `C02_bytes_exact` / `C02_eof_exact` -/
example : PieceFits { ps := 4, total := 10, numHashes := 3, data := [some [1, 2, 3, 4], none, none] } := by
  intro i d h
  match i with
  | 0 => simp at h; subst h; decide
  | 1 => simp at h
  | 2 => simp at h
  | k + 3 => simp at h
example : storeByte { ps := 4, total := 10, numHashes := 3, data := [some [1, 2, 3, 4], none, none] } 2 = some 3 := by
  decide
example : ∃ r : Rd, 0 ≤ r.offset ∧ 0 ≤ r.position ∧ r.offset + r.length ≤ (10 : Nat) ∧ r.position < r.length :=
  ⟨{ offset := 1, length := 5 }, by decide, by decide, by decide, by decide⟩

end Storrent.Props.C02
