import Storrent.Props.C20
import Storrent.Props.C13
/-
C20 for "every torrent MetadataComplete accepts": `C13_paths_wellformed` (Props/C13, about
the model of Torrent.MetadataComplete as repaired) shows that every accepted metadata
yields a name and a file table satisfying `nameOK` / `WFfiles`; the C20 theorems then hold
without a well-formedness hypothesis.
-/
namespace Storrent.NS
open Storrent Storrent.Http

def ofGFile (f : Meta.GFile) : File := ⟨f.path, f.offset, f.length, f.padding⟩

/-- what the front-ends see of a torrent whose metadata `MetadataComplete` accepted
    (`Torrent.Files` is nil exactly when no file entry was appended) -/
def ofGeom (hash : Str) (g : Meta.Geom) : Torrent :=
  ⟨hash, g.name, true, if g.files.isEmpty then none else some (g.files.map ofGFile), g.length⟩

theorem validComponent_compOK {c : Str} (h : Meta.validComponent c = true) : compOK c = true := by
  obtain ⟨h1, h2, _, _⟩ := Meta.validComponent_spec h
  apply (compOK_iff c).mpr
  refine ⟨h1, fun hm => ?_⟩
  rw [List.contains_iff_mem.mpr hm] at h2
  cases h2

theorem WFfiles_ofGeom {psLen : Int} {bi : Meta.BInfo} {g : Meta.Geom}
    (h : Meta.metadataComplete psLen bi = .ok g) : WFfiles (g.files.map ofGFile) := by
  obtain ⟨_, hne, hcomp, hdist, hpre⟩ := Meta.C13_paths_wellformed h
  refine ⟨?_, ?_, ?_, ?_⟩
  · intro f hf
    obtain ⟨gf, hg, rfl⟩ := List.mem_map.mp hf
    exact hne gf hg
  · intro f hf c hc
    obtain ⟨gf, hg, rfl⟩ := List.mem_map.mp hf
    exact validComponent_compOK (hcomp gf hg c hc)
  · rw [List.pairwise_map]
    exact hdist
  · intro f hf k hk hp
    obtain ⟨gf, hg, rfl⟩ := List.mem_map.mp hf
    obtain ⟨gk, hgk, rfl⟩ := List.mem_map.mp hk
    exact hpre gf hg gk hgk hp

/-- every torrent the metadata validation accepts is accepted by the namespace model, and
    its file table is well formed -/
theorem C20_accepted_wellformed {psLen : Int} {bi : Meta.BInfo} {g : Meta.Geom} (hash : Str)
    (h : Meta.metadataComplete psLen bi = .ok g) :
    accepts (ofGeom hash g) = true ∧
    ∀ fs, (ofGeom hash g).files = some fs → WFfiles fs := by
  have hwf := WFfiles_ofGeom h
  have hname : compOK g.name = true := validComponent_compOK (Meta.C13_paths_wellformed h).1
  constructor
  · unfold accepts ofGeom nameOK
    simp only [hname, Bool.true_and]
    by_cases he : g.files.isEmpty = true
    · simp [he]
    · simp only [he, Bool.false_eq_true, if_false, List.all_eq_true, Bool.and_eq_true,
        Bool.not_eq_true']
      intro f hf
      refine ⟨?_, fun c hc => hwf.comps f hf c hc⟩
      have := hwf.nonempty f hf
      cases hp : f.path <;> simp_all
  · intro fs hfs
    unfold ofGeom at hfs
    by_cases he : g.files.isEmpty = true
    · simp [he] at hfs
    · simp only [he, Bool.false_eq_true, if_false, Option.some.injEq] at hfs
      rw [← hfs]; exact hwf

/-- which variant of a field the accepted torrent uses: the name is `name.utf-8` when that is
    non-empty, else `name` (`Meta.pickName`); every file's path is `path.utf-8` when present,
    else `path` (`Meta.pickPath`).  `bi` ranges over every info dictionary, with both
    variants of every field arbitrary and independent: since `C20_accepted_wellformed` is
    about what `metadataComplete` returns, it is the PREFERRED variant — the one the
    front-ends then show — that is known to be well formed, whatever the other one says. -/
theorem C20_accepted_preferred_variants {psLen : Int} {bi : Meta.BInfo} {g : Meta.Geom}
    (h : Meta.metadataComplete psLen bi = .ok g) :
    Meta.pickName bi = .ok g.name ∧
    (g.multi = true → ∃ fs, bi.files = some fs ∧
      g.files.map (fun f => some f.path) = fs.map Meta.pickPath) := by
  obtain ⟨multi, files, length, chunks, name, n, -, -, -, hlf, -, -, hnm, -, hg⟩ := Meta.mc_ok_inv h
  obtain ⟨-, -, -, -, -, hmulti, -⟩ := Meta.lengthAndFiles_ok hlf
  subst hg
  refine ⟨hnm, fun hm => ?_⟩
  obtain ⟨fs, hfs, -, -, hp⟩ := hmulti hm
  exact ⟨fs, hfs, hp⟩

/-- in particular the names the front-ends show for an accepted torrent are exactly the
    preferred variants, and they are validated: a well-formed `path` next to a crafted
    `path.utf-8` (or the other way round) cannot smuggle an unvalidated name into the table -/
theorem C20_accepted_shown_names_validated {psLen : Int} {bi : Meta.BInfo} {g : Meta.Geom}
    (hash : Str) (h : Meta.metadataComplete psLen bi = .ok g) (fs : List Meta.BFile)
    (hfs : bi.files = some fs) (hm : g.multi = true) :
    (filesOf (ofGeom hash g)).map (fun f => some f.path) = fs.map Meta.pickPath ∧
    ∀ f ∈ filesOf (ofGeom hash g), f.path ≠ [] ∧ ∀ c ∈ f.path, compOK c = true := by
  obtain ⟨_, hv⟩ := C20_accepted_preferred_variants h
  obtain ⟨fs', hfs', hp⟩ := hv hm
  rw [hfs] at hfs'
  injection hfs' with hfs'
  subst hfs'
  have hwf := WFfiles_ofGeom h
  have hfiles : filesOf (ofGeom hash g) = g.files.map ofGFile := by
    unfold filesOf ofGeom
    by_cases he : g.files.isEmpty = true
    · have : g.files = [] := by cases hg : g.files <;> simp_all
      simp [this]
    · simp [he]
  rw [hfiles]
  refine ⟨?_, fun f hf => ⟨hwf.nonempty f hf, hwf.comps f hf⟩⟩
  rw [List.map_map]
  exact hp

/-- no page, playlist or lookup faults for any torrent MetadataComplete accepts -/
theorem C20_accepted_no_crash {psLen : Int} {bi : Meta.BInfo} {g : Meta.Geom} (hash : Str)
    (h : Meta.metadataComplete psLen bi = .ok g) (s : Str) (q : Bool) :
    torHandler (ofGeom hash g) s q ≠ .panic :=
  C20_no_crash _ (C20_accepted_wellformed hash h).1 s q

/-- every file of an accepted torrent is reachable through its own link, resolves to its
    own offset and length in both front-ends, and is listed exactly once -/
theorem C20_accepted_files_resolve {psLen : Int} {bi : Meta.BInfo} {g : Meta.Geom} (hash : Str)
    (h : Meta.metadataComplete psLen bi = .ok g) (fs : List File)
    (hfs : (ofGeom hash g).files = some fs) (f : File) (hf : f ∈ fs) :
    torHandler (ofGeom hash g) (pstring f.path) false = .file f.offset f.length ∧
    fileOpen (ofGeom hash g) (pstring f.path) = some (f.offset, f.length) ∧
    fileAttr (ofGeom hash g) (pstring f.path) = some f.length := by
  have wf := (C20_accepted_wellformed hash h).2 fs hfs
  exact ⟨C20_http_link_resolves _ fs hfs rfl wf f hf,
    (C20_fuse_open_file _ fs hfs rfl wf f hf).1, (C20_fuse_open_file _ fs hfs rfl wf f hf).2⟩

theorem C20_accepted_listed_once {psLen : Int} {bi : Meta.BInfo} {g : Meta.Geom} (hash : Str)
    (h : Meta.metadataComplete psLen bi = .ok g) (fs : List File)
    (hfs : (ofGeom hash g).files = some fs) (dir : Path) :
    (∀ rows, listing (ofGeom hash g) dir = .ok rows →
      ((fileRows rows).map (·.1)).Nodup ∧ (dirRowsOf rows).Nodup) ∧
    (∀ ps, playlist (ofGeom hash g) dir = .entries ps → ps.Nodup) ∧
    (∀ dirname es, dirReadDir (ofGeom hash g) dirname = some es → (es.map (·.1)).Nodup) := by
  have wf := (C20_accepted_wellformed hash h).2 fs hfs
  exact ⟨fun rows hr => ⟨C20_http_listing_nodup _ fs hfs rfl wf dir rows hr,
      (C20_http_dir_rows_once _ fs hfs rfl wf dir rows hr).1⟩,
    fun ps hp => C20_playlist_nodup _ fs hfs rfl wf dir ps hp,
    fun dirname es he => C20_fuse_tree_nodup _ fs hfs wf dirname es he⟩

end Storrent.NS
