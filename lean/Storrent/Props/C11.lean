import Storrent.Model.PeerOut
import Storrent.Lemmas.PexLemmas
import Storrent.Lemmas.PeerBitmapLemmas
import Storrent.Lemmas.ChunkArith
import Storrent.Lemmas.PeerOutLemmas
import Storrent.Lemmas.RequestsInv
import Storrent.Lemmas.PexEmbed
import Storrent.Lemmas.PexFeedLemmas
/-
C11 — Everything storrent sends to a peer is protocol-conformant.
Theorems about the models of Model/{PeerOut,Requests,Pex,PeerBitmap}.lean (the repaired code:
fixes 01 bitfield length, 02 pexState.add, 03 sendPex rollback, 04 fromChunk).
-/
namespace Storrent.C11
open Storrent Storrent.Wire Storrent.Pex Storrent.PBitmap Storrent.PeerOut

/-! ## PEX -/

theorem pex_step_msg {g g' : G} {op : Pex.Op} {ad dr : List PexPeer}
    (h : Pex.step g op = (g', some (ad, dr))) :
    op = .send true ∧ ad = g.st.pending.take 50 ∧ dr = g.st.pendingDel.take 50 ∧
    g'.st.pendingDel = g.st.pendingDel.drop 50 := by
  cases op with
  | add p => simp [Pex.step] at h
  | del p => simp [Pex.step] at h
  | send ok =>
    cases ok with
    | false => simp [Pex.step, send_fail] at h
    | true =>
      rcases send_ok_spec g.st with ⟨e, _, _⟩ | ⟨e, _⟩
      · simp [Pex.step, e] at h
      · simp only [Pex.step, e, Prod.mk.injEq, Option.some.injEq] at h
        obtain ⟨hg, ha, hd⟩ := h
        subst hg
        exact ⟨rfl, ha.symm, hd.symm, rfl⟩

/-- what a single queued PEX message may contain, given what the remote knows -/
def PexMsgOk (rk : List Addr) (ad dr : List PexPeer) : Prop :=
  (∀ a, a ∈ addrs dr → a ∈ rk) ∧ (∀ a, a ∈ addrs ad → a ∉ rk) ∧
  (addrs ad).Nodup ∧ (addrs dr).Nodup ∧ (∀ a, a ∈ addrs ad → a ∉ addrs dr) ∧
  ad.length ≤ 50 ∧ dr.length ≤ 50

theorem pex_msg_ok {g g' : G} {op : Pex.Op} {ad dr : List PexPeer} (hI : PInv g)
    (h : Pex.step g op = (g', some (ad, dr))) : PexMsgOk g.rk ad dr := by
  obtain ⟨_, ha, hd, _⟩ := pex_step_msg h
  subst ha hd
  have hP := nodup_take_drop 50 hI.ndP
  have hD := nodup_take_drop 50 hI.ndD
  refine ⟨?_, ?_, ?_, ?_, ?_, ?_, ?_⟩
  · intro a ha
    rw [addrs_take] at ha
    exact (hI.rk a).2 (Or.inr (List.mem_of_mem_take ha))
  · intro a ha hk
    rw [addrs_take] at ha
    have hp := List.mem_of_mem_take ha
    rcases (hI.rk a).1 hk with hs | hd
    · exact hI.dPS a hp hs
    · exact hI.dPD a hp hd
  · rw [addrs_take]; exact hP.1
  · rw [addrs_take]; exact hD.1
  · intro a ha hb
    rw [addrs_take] at ha hb
    exact hI.dPD a (List.mem_of_mem_take ha) (List.mem_of_mem_take hb)
  · simp [List.length_take]; omega
  · simp [List.length_take]; omega

theorem pex_run_ok : ∀ (ops : List Pex.Op) (g : G), PInv g →
    ∀ x, x ∈ (Pex.run g ops).2 → PexMsgOk x.1 x.2.1 x.2.2
  | [], _, _, x, hx => by simp [Pex.run] at hx
  | op :: ops, g, hI, x, hx => by
    have ih := pex_run_ok ops (Pex.step g op).1 (PInv_step hI op)
    simp only [Pex.run] at hx
    cases hm : (Pex.step g op).2 with
    | none =>
      simp only [hm] at hx
      exact ih x hx
    | some m =>
      obtain ⟨a, d⟩ := m
      simp only [hm, List.mem_cons] at hx
      rcases hx with rfl | hx
      · exact pex_msg_ok hI (g' := (Pex.step g op).1) (by rw [← hm])
      · exact ih x hx

/-- **C11_pex_sound.**  For every history of `add` / `del` / PEX ticks with successful or
    failed writes, every PEX message that is queued drops only addresses the remote knows
    (was told and not yet told to forget), announces no address the remote knows, has no
    duplicate inside or across its two lists, and at most 50 entries per list. -/
theorem C11_pex_sound (ops : List Pex.Op) :
    ∀ x, x ∈ (Pex.run {} ops).2 →
      (∀ a, a ∈ addrs x.2.2 → a ∈ x.1) ∧ (∀ a, a ∈ addrs x.2.1 → a ∉ x.1) ∧
      (addrs x.2.1).Nodup ∧ (addrs x.2.2).Nodup ∧ (∀ a, a ∈ addrs x.2.1 → a ∉ addrs x.2.2) ∧
      x.2.1.length ≤ 50 ∧ x.2.2.length ≤ 50 :=
  fun x hx => pex_run_ok ops {} PInv_init x hx

/-- the invariant behind it, for every reachable state: the remote knows exactly
    `sent ∪ pendingDel` -/
theorem C11_pex_remote_knows (ops : List Pex.Op) :
    let g := (Pex.run {} ops).1
    ∀ a, a ∈ g.rk ↔ a ∈ addrs g.st.sent ∨ a ∈ addrs g.st.pendingDel := by
  have : ∀ (ops : List Pex.Op) (g : G), PInv g → PInv (Pex.run g ops).1 := by
    intro ops
    induction ops with
    | nil => intro g h; exact h
    | cons op ops ih =>
      intro g h
      have := ih (Pex.step g op).1 (PInv_step h op)
      simp only [Pex.run]
      cases hm : (Pex.step g op).2 <;> simpa [hm] using this
  exact (this ops {} PInv_init).rk

theorem pex_run_inv : ∀ (ops : List Pex.Op) (g : G), PInv g → PInv (Pex.run g ops).1 := by
  intro ops
  induction ops with
  | nil => intro g h; exact h
  | cons op ops ih =>
    intro g h
    have := ih (Pex.step g op).1 (PInv_step h op)
    simp only [Pex.run]
    cases hm : (Pex.step g op).2 <;> simpa [hm] using this

/-- a departure of a peer the remote knows becomes (or stays) pending -/
theorem pex_del_pending {g : G} (hI : PInv g) (p : PexPeer) (hk : addrOf p ∈ g.rk) :
    addrOf p ∈ addrs (Pex.step g (.del p)).1.st.pendingDel := by
  have hnp : addrOf p ∉ addrs g.st.pending := by
    intro hp
    rcases (hI.rk _).1 hk with hs | hd
    · exact hI.dPS _ hp hs
    · exact hI.dPD _ hp hd
  simp only [Pex.step, del, find_none.2 hnp]
  cases hS : find p g.st.sent with
  | none =>
    simp only
    rcases (hI.rk _).1 hk with hs | hd
    · exact absurd hs (find_none.1 hS)
    · exact hd
  | some i =>
    simp only
    have hpD : addrOf p ∉ addrs g.st.pendingDel := hI.dSD _ (find_some_mem hS)
    simp only [find_none.2 hpD, addrs_append, addrs_single, List.mem_append, List.mem_singleton,
      or_true]

/-- a pending departure stays among the first `n` pending departures until a queued message
    drops it (any step except a re-`add` of that very address) -/
theorem pex_stays {g : G} (hI : PInv g) {a : Addr} {n : Nat} (op : Pex.Op)
    (ha : a ∈ addrs (g.st.pendingDel.take n)) (hop : ∀ q, op = .add q → addrOf q ≠ a)
    (hsend : op ≠ .send true) :
    a ∈ addrs ((Pex.step g op).1.st.pendingDel.take n) := by
  cases op with
  | add q =>
    have hne := hop q rfl
    simp only [Pex.step, add]
    cases hD : find q g.st.pendingDel with
    | some i =>
      simp only
      rw [eraseIdx_find hI.ndD hD]
      exact mem_addrs_take_filter _ _ _ _ ha (fun e => hne e.symm)
    | none =>
      simp only
      cases find q g.st.sent with
      | some _ => exact ha
      | none =>
        simp only
        cases find q g.st.pending <;> exact ha
  | del q =>
    simp only [Pex.step, del]
    cases find q g.st.pending with
    | some _ => exact ha
    | none =>
      simp only
      cases find q g.st.sent with
      | none => exact ha
      | some i =>
        simp only
        cases find q g.st.pendingDel with
        | some _ => exact ha
        | none => exact mem_addrs_take_append _ ha
  | send ok =>
    cases ok with
    | false => simp only [Pex.step, send_fail]; exact ha
    | true => exact absurd rfl hsend

/-- **C11_pex_departures.**  From every reachable state: (1) when a peer the remote knows
    leaves, its address is in `pendingDel`; (2) a pending departure is dropped by a queued
    message after at most `k` successful PEX ticks if it is among the first `50·k` pending
    departures — whatever else happens in between (other arrivals and departures, failed
    writes), as long as that very address is not added again; each successful tick takes
    `min 50 ·` entries off the front of `pendingDel` (`pex_step_msg`). -/
theorem C11_pex_departures (pre : List Pex.Op) :
    let g := (Pex.run {} pre).1
    (∀ p, addrOf p ∈ g.rk → addrOf p ∈ addrs (Pex.step g (.del p)).1.st.pendingDel) ∧
    (∀ (ops : List Pex.Op) (a : Addr),
      a ∈ addrs (g.st.pendingDel.take (50 * ops.count (.send true))) →
      (∀ q, Pex.Op.add q ∈ ops → addrOf q ≠ a) →
      ∃ x, x ∈ (Pex.run g ops).2 ∧ a ∈ addrs x.2.2) := by
  intro g
  have hI : PInv g := pex_run_inv pre {} PInv_init
  refine ⟨fun p hk => pex_del_pending hI p hk, ?_⟩
  intro ops
  clear_value g
  induction ops generalizing g with
  | nil => intro a ha _; simp [addrs] at ha
  | cons op ops ih =>
    intro a ha hadd
    have hI' := PInv_step hI op
    have hadd' : ∀ q, Pex.Op.add q ∈ ops → addrOf q ≠ a :=
      fun q hq => hadd q (List.mem_cons_of_mem _ hq)
    by_cases hs : op = .send true
    · subst hs
      have hcount : (Pex.Op.send true :: ops).count (.send true) = ops.count (.send true) + 1 := by
        simp
      rw [hcount, Nat.mul_add, Nat.mul_one, Nat.add_comm, List.take_add, addrs_append] at ha
      rcases send_ok_spec g.st with ⟨_, _, hd⟩ | ⟨e, _⟩
      · rw [hd] at ha; simp [addrs] at ha
      · have hstep : Pex.step g (.send true) =
            ({ st := { pending := g.st.pending.drop 50, pendingDel := g.st.pendingDel.drop 50,
                        sent := g.st.sent ++ g.st.pending.take 50 },
               rk := rkUpdate g.rk (g.st.pending.take 50) (g.st.pendingDel.take 50) },
             some (g.st.pending.take 50, g.st.pendingDel.take 50)) := by
          simp only [Pex.step, e]
        rcases List.mem_append.1 ha with h50 | hrest
        · refine ⟨(g.rk, g.st.pending.take 50, g.st.pendingDel.take 50), ?_, h50⟩
          simp only [Pex.run, hstep, List.mem_cons, true_or]
        · have hI2 : PInv (Pex.step g (.send true)).1 := hI'
          rw [hstep] at hI2
          obtain ⟨x, hx, hxa⟩ := ih _ hI2 a hrest hadd'
          refine ⟨x, ?_, hxa⟩
          simp only [Pex.run, hstep, List.mem_cons]
          exact Or.inr hx
    · have hcount : (op :: ops).count (.send true) = ops.count (.send true) := by
        rw [List.count_cons]
        have : (op == Pex.Op.send true) = false := by simpa using hs
        simp [this]
      rw [hcount] at ha
      have hst := pex_stays hI op ha (fun q e => hadd q (e ▸ List.mem_cons_self)) hs
      obtain ⟨x, hx, hxa⟩ := ih _ hI' a hst hadd'
      refine ⟨x, ?_, hxa⟩
      simp only [Pex.run]
      cases hm : (Pex.step g op).2 with
      | none => simpa [hm] using hx
      | some m => simp only [hm, List.mem_cons]; exact Or.inr hx

/-- the unrepaired `add` forgets a peer that comes back while its departure is pending: after
    add, tick, del, add, del, tick the remote is never told that the peer left -/
def C11_pex_departures_orig : Prop :=
  ∀ (s : PexState) (p : PexPeer), addrOf p ∈ addrs s.pendingDel →
    addrOf p ∈ addrs (del (addOrig s p) p).pendingDel

theorem C11_pex_departures_orig_refuted : ¬ C11_pex_departures_orig := by
  intro h
  have := h { pending := [], pendingDel := [⟨[10, 0, 0, 1], 6881, 0⟩], sent := [] }
    ⟨[10, 0, 0, 1], 6881, 0⟩ (by decide)
  revert this
  decide

/-! ### PEX at the level of peer histories -/

/-- a sequence of PEX messages, each with what the remote knows just before it -/
def annotate : List Addr → List (List PexPeer × List PexPeer) →
    List (List Addr × List PexPeer × List PexPeer)
  | _, [] => []
  | rk, (a, d) :: ms => (rk, a, d) :: annotate (rkUpdate rk a d) ms

theorem pex_step_rk (g : G) (op : Pex.Op) :
    ((Pex.step g op).2 = none → (Pex.step g op).1.rk = g.rk) ∧
    (∀ a d, (Pex.step g op).2 = some (a, d) → (Pex.step g op).1.rk = rkUpdate g.rk a d) := by
  cases op with
  | add p => simp [Pex.step]
  | del p => simp [Pex.step]
  | send ok =>
    simp only [Pex.step]
    rcases Pex.send g.st ok with ⟨s', m⟩
    cases m with
    | none => simp
    | some ad => obtain ⟨a, d⟩ := ad; simp

theorem pex_run_annotate : ∀ (pops : List Pex.Op) (g : G),
    (Pex.run g pops).2 = annotate g.rk ((Pex.run g pops).2.map (·.2))
  | [], g => by simp [Pex.run, annotate]
  | op :: pops, g => by
    have ih := pex_run_annotate pops (Pex.step g op).1
    have hrk := pex_step_rk g op
    simp only [Pex.run]
    cases hm : (Pex.step g op).2 with
    | none =>
      show (Pex.run (Pex.step g op).1 pops).2 =
        annotate g.rk ((Pex.run (Pex.step g op).1 pops).2.map (·.2))
      rw [← hrk.1 hm]
      exact ih
    | some ad =>
      obtain ⟨a, d⟩ := ad
      simp only [List.map_cons, annotate]
      rw [← hrk.2 a d hm, ← ih]

/-- **C11_pex_sound_peer.**  `C11_pex_sound` for the peer itself: for every history of peer
    ops (messages, scheduler commands incl. `PeerPex` additions/removals, ticks, congestion,
    dead writer, drains) from a peer whose `pexState` is empty, every PEX message that reaches
    the writer queue — in queue order, `remoteKnows` being what the earlier ones told —
    drops only known addresses, announces no known address, and has no duplicates / at most
    50 entries per list.  (By simulation: the peer's handlers drive `pexState` exactly as a
    history of the PEX machine does, `run_sim`.) -/
theorem C11_pex_sound_peer (p0 : Peer) (ops : List PeerOut.Op) (h0 : p0.pex = {}) :
    ∀ x, x ∈ annotate [] (pexMsgs (trace p0 ops)) → PexMsgOk x.1 x.2.1 x.2.2 := by
  obtain ⟨pops, _, hm⟩ := run_sim ops p0 ({} : G) (by rw [h0])
  intro x hx
  rw [← hm, ← pex_run_annotate pops {}] at hx
  exact pex_run_ok pops {} PInv_init x hx

/-- and the peer's `pexState` after any history is one the PEX machine reaches, so
    `remoteKnows = sent ∪ pendingDel` (`C11_pex_remote_knows`) and the departure theorem
    apply to it -/
theorem C11_pex_embedding (p0 : Peer) (ops : List PeerOut.Op) (h0 : p0.pex = {}) :
    ∃ pops : List Pex.Op, (Pex.run {} pops).1.st = (PeerOut.run p0 ops).pex ∧
      (Pex.run {} pops).2 = annotate [] (pexMsgs (trace p0 ops)) := by
  obtain ⟨pops, hs, hm⟩ := run_sim ops p0 ({} : G) (by rw [h0])
  exact ⟨pops, hs, by rw [pex_run_annotate pops {}, hm]⟩

-- non-vacuity: a PEX history with an arrival, a failed and a successful tick, a departure
example :
    (Pex.run {} [.add ⟨[10, 0, 0, 1], 6881, 0⟩, .send false, .send true,
                 .del ⟨[10, 0, 0, 1], 6881, 0⟩, .send true]).2 =
      [([], [⟨[10, 0, 0, 1], 6881, 0⟩], []),
       ([([10, 0, 0, 1], 6881)], [], [⟨[10, 0, 0, 1], 6881, 0⟩])] := by decide

-- non-vacuity of `C11_pex_departures` (2): a pending departure among the first 50·1, one tick
example :
    let g : G := (Pex.run {} [.add ⟨[10, 0, 0, 1], 6881, 0⟩, .send true,
                              .del ⟨[10, 0, 0, 1], 6881, 0⟩]).1
    ([10, 0, 0, 1], 6881) ∈ addrs (g.st.pendingDel.take (50 * [Pex.Op.send true].count (.send true))) := by
  decide

-- non-vacuity at peer level: PeerPex + tick through the peer's handlers
example :
    pexMsgs (trace { pexExt := 1 } [.ePex true [⟨[10, 0, 0, 1], 6881, 0⟩], .sendPex,
      .ePex false [⟨[10, 0, 0, 1], 6881, 0⟩], .sendPex]) =
      [([⟨[10, 0, 0, 1], 6881, 0⟩], []), ([], [⟨[10, 0, 0, 1], 6881, 0⟩])] := by decide

/-! ### the torrent-side feeding of PEX -/

/-- **C11_pex_feed_balanced.**  For every history of connections joining (dialled or
    incoming), sending extended handshakes with any advertised port (a second one makes the
    peer close) and leaving in any order: what an observer connected all along has been told
    (adds minus drops, as a set) is exactly the set of `(connection, port)` of the connections
    that are still there and whose port is known.  So every address announced for a
    connection is withdrawn — the SAME address — when it leaves; when everybody has left the
    observer holds nothing; and (second part) nothing is ever dropped that the observer does
    not hold. -/
theorem C11_pex_feed_balanced (ops : List PexFeed.Op) :
    (∀ x, x ∈ PexFeed.view [] (PexFeed.run {} ops).2 ↔
      ∃ p, p ∈ (PexFeed.run {} ops).1.peers ∧ p.port > 0 ∧ x = (p.id, p.port)) ∧
    ((PexFeed.run {} ops).1.peers = [] → PexFeed.view [] (PexFeed.run {} ops).2 = []) ∧
    (∀ op i p, PexFeed.Ev.del i p ∈ (PexFeed.step (PexFeed.run {} ops).1 op).2 →
      (i, p) ∈ PexFeed.view [] (PexFeed.run {} ops).2) := by
  have hI := PexFeed.FInv_run ops {} [] PexFeed.FInv_init
  refine ⟨hI.vw, ?_, fun op i p h => (PexFeed.FInv_step hI op).2 i p h⟩
  intro hnil
  apply List.eq_nil_iff_forall_not_mem.2
  intro x hx
  obtain ⟨p, hp, _⟩ := (hI.vw x).1 hx
  rw [hnil] at hp
  cases hp

-- non-vacuity: a dialled connection whose handshake advertises another port (ignored), an
-- incoming one that advertises its port, a second handshake, departures
example :
    (PexFeed.run {} [.join 1 6881 false, .join 2 0 true, .ext0 1 9001, .ext0 2 7002,
      .ext0 2 7002, .leave 1]).2 =
      [.add 1 6881 16, .add 1 6881 16, .add 2 7002 0, .del 2 7002, .del 1 6881] := by decide

/-- how the observer's `pexState` is fed: `PeerPex` additions / removals under the
    connection's address (`ip` maps a connection to its IP address) -/
def toPex (ip : Nat → Bytes) : PexFeed.Ev → Pex.Op
  | .add id port fl => .add ⟨ip id, port, fl⟩
  | .del id port => .del ⟨ip id, port, 0⟩

def notSend : Pex.Op → Bool
  | .send _ => false
  | _ => true

theorem aview_filter : ∀ (pops : List Pex.Op) (v : List Addr),
    aview v pops = aview v (pops.filter notSend)
  | [], v => rfl
  | op :: pops, v => by
    cases op <;> simp only [aview, List.filter_cons, notSend, if_true, Bool.false_eq_true, if_false,
      aview_filter pops]

theorem mem_aview_add {v : List Addr} {p : PexPeer} {a : Addr} :
    a ∈ aview v [.add p] ↔ a ∈ v ∨ a = addrOf p := by
  simp only [aview]
  split
  · rename_i hc
    have := List.contains_iff_mem.1 hc
    constructor
    · exact Or.inl
    · rintro (h | rfl)
      · exact h
      · exact this
  · simp only [List.mem_cons]
    constructor
    · rintro (h | h)
      · exact Or.inr h
      · exact Or.inl h
    · rintro (h | h)
      · exact Or.inr h
      · exact Or.inl h

theorem mem_aview_del {v : List Addr} {p : PexPeer} {a : Addr} :
    a ∈ aview v [.del p] ↔ a ∈ v ∧ a ≠ addrOf p := by
  simp [aview, List.mem_filter]

theorem aview_toPex (ip : Nat → Bytes) (hinj : ∀ a b, ip a = ip b → a = b) :
    ∀ (evs : List PexFeed.Ev) (v : List (Nat × Nat)) (v' : List Addr),
    (∀ a, a ∈ v' ↔ ∃ x, x ∈ v ∧ a = (ip x.1, x.2)) →
    ∀ a, a ∈ aview v' (evs.map (toPex ip)) ↔ ∃ x, x ∈ PexFeed.view v evs ∧ a = (ip x.1, x.2)
  | [], v, v', h => h
  | e :: evs, v, v', h => by
    have e1 : aview v' ((e :: evs).map (toPex ip)) =
        aview (aview v' [toPex ip e]) (evs.map (toPex ip)) := aview_append [toPex ip e] v' _
    have e2 : PexFeed.view v (e :: evs) = PexFeed.view (PexFeed.view v [e]) evs :=
      PexFeed.view_append [e] v evs
    rw [e1, e2]
    apply aview_toPex ip hinj evs
    intro a
    cases e with
    | add id port fl =>
      simp only [toPex]
      rw [mem_aview_add, h a]
      constructor
      · rintro (⟨x, hx, rfl⟩ | rfl)
        · exact ⟨x, PexFeed.mem_view_add.2 (Or.inl hx), rfl⟩
        · exact ⟨(id, port), PexFeed.mem_view_add.2 (Or.inr rfl), rfl⟩
      · rintro ⟨x, hx, rfl⟩
        rcases PexFeed.mem_view_add.1 hx with hx | rfl
        · exact Or.inl ⟨x, hx, rfl⟩
        · exact Or.inr rfl
    | del id port =>
      simp only [toPex]
      rw [mem_aview_del, h a]
      constructor
      · rintro ⟨⟨x, hx, rfl⟩, hne⟩
        refine ⟨x, PexFeed.mem_view_del.2 ⟨hx, ?_⟩, rfl⟩
        intro e
        apply hne
        rw [e]; rfl
      · rintro ⟨x, hx, rfl⟩
        obtain ⟨hx1, hx2⟩ := PexFeed.mem_view_del.1 hx
        refine ⟨⟨x, hx1, rfl⟩, ?_⟩
        intro e
        simp only [addrOf, Prod.mk.injEq] at e
        apply hx2
        exact Prod.ext (hinj _ _ e.1) e.2

/-- **C11_pex_feed_composed.**  The feed composed with the PEX machine: let the observer's
    `pexState` be fed with exactly the events of a feed history (ticks, successful or failed,
    interleaved in any way).  Whenever it has nothing pending, what its remote knows is exactly
    the set of addresses of the connections that are still there (port known): no departed
    peer stays announced, under any address. -/
theorem C11_pex_feed_composed (ip : Nat → Bytes) (hinj : ∀ a b, ip a = ip b → a = b)
    (fops : List PexFeed.Op) (pops : List Pex.Op)
    (hfeed : pops.filter notSend = (PexFeed.run {} fops).2.map (toPex ip))
    (hflush : (Pex.run {} pops).1.st.pending = [] ∧ (Pex.run {} pops).1.st.pendingDel = []) :
    ∀ a, a ∈ (Pex.run {} pops).1.rk ↔
      ∃ p, p ∈ (PexFeed.run {} fops).1.peers ∧ p.port > 0 ∧ a = (ip p.id, p.port) := by
  intro a
  have hI := pex_run_inv pops {} PInv_init
  have hT := Tracks_run pops {} [] PInv_init (by intro a; simp [addrs])
  have hv := aview_toPex ip hinj (PexFeed.run {} fops).2 [] [] (by intro a; simp) a
  have hb := (C11_pex_feed_balanced fops).1
  rw [hI.rk a, hflush.2]
  have h1 := hT a
  rw [hflush.1] at h1
  simp only [addrs, List.map_nil, List.not_mem_nil, or_false] at h1 ⊢
  rw [h1, aview_filter, hfeed, hv]
  constructor
  · rintro ⟨x, hx, rfl⟩
    obtain ⟨p, hp, hpos, rfl⟩ := (hb x).1 hx
    exact ⟨p, hp, hpos, rfl⟩
  · rintro ⟨p, hp, hpos, rfl⟩
    exact ⟨(p.id, p.port), (hb _).2 ⟨p, hp, hpos, rfl⟩, rfl⟩

/-! ## The initial advertisement -/

/-- the local bitmap as `Pieces.Bitmap()` builds it for `num` pieces: at most `⌈num/8⌉` bytes,
    no bit at or beyond `num` -/
def MyWF (mb : Bitmap) (num : Nat) : Prop :=
  mb.length ≤ (num + 7) / 8 ∧ ∀ i, num ≤ i → get mb i = false

theorem length_extendInt_pred {mb : Bitmap} {num : Nat} (h : mb.length ≤ (num + 7) / 8) :
    (extendInt mb ((num : Int) - 1)).length = (num + 7) / 8 := by
  unfold extendInt
  split
  · rename_i hneg
    have : num = 0 := by omega
    subst this
    simp at h ⊢
    exact h
  · rename_i hpos
    have : ((num : Int) - 1).toNat = num - 1 := by omega
    rw [this, length_extend]
    omega

/-- **C11_bitfield_exact.**  For every local bitmap in the form `Pieces.Bitmap()` produces,
    every piece count (multiples of 8 included) and every capability set: a `Bitfield` in the
    initial advertisement has exactly `⌈num/8⌉` bytes, no bit at or beyond `num` (zero spare
    bits) and exactly the local bits; `HaveAll` is sent only to a Fast peer and only when every
    piece is held; `HaveNone` only to a Fast peer. -/
theorem C11_bitfield_exact {mb : Bitmap} {num : Nat} {hasInfo canFast : Bool} {ms : List Msg}
    (hwf : MyWF mb num) (h : advertise mb num hasInfo canFast = some ms) :
    (∀ bf, Msg.bitfield bf ∈ ms →
        bf.length = (num + 7) / 8 ∧ (∀ i, num ≤ i → get bf i = false) ∧ ∀ i, get bf i = get mb i) ∧
    (Msg.haveAll ∈ ms → canFast = true ∧ ∀ i, i < num → get mb i = true) ∧
    (Msg.haveNone ∈ ms → canFast = true) := by
  unfold advertise at h
  split at h
  · cases h; cases canFast <;> simp
  · split at h
    · rename_i hc
      cases h
      simp only [Bool.and_eq_true] at hc
      refine ⟨by simp, fun _ => ⟨hc.1, all_get hc.2.2⟩, by simp⟩
    · split at h
      · cases h
      · split at h
        · cases h
          refine ⟨?_, ?_, ?_⟩
          · intro bf hbf; cases canFast <;> simp at hbf
          · intro hm; cases canFast <;> simp at hm
          · intro hm; cases canFast <;> simp at hm ⊢
        · cases h
          refine ⟨?_, by simp, by simp⟩
          intro bf hbf
          simp only [List.mem_singleton, Msg.bitfield.injEq] at hbf
          subst hbf
          refine ⟨length_extendInt_pred hwf.1, ?_, fun i => get_extendInt _ _ _⟩
          intro i hi
          rw [get_extendInt]
          exact hwf.2 i hi

/-- **C11_have_range** (initial advertisement): every `Have` of the advertisement names a
    piece below `num` that is held. -/
theorem C11_have_range_adv {mb : Bitmap} {num : Nat} {hasInfo canFast : Bool} {ms : List Msg}
    (hwf : MyWF mb num) (h : advertise mb num hasInfo canFast = some ms) :
    ∀ i, Msg.have i ∈ ms → i < num ∧ get mb i = true := by
  intro i hi
  have key : get mb i = true → i < num ∧ get mb i = true := by
    intro hg
    refine ⟨?_, hg⟩
    apply Classical.byContradiction
    intro hn
    have := hwf.2 i (by omega)
    rw [this] at hg
    cases hg
  unfold advertise at h
  split at h
  · cases h; cases canFast <;> simp at hi
  · split at h
    · cases h; simp at hi
    · split at h
      · cases h
      · split at h
        · cases h
          have : Msg.have i ∈ (range mb).map Msg.have := by
            cases canFast <;> simpa using hi
          rcases List.mem_map.1 this with ⟨k, hk, e⟩
          cases e
          exact key (mem_range.1 hk)
        · cases h; simp at hi

/-- the unrepaired advertisement (`Extend(num)`) sends 2 bytes for 8 pieces -/
def C11_bitfield_exact_orig : Prop :=
  ∀ (mb : Bitmap) (num : Nat) (hasInfo canFast : Bool) (ms : List Msg), MyWF mb num →
    advertiseOrig mb num hasInfo canFast = some ms →
    ∀ bf, Msg.bitfield bf ∈ ms → bf.length = (num + 7) / 8

theorem C11_bitfield_exact_orig_refuted : ¬ C11_bitfield_exact_orig := by
  intro h
  have hwf : MyWF [0x80] 8 := by
    refine ⟨by decide, ?_⟩
    intro i hi
    unfold PBitmap.get
    have : ([0x80] : Bitmap)[i / 8]? = none := List.getElem?_eq_none (by simp; omega)
    rw [this]
  have := h [0x80] 8 true false [.bitfield [0x80, 0]] hwf (by decide) [0x80, 0] (by simp)
  simp at this

example : MyWF [0xFF, 0xC0] 10 := by
  refine ⟨by decide, ?_⟩
  intro i hi
  by_cases h : i < 16
  · have : i = 10 ∨ i = 11 ∨ i = 12 ∨ i = 13 ∨ i = 14 ∨ i = 15 := by omega
    rcases this with rfl | rfl | rfl | rfl | rfl | rfl <;> decide
  · unfold PBitmap.get
    have : ([0xFF, 0xC0] : Bitmap)[i / 8]? = none := List.getElem?_eq_none (by simp; omega)
    rw [this]

example : advertise [0xFF, 0x00] 16 true true = some [.bitfield [0xFF, 0x00]] := by decide
example : advertise [0xFF, 0xFF] 16 true true = some [.haveAll] := by decide
example : advertise [0xFF, 0xFF] 16 true false = some [.bitfield [0xFF, 0xFF]] := by decide

/-! ## Requests, cancels and haves over all histories

A history is any list of `PeerOut.Op` (messages of the remote peer, scheduler commands,
ticks, environment steps with arbitrary outcomes of the rate/delay test, of the writes, of
the clock and of `AddData`) applied to any initial peer `p0`; `trace p0 ops` lists every
message that reached the writer queue together with the peer state in which the decision
to send it was taken. -/

theorem exists_bound (l : List Nat) : ∃ N, ∀ x, x ∈ l → x < N := by
  induction l with
  | nil => exact ⟨0, by simp⟩
  | cons a t ih =>
    obtain ⟨N, h⟩ := ih
    refine ⟨max N (a + 1), ?_⟩
    intro x hx
    simp only [List.mem_cons] at hx
    rcases hx with rfl | hx
    · omega
    · have := h x hx; omega

/-- The initial peer `p0` of a history is any peer whose request structure satisfies its
    representation invariant `RInv` (queued and sent chunk numbers pairwise distinct, the
    membership bitmap exactly their union) — in particular a new peer (`Requests.RInv_empty`),
    and, by `trace_ok`, every state reachable from one. -/
theorem trace_facts (p0 : Peer) (ops : List PeerOut.Op) (hinv : Requests.RInv p0.requests) :
    ∀ e, e ∈ trace p0 ops → e.pre.ps = p0.ps ∧ e.pre.length = p0.length ∧
      Requests.RInv e.pre.requests ∧
      EmLocal (fun i => ∃ h, PeerOut.Op.eHave i h ∈ ops) e := by
  obtain ⟨N, hN⟩ := exists_bound (p0.requests.queue.map (·.index) ++
    (p0.requests.requested.map (·.index) ++ ops.flatMap Op.chunks))
  intro e he
  have := trace_ok (ps0 := p0.ps) (len0 := p0.length) (N := N) ops p0
    ⟨rfl, rfl, ?_, ?_, hinv⟩ ?_ e he
  · exact ⟨this.1.1, this.1.2.1, this.1.2.2.2.2, this.2⟩
  · intro r hr
    exact hN _ (List.mem_append.2 (Or.inl (List.mem_map.2 ⟨r, hr, rfl⟩)))
  · intro r hr
    exact hN _ (List.mem_append.2 (Or.inr (List.mem_append.2 (Or.inl (List.mem_map.2 ⟨r, hr, rfl⟩)))))
  · intro op hop ch hch
    exact hN _ (List.mem_append.2 (Or.inr (List.mem_append.2 (Or.inr
      (List.mem_flatMap.2 ⟨op, hop, hch⟩)))))

theorem local_facts (p0 : Peer) (ops : List PeerOut.Op) (hinv : Requests.RInv p0.requests) :
    ∀ e, e ∈ trace p0 ops → EmLocal (fun i => ∃ h, PeerOut.Op.eHave i h ∈ ops) e :=
  fun e he => (trace_facts p0 ops hinv e he).2.2.2

/-- **C11_request_allowed.**  Every `Request` is sent in a state in which the remote has
    unchoked us or has allowed-fast the piece. -/
theorem C11_request_allowed (p0 : Peer) (ops : List PeerOut.Op)
    (hinv : Requests.RInv p0.requests) :
    ∀ e, e ∈ trace p0 ops → ∀ i b l, e.msg = .request i b l →
      e.pre.unchoked = true ∨ i ∈ e.pre.fast := by
  intro e he i b l hm
  have := local_facts p0 ops hinv e he
  unfold EmLocal at this
  rw [hm] at this
  exact this.1

/-- **C11_request_depth.**  A `Request` is sent only while fewer than `max 2 reqQ` requests
    are outstanding, `reqQ` being the depth the peer advertised (128 before it does). -/
theorem C11_request_depth (p0 : Peer) (ops : List PeerOut.Op)
    (hinv : Requests.RInv p0.requests) :
    ∀ e, e ∈ trace p0 ops → ∀ i b l, e.msg = .request i b l →
      e.pre.requests.requested.length < max 2 e.pre.reqQ := by
  intro e he i b l hm
  have := local_facts p0 ops hinv e he
  unfold EmLocal at this
  rw [hm] at this
  exact this.2.2.1

/-- **C11_request_wf.**  On a valid geometry, if the scheduler only ever names existing
    blocks (and the initial queue holds only such), every `Request{i,b,l}` names an existing
    piece that the remote has advertised, a 16 KiB-aligned offset inside that piece, and the
    block's exact length (shorter only for the final block of the torrent). -/
theorem C11_request_wf (p0 : Peer) (ops : List PeerOut.Op) (hg : GeomOK p0.ps p0.length)
    (hinv : Requests.RInv p0.requests)
    (hq : ∀ r, r ∈ p0.requests.queue ++ p0.requests.requested → r.index < nChunks p0.length)
    (hops : ∀ op, op ∈ ops → ∀ ch, ch ∈ op.chunks → ch < nChunks p0.length) :
    ∀ e, e ∈ trace p0 ops → ∀ i b l, e.msg = .request i b l →
      i < numPiecesOf p0.ps p0.length ∧ e.pre.rbGet i = true ∧
      b % 16384 = 0 ∧ b < min p0.ps.toNat (p0.length - i * p0.ps.toNat) ∧
      l = min 16384 (p0.length - (i * p0.ps.toNat + b)) := by
  intro e he i b l hm
  obtain ⟨hsi, hloc⟩ := trace_ok (ps0 := p0.ps) (len0 := p0.length) (N := nChunks p0.length)
    ops p0 ⟨rfl, rfl, fun r hr => hq r (List.mem_append.2 (Or.inl hr)),
      fun r hr => hq r (List.mem_append.2 (Or.inr hr)), hinv⟩ hops e he
  unfold EmLocal at hloc
  rw [hm] at hloc
  obtain ⟨_, hrb, _, q, rest, hqueue, iu, bu, hfc, hi, hb, hl⟩ := hloc
  have hqn : q.index < nChunks p0.length := hsi.2.2.1 q (by rw [hqueue]; exact List.mem_cons_self)
  obtain ⟨i', b', hf', hpos, hbm, hbl, hlt, hnum, hsz⟩ := chunk_wf hg hqn
  rw [hsi.1] at hfc
  rw [hsi.2.1] at hl
  rw [hfc] at hf'
  cases hf'
  subst hi hb hl
  refine ⟨hnum, hrb, hbm, ?_, hsz⟩
  omega

/-- **C11_cancel_refers.**  Every `Cancel{i,b,l}` names (with the same arithmetic as the
    request did) a request that is outstanding and for which no `Cancel` has been sent yet:
    it is marked cancelled by the very step that sends the `Cancel`, and a marked request
    never produces another one. -/
theorem C11_cancel_refers (p0 : Peer) (ops : List PeerOut.Op)
    (hinv : Requests.RInv p0.requests) :
    ∀ e, e ∈ trace p0 ops → ∀ i b l, e.msg = .cancel i b l →
      ∃ r, r ∈ e.pre.requests.requested ∧ r.cancelled = false ∧
        ∃ iu bu, fromChunk e.pre.ps (UInt32.ofNat r.index) = some (iu, bu) ∧
          i = iu.toNat ∧ b = bu.toNat ∧
          l = (chunkSize e.pre.length (UInt32.ofNat r.index)).toNat := by
  intro e he i b l hm
  have := local_facts p0 ops hinv e he
  unfold EmLocal at this
  rw [hm] at this
  exact this

/-- **C11_have_range.**  `Have` / `ExtendedDontHave` are sent only to forward a `PeerHave`
    of the torrent, with its index; so if the torrent only names existing pieces, every
    index sent is below the piece count.  Nothing but requests, cancels, haves, don't-haves,
    (not-)interested and PEX is ever emitted by these handlers. -/
theorem C11_have_range (p0 : Peer) (ops : List PeerOut.Op) (n : Nat)
    (hinv : Requests.RInv p0.requests) (hops : ∀ i h, PeerOut.Op.eHave i h ∈ ops → i < n) :
    ∀ e, e ∈ trace p0 ops →
      (∀ i, e.msg = .have i → i < n) ∧ (∀ s i, e.msg = .dontHave s i → i < n) := by
  intro e he
  have := local_facts p0 ops hinv e he
  unfold EmLocal at this
  constructor
  · intro i hm
    rw [hm] at this
    obtain ⟨h, hh⟩ := this
    exact hops i h hh
  · intro s i hm
    rw [hm] at this
    obtain ⟨h, hh⟩ := this
    exact hops i h hh

theorem fromChunk_inj {ps : UInt32} (h1 : 16384 ≤ ps.toNat) {c1 c2 : Nat} (hc1 : c1 < 4294967296)
    (hc2 : c2 < 4294967296) {i b : UInt32}
    (e1 : fromChunk ps (UInt32.ofNat c1) = some (i, b))
    (e2 : fromChunk ps (UInt32.ofNat c2) = some (i, b)) : c1 = c2 := by
  obtain ⟨i1, b1, f1, hi1, hb1⟩ := fromChunk_spec h1 hc1
  obtain ⟨i2, b2, f2, hi2, hb2⟩ := fromChunk_spec h1 hc2
  rw [e1] at f1; rw [e2] at f2
  cases f1; cases f2
  have hd : c1 / (ps.toNat / 16384) = c2 / (ps.toNat / 16384) := by rw [← hi1, ← hi2]
  have hm : c1 % (ps.toNat / 16384) = c2 % (ps.toNat / 16384) := by
    have : c1 % (ps.toNat / 16384) * 16384 = c2 % (ps.toNat / 16384) * 16384 := by
      rw [← hb1, ← hb2]
    omega
  have a1 := Nat.div_add_mod c1 (ps.toNat / 16384)
  have a2 := Nat.div_add_mod c2 (ps.toNat / 16384)
  rw [hd, hm] at a1
  omega

/-- **C11_request_no_dup.**  A `Request` never names a block for which a request is
    outstanding: in the state it is sent in, no entry of `requested` maps (by the same
    arithmetic) to the same `(index, begin)`.  The chunk numbers of the model are Go `uint32`
    values (`< 2^32`: hypotheses on the initial structure and on the scheduler's commands). -/
theorem C11_request_no_dup (p0 : Peer) (ops : List PeerOut.Op) (hg : 16384 ≤ p0.ps.toNat)
    (hinv : Requests.RInv p0.requests)
    (h0 : ∀ r, r ∈ p0.requests.queue ++ p0.requests.requested → r.index < 4294967296)
    (hops : ∀ op, op ∈ ops → ∀ ch, ch ∈ op.chunks → ch < 4294967296) :
    ∀ e, e ∈ trace p0 ops → ∀ i b l, e.msg = .request i b l →
      ∀ r, r ∈ e.pre.requests.requested → ∀ iu bu,
        fromChunk e.pre.ps (UInt32.ofNat r.index) = some (iu, bu) →
        ¬ (iu.toNat = i ∧ bu.toNat = b) := by
  intro e he i b l hm r hr iu bu hf ⟨hi, hb⟩
  obtain ⟨hsi, hloc⟩ := trace_ok (ps0 := p0.ps) (len0 := p0.length) (N := 4294967296) ops p0
    ⟨rfl, rfl, fun r hr => h0 r (List.mem_append.2 (Or.inl hr)),
      fun r hr => h0 r (List.mem_append.2 (Or.inr hr)), hinv⟩ hops e he
  obtain ⟨hps, _, hqb, hrb, hri⟩ := hsi
  unfold EmLocal at hloc
  rw [hm] at hloc
  obtain ⟨_, _, _, q, rest, hqueue, iq, bq, hfq, hiq, hbq, _⟩ := hloc
  rw [hps] at hf hfq
  have hqr : q.index ≠ r.index := by
    have hn := hri.1
    rw [hqueue] at hn
    simp only [Requests.idx, List.map_cons, List.cons_append, List.nodup_cons, List.mem_append,
      not_or] at hn
    intro e
    exact hn.1.2 (e ▸ List.mem_map.2 ⟨r, hr, rfl⟩)
  have hiu : iu = iq := UInt32.toNat_inj.1 (by rw [hi, hiq])
  have hbu : bu = bq := UInt32.toNat_inj.1 (by rw [hb, hbq])
  subst hiu hbu
  exact hqr (fromChunk_inj hg (hqb q (by rw [hqueue]; exact List.mem_cons_self)) (hrb r hr) hfq hf)

/-- **C11_requests_inv.**  The representation invariant of `Requests` holds for the empty
    structure and is kept by every operation (`Enqueue`, `Dequeue` — whose head is not
    outstanding and after which `EnqueueRequest` never panics —, `del` in both modes,
    `Cancel`, `Clear` in both modes, marking a request as `Expire` does, ageing); by
    `trace_ok` it holds in every state a history reaches and in every state a message is
    sent in (`trace_facts`). -/
theorem C11_requests_inv :
    Requests.RInv {} ∧
    (∀ rs c, Requests.RInv rs → Requests.RInv (Requests.enqueue rs c).1) ∧
    (∀ rs rs1 q, Requests.RInv rs → Requests.dequeue rs = some (q, rs1) →
      Requests.RInv rs1 ∧ q.index ∉ Requests.idx rs.requested ∧
      ∃ rs2, Requests.enqueueRequest rs1 q = some rs2 ∧ Requests.RInv rs2) ∧
    (∀ rs rs2 c ro q r, Requests.RInv rs → Requests.del rs c ro = some (rs2, q, r) →
      Requests.RInv rs2) ∧
    (∀ rs c, Requests.RInv rs → Requests.RInv (Requests.cancel rs c).1) ∧
    (∀ rs both, Requests.RInv rs → Requests.RInv (Requests.clear rs both).1) ∧
    (∀ rs d, Requests.RInv rs → Requests.RInv (Requests.age rs d)) := by
  refine ⟨Requests.RInv_empty, fun rs c h => Requests.RInv_enqueue h c, ?_,
    fun rs rs2 c ro q r h hd => (Requests.RInv_del h hd).1,
    fun rs c h => (Requests.RInv_cancel h c).1, ?_, fun rs d h => Requests.RInv_age h d⟩
  · intro rs rs1 q h hd
    obtain ⟨h1, h2, h3⟩ := Requests.RInv_dequeue h hd
    exact ⟨h1, h2, Requests.RInv_enqueueRequest h1 h3⟩
  · intro rs both h
    cases both
    · exact Requests.RInv_clear_false h
    · exact Requests.RInv_clear_both rs

/-- **C11_requests_no_panic.**  From the empty structure, no history of `Enqueue`,
    `Dequeue` (as `maybeRequest` uses it: non-empty queue, then `EnqueueRequest` of the request
    taken, or nothing), `Del`, `DelRequested`, `Cancel`, `Clear(true/false)`, `Expire` (any
    thresholds) and ageing ever panics ("Requests is broken!", "Incorrect use of
    Requests.EnqueueRequest", "Couldn't delete request", index out of range), and the
    representation invariant holds at the end. -/
theorem C11_requests_no_panic (ops : List Requests.ROp) :
    ∃ rs, Requests.rrun {} ops = some rs ∧ Requests.RInv rs :=
  Requests.rrun_inv ops {} Requests.RInv_empty

-- non-vacuity: Clear(false) with an unsent request in the queue, then Del of that chunk
-- (the very sequence that panics if Clear(false) keeps the stale membership bits)
example :
    ((Requests.rrun {} [.enqueue 3, .enqueue 4, .enqueue 5, .dequeue true, .clear false, .del 4,
        .cancel 3, .expire 0 0, .expire 0 0]).map
      (fun rs => (rs.queue.map (·.index), rs.requested.map (·.index)))) = some ([], []) := by
  decide

/-- `C11_request_no_dup` for the peers `New` creates (nothing queued, nothing sent): no
    hypothesis on the state is left; `< 2^32` only says that chunk numbers are Go `uint32`s. -/
theorem C11_request_no_dup_new (p0 : Peer) (ops : List PeerOut.Op) (hg : 16384 ≤ p0.ps.toNat)
    (hnew : p0.requests.queue = [] ∧ p0.requests.requested = [] ∧ p0.requests.member = fun _ => false)
    (hops : ∀ op, op ∈ ops → ∀ ch, ch ∈ op.chunks → ch < 4294967296) :
    ∀ e, e ∈ trace p0 ops → ∀ i b l, e.msg = .request i b l →
      ∀ r, r ∈ e.pre.requests.requested → ∀ iu bu,
        fromChunk e.pre.ps (UInt32.ofNat r.index) = some (iu, bu) →
        ¬ (iu.toNat = i ∧ bu.toNat = b) := by
  have hinv : Requests.RInv p0.requests := by
    obtain ⟨h1, h2, h3⟩ := hnew
    constructor
    · simp [Requests.idx, h1, h2]
    · intro c; simp [Requests.idx, h1, h2, h3]
  refine C11_request_no_dup p0 ops hg hinv ?_ hops
  intro r hr
  rw [hnew.1, hnew.2.1] at hr
  cases hr

/-- the unrepaired `fromChunk` gives a wrong offset for chunk 2^18 with 48 KiB pieces -/
def C11_request_wf_orig : Prop :=
  ∀ (ps : UInt32) (c : Nat), 16384 ≤ ps.toNat → ps.toNat % 16384 = 0 → c < 4294967296 →
    ∀ i b, fromChunkOrig ps (UInt32.ofNat c) = some (i, b) →
      i.toNat * ps.toNat + b.toNat = c * 16384

theorem C11_request_wf_orig_refuted : ¬ C11_request_wf_orig := by
  intro h
  have := h 49152 262144 (by decide) (by decide) (by decide) 87381 0 (by decide)
  revert this
  decide

-- non-vacuity: a concrete history that emits requests, a cancel and a have
example :
    (trace { ps := 32768, length := 100000, rbitmap := some [0xF0], unchoked := true }
      [.eRequest [0, 1, 6] (some 0), .eCancel 1, .eHave 2 true]).map (·.msg) =
      [.request 0 0 16384, .request 0 16384 16384, .cancel 0 16384 16384, .have 2] := by decide

example : Requests.RInv ({} : Peer).requests := Requests.RInv_empty

-- the hypotheses of `C11_request_wf` / `C11_request_no_dup` / `C11_have_range` hold for the
-- history above (100000 bytes = 7 blocks, 4 pieces of 32 KiB)
example : ∀ op, op ∈ [PeerOut.Op.eRequest [0, 1, 6] (some 0), .eCancel 1, .eHave 2 true] →
    ∀ ch, ch ∈ op.chunks → ch < nChunks 100000 := by decide
example : ∀ i h, PeerOut.Op.eHave i h ∈
    [PeerOut.Op.eRequest [0, 1, 6] (some 0), .eCancel 1, .eHave 2 true] →
    i < numPiecesOf 32768 100000 := by
  intro i h hm
  simp only [List.mem_cons, List.not_mem_nil, or_false, reduceCtorEq, false_or,
    PeerOut.Op.eHave.injEq] at hm
  rw [hm.1]; decide
-- a request is emitted at the depth limit boundary: reqQ = 2, two outstanding, third waits
example :
    (trace { ps := 32768, length := 100000, rbitmap := some [0xF0], unchoked := true, reqQ := 2 }
      [.eRequest [0, 1, 2] none]).map (·.msg) = [.request 0 0 16384, .request 0 16384 16384] := by
  decide

example : GeomOK 32768 100000 := ⟨by decide, by decide, by decide, by decide⟩

end Storrent.C11
