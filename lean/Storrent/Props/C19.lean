import Storrent.Model.Http
import Storrent.Model.HttpTable
import Storrent.Lemmas.Http
import Storrent.Gen.HttpSites
/-
C19 — The web UI is local-only and injection-free.

Tables (`Gen.httpRoutes`, `Gen.httpSites`) are regenerated from http/*.go on every run;
the table theorems below are decided over the regenerated tables themselves, so they speak
about the source as it is now.  The string-level theorems are about the transcriptions in
`Model/Http.lean`, tied to the real `net`, `html`, `net/url` and http.go functions by the
`cl` / `he` / `pu` / `m3u` correspondence streams.
-/
namespace Storrent.Http
open Storrent

set_option maxRecDepth 16000   -- `decide` over the ~130-row generated site table

/-! ## Local-only -/

/-- the three routes of `Serve`, each registered with a plain handler function on the
    default mux, each guarded (also what `VerifMux`, driven by the harness, registers) -/
theorem C19_gen_routes : Gen.httpRoutes = expectedRoutes := by decide

/-- every handler registered anywhere in package http starts with
    `if !checkLocal(w, r) { return }`, and is one of the three known handlers -/
theorem C19_every_route_guarded :
    ∀ r ∈ Gen.httpRoutes, r.guarded = true ∧
      r.handler ∈ ["rootHandler", "torRootHandler", "torHandler"] := by decide

/-- the routes of the mux that is really served.  `Serve` creates an `http.Server` without
    Handler, i.e. it dispatches through the process-global `http.DefaultServeMux`, and
    registers its three handlers there; nothing else may add routes to that mux behind
    checkLocal's back: package http has no blank import and imports no package known to
    register debug handlers, and no package in the transitive import closure of package http
    and of the main package (found by scanning their sources for http.Handle /
    http.HandleFunc / http.DefaultServeMux, not by name) touches the default mux -/
theorem C19_no_side_effect_routes :
    Gen.httpServeMux = "default" ∧
    (∀ i ∈ Gen.httpImports, i.name ≠ "_" ∧ i.path ∉ sideEffectPkgs) ∧
    Gen.httpClosureSideEffect = [] ∧
    Gen.httpDefaultMuxUsers = [] ∧
    50 < Gen.httpClosureSize := by decide

/-- the decision depends on nothing but the Host header: the only field of the request
    `checkLocal` reads is `r.Host` (no r.Header — Origin, Referer, X-Forwarded-Host… —, no
    r.URL, r.RemoteAddr, r.Form, cookies; the request is not handed to any other function).
    Together with the model, in which `checkLocal` is a function of the Host string alone,
    and the harness's attribute sweep, no other attribute of a request can make a foreign
    Host acceptable or a local one refused. -/
theorem C19_checklocal_reads_host_only : Gen.checkLocalReads = ["r.Host"] := by decide

/-- a DNS name in the sense of the property: no colon (so not an IPv6 literal) and at
    least one character that is neither a digit nor a dot (so not a dotted quad) -/
def dnsName (h : Str) : Prop := 58 ∉ h ∧ ∃ c ∈ h, isDigit c = false ∧ c ≠ 46

/-- whatever `checkLocal` lets through has the host part `localhost` or an IP literal, and
    an IP literal is digits-and-dots or contains a colon -/
theorem C19_accepted_hosts (hp : Str) (h : checkLocal hp = .ok) :
    ∃ host port, splitHostPort hp = some (host, port) ∧
      (host = localhost ∨ (parseIP host = true ∧
        ((∀ c ∈ host, isDigit c = true ∨ c = 46) ∨ 58 ∈ host))) := by
  unfold checkLocal at h
  split at h
  · cases h
  · rename_i host port hs
    refine ⟨host, port, hs, ?_⟩
    by_cases hl : host = localhost
    · exact Or.inl hl
    · by_cases hpi : parseIP host = true
      · exact Or.inr ⟨hpi, parseIP_shape host hpi⟩
      · have : parseIP host = false := by simpa using hpi
        simp [hl, this] at h

/-- every Host whose host part is a DNS name other than `localhost` is refused (403) -/
theorem C19_host_refused (hp host port : Str) (hs : splitHostPort hp = some (host, port))
    (hd : dnsName host) (hl : host ≠ localhost) : checkLocal hp = .forbidden := by
  have hne : checkLocal hp ≠ .ok := by
    intro hok
    obtain ⟨host', port', hs', hcase⟩ := C19_accepted_hosts hp hok
    rw [hs] at hs'
    injection hs' with hs'
    injection hs' with h1 h2
    subst h1
    rcases hcase with h | ⟨_, h | h⟩
    · exact hl h
    · obtain ⟨_, c, hc, hnd, hndot⟩ := hd
      rcases h c hc with h' | h'
      · rw [hnd] at h'; cases h'
      · exact hndot h'
    · exact hd.1 h
  unfold checkLocal at hne ⊢
  rw [hs] at hne ⊢
  simp only at hne ⊢
  split
  · rfl
  · rename_i hc; simp [hc] at hne

/-- the full statement: every Host whose host part is not `localhost` and is not accepted
    by the ParseIP model is refused — and `checkLocal` says ok for nothing else -/
theorem C19_host_refused_full (hp host port : Str) (hs : splitHostPort hp = some (host, port)) :
    (host ≠ localhost ∧ parseIP host = false → checkLocal hp = .forbidden) ∧
    (checkLocal hp = .ok ↔ host = localhost ∨ parseIP host = true) := by
  unfold checkLocal
  rw [hs]
  simp only
  by_cases hl : host = localhost
  · simp [hl]
  · cases hpi : parseIP host <;> simp [hl]

/-- an IP literal is made of hex digits, ':' and '.' only: a name containing any other byte
    — e.g. any ASCII letter g–z / G–Z, a hyphen, an underscore — is never an IP literal -/
theorem C19_dns_name_not_ip (s : Str) (c : UInt8) (hc : c ∈ s)
    (hout : isHexDigit c = false ∧ c ≠ 58 ∧ c ≠ 46) : parseIP s = false := by
  cases h : parseIP s
  · rfl
  · have := parseIP_chars s h c hc
    unfold ipChar at this
    simp [hout.1, hout.2.1, hout.2.2] at this

/-- in particular: a byte in g–z or G–Z anywhere in the host part (and the host part is not
    `localhost`) means refusal, brackets or not -/
theorem C19_host_with_letter_refused (hp host port : Str) (hs : splitHostPort hp = some (host, port))
    (hl : host ≠ localhost) (c : UInt8) (hc : c ∈ host)
    (hletter : (103 ≤ c ∧ c ≤ 122) ∨ (71 ≤ c ∧ c ≤ 90)) : checkLocal hp = .forbidden := by
  apply (C19_host_refused_full hp host port hs).1
  refine ⟨hl, C19_dns_name_not_ip host c hc ?_⟩
  have h1 : isHexDigit c = false := by
    unfold isHexDigit
    rcases hletter with ⟨a, b⟩ | ⟨a, b⟩ <;>
      (simp only [UInt8.le_iff_toNat_le, UInt8.reduceToNat] at a b
       simp only [Bool.or_eq_false_iff, Bool.and_eq_false_iff, decide_eq_false_iff_not,
         UInt8.le_iff_toNat_le, UInt8.reduceToNat]
       omega)
  refine ⟨h1, ?_, ?_⟩ <;> (intro e; subst e; rcases hletter with ⟨a, b⟩ | ⟨a, b⟩ <;> revert a b <;> decide)

/-- a Host header without a usable `host:port` shape never reaches a handler body (400) -/
theorem C19_unsplittable_refused (hp : Str) (hs : splitHostPort hp = none) :
    checkLocal hp = .badRequest := by
  unfold checkLocal; rw [hs]

/-- surface form: the header `name:port` with a DNS name other than localhost is refused -/
theorem C19_host_header_refused (name port : Str) (hd : dnsName name) (hl : name ≠ localhost)
    (hn : 91 ∉ name ∧ 93 ∉ name) (hp : 58 ∉ port ∧ 91 ∉ port ∧ 93 ∉ port) :
    checkLocal (name ++ 58 :: port) = .forbidden :=
  C19_host_refused _ name port (splitHostPort_plain name port ⟨hd.1, hn.1, hn.2⟩ hp) hd hl

/-- …and without a port it is refused as well (SplitHostPort fails: 400) -/
theorem C19_host_header_no_port_refused (name : Str) (hd : dnsName name) :
    checkLocal name = .badRequest := by
  apply C19_unsplittable_refused
  unfold splitHostPort
  rw [lastIndexOf_none 58 name hd.1]

/-- A handler whose first statement is the guard: `body` (arbitrary: it may read and change
    the state `σ`) runs only when `checkLocal` says ok. -/
inductive Reply (ρ : Type) where
  | served (r : ρ)
  | refused (code : Nat)
  deriving Repr

def guarded {σ ρ : Type} (body : σ → Str → σ × ρ) (s : σ) (hostHeader : Str) (req : Str) :
    σ × Reply ρ :=
  match checkLocal hostHeader with
  | .ok => let (s', r) := body s req; (s', .served r)
  | .badRequest => (s, .refused 400)
  | .forbidden => (s, .refused 403)

/-- refusal precedes any read or change: for every handler body, state and request, a DNS
    name other than localhost leaves the state untouched and the reply does not depend on it -/
theorem C19_refusal_reads_nothing {σ ρ : Type} (body : σ → Str → σ × ρ) (s : σ)
    (hp host port req : Str) (hs : splitHostPort hp = some (host, port))
    (hd : dnsName host) (hl : host ≠ localhost) :
    guarded body s hp req = (s, .refused 403) := by
  unfold guarded
  rw [C19_host_refused hp host port hs hd hl]

/-! ## Injection-free: the output sites -/

/-- every argument of every HTML output site of package http is escaped, path-escaped,
    hex, a number, an address, a constant (or the request's own Host) — never raw -/
theorem C19_sites_escaped : ∀ s ∈ Gen.httpSites, s.htmlSafe = true := by decide

/-- the same statement as a list of counter-examples (file:line, expression): empty -/
theorem C19_no_raw_html_argument : rawHtmlArgs Gen.httpSites = [] := by decide

/-- the quoting context of every argument of every HTML output site, derived from the
    format strings: escaped / path-escaped strings only as element text or inside a
    double-quoted attribute value; inside a tag, an unquoted value, a comment, a style or a
    script block only constants, numbers and hex (in the script block also the request's own
    Host) — no torrent-, tracker- or peer-controlled string, escaped or not; and the
    extractor found a context for every argument -/
theorem C19_sites_context_safe : ∀ s ∈ Gen.httpSites, s.contextSafe = true := by decide

/-- the context analysis is not vacuous: the script block of `header`, attribute and tag
    contexts are recognised where they are -/
theorem C19_gen_sites_context_cover :
    (∃ s ∈ Gen.httpSites, s.fn = "header" ∧ s.ctxs = [.script] ∧ s.args = [.request "r.Host"]) ∧
    (∃ s ∈ Gen.httpSites, s.fn = "torrentFile" ∧ s.ctxs = [.attrDq, .attrDq, .text, .text, .text]) ∧
    (∃ s ∈ Gen.httpSites, s.fn = "torrentEntry" ∧ s.ctxs = [.attrDq, .tag, .text] ∧
        s.args = [.number, .const, .number]) ∧
    (∀ s ∈ Gen.httpSites, s.isHtml = true → s.ctxs.length = s.args.length) := by decide

/-- the table is not vacuous: each HTML-writing function contributes sites, and the sites
    printing the torrent name, the tracker URL/state, the web-seed URL and the link paths
    (`html.EscapeString(pathUrl(…))`) are there, escaped -/
theorem C19_gen_sites_cover :
    (∀ f ∈ htmlFns, ∃ s ∈ Gen.httpSites, s.fn = f ∧ s.isHtml = true) ∧
    (∃ s ∈ Gen.httpSites, s.fn = "torrentEntry" ∧ s.isHtml = true ∧ s.args = [.hex, .escaped]) ∧
    (∃ s ∈ Gen.httpSites, s.fn = "peers" ∧ s.isHtml = true ∧ s.args = [.escaped, .escaped]) ∧
    (∃ s ∈ Gen.httpSites, s.fn = "peers" ∧ s.isHtml = true ∧ s.args = [.escaped, .number, .number]) ∧
    (∃ s ∈ Gen.httpSites, s.fn = "torrentFile" ∧ s.args = [.hex, .escaped, .escaped, .number, .number]) ∧
    (∃ s ∈ Gen.httpSites, s.fn = "torrentDir" ∧ s.args = [.hex, .escaped, .escaped, .hex, .escaped]) := by
  decide

/-! ## Injection-free: the escaping functions -/

/-- `html.EscapeString s` contains none of `< > " '` and every `&` starts one of the five
    entities; `pathUrl p` contains none of `< > " '`, space, LF, CR — for every input -/
theorem C19_escape_sound :
    (∀ (s pre suf : Str) (c : UInt8), htmlEscape s = pre ++ c :: suf →
        (c ≠ 60 ∧ c ≠ 62 ∧ c ≠ 34 ∧ c ≠ 39) ∧ (c = 38 → ∃ e ∈ entities, e <+: c :: suf)) ∧
    (∀ (p : List Str) (u : Str), pathUrl p = .ok u →
        ∀ b ∈ u, b ≠ 60 ∧ b ≠ 62 ∧ b ≠ 34 ∧ b ≠ 39 ∧ b ≠ 32 ∧ b ≠ 10 ∧ b ≠ 13) := by
  refine ⟨fun s pre suf c h => wellEscaped_spec pre _ (wellEscaped_htmlEscape s) c suf h, ?_⟩
  intro p u h b hb
  have := pathUrl_safe p u h b hb
  simp only [pathSafe, Bool.and_eq_true, bne_iff_ne, ne_eq] at this
  obtain ⟨⟨⟨⟨⟨⟨h1, h2⟩, h3⟩, h4⟩, h5⟩, h6⟩, h7⟩ := this
  exact ⟨h1, h2, h3, h4, h5, h6, h7⟩

/-- escaping is faithful for strings without metacharacters (nothing else is touched) -/
theorem C19_escape_id (s : Str) (h : ∀ c ∈ s, c ≠ 38 ∧ c ≠ 39 ∧ c ≠ 60 ∧ c ≠ 62 ∧ c ≠ 34) :
    htmlEscape s = s := by
  induction s with
  | nil => rfl
  | cons c s ih =>
    have hc := h c List.mem_cons_self
    have : htmlEscape (c :: s) = escByte c ++ htmlEscape s := by simp [htmlEscape, List.flatMap_cons]
    rw [this, ih (fun x hx => h x (List.mem_cons_of_mem _ hx))]
    simp [escByte, hc.1, hc.2.1, hc.2.2.1, hc.2.2.2.1, hc.2.2.2.2]

/-- `pathUrl` faults exactly on the empty path (`b[0:len(b)-1]` with `len(b) = 0`) -/
theorem C19_pathUrl_fault_iff (p : List Str) : pathUrl p = .panic ↔ p = [] := pathUrl_panic_iff p

/-! ## Playlists -/

theorem count_zero_of_safe (l : Str) (h : ∀ b ∈ l, pathSafe b = true) :
    l.count 10 = 0 ∧ l.count 13 = 0 := by
  constructor <;> (rw [List.count_eq_zero]; intro hm; have := h _ hm; revert this; decide)

theorem hexOfBytes_safe (h : Str) : ∀ b ∈ hexOfBytes h, pathSafe b = true := by
  intro b hb
  unfold hexOfBytes at hb
  obtain ⟨x, _, hx⟩ := List.mem_flatMap.mp hb
  simp only [List.mem_cons, List.not_mem_nil, or_false] at hx
  rcases hx with rfl | rfl <;> exact hexLower_safe _

theorem m3uTitle_count (s : Str) : (m3uTitle s).count 10 = 0 ∧ (m3uTitle s).count 13 = 0 := by
  constructor <;>
  · rw [List.count_eq_zero]
    intro hm
    have := (List.mem_filter.mp hm).2
    revert this; decide

/-- one `m3uentry` writes exactly two lines, for every file name and path (and any Host
    header, which cannot contain CR/LF): no torrent-controlled string can add a line -/
theorem C19_m3u_lines (host hash : Str) (path : List Str) (out : Str)
    (hh : 10 ∉ host ∧ 13 ∉ host) (h : m3uentry host hash path = .ok out) :
    out.count 10 = 2 ∧ out.count 13 = 0 ∧ out.getLast? = some 10 := by
  unfold m3uentry m3uentryWith at h
  split at h
  · cases h
  · rename_i last _
    split at h
    · cases h
    · rename_i u hu
      injection h with h
      subst h
      have hu' := count_zero_of_safe u (pathUrl_safe path u hu)
      have hx := count_zero_of_safe _ (hexOfBytes_safe hash)
      have ht := m3uTitle_count last
      have hh10 : host.count 10 = 0 := List.count_eq_zero.mpr hh.1
      have hh13 : host.count 13 = 0 := List.count_eq_zero.mpr hh.2
      have e10 : extinf.count 10 = 0 := by decide
      have e13 : extinf.count 13 = 0 := by decide
      have s10 : httpScheme.count 10 = 0 := by decide
      have s13 : httpScheme.count 13 = 0 := by decide
      refine ⟨?_, ?_, ?_⟩
      · simp only [List.count_append, e10, s10, ht.1, hh10, hx.1, hu'.1]
        decide
      · simp only [List.count_append, e13, s13, ht.2, hh13, hx.2, hu'.2]
        decide
      · rw [← List.append_assoc]; exact List.getLast?_concat

/-- `m3uentry` faults exactly on the empty path (`path[len(path)-1]`) -/
theorem C19_m3u_fault_iff (host hash : Str) (path : List Str) :
    m3uentry host hash path = .panic ↔ path = [] := by
  unfold m3uentry m3uentryWith
  cases path with
  | nil => simp
  | cons s ss =>
    have hne : pathUrl (s :: ss) ≠ .panic := fun h => by
      have := (pathUrl_panic_iff (s :: ss)).mp h; cases this
    constructor
    · intro h
      split at h
      · rename_i hl; simp at hl
      · split at h
        · rename_i hp; exact absurd hp hne
        · cases h
    · intro h; cases h

/-- the statement about the function as it was before the repair (only ',' stripped) -/
def C19_m3u_lines_unfixed : Prop :=
  ∀ (host hash : Str) (path : List Str) (out : Str), 10 ∉ host ∧ 13 ∉ host →
    m3uentryUnfixed host hash path = .ok out → out.count 10 = 2 ∧ out.count 13 = 0

/-- …is false: a file called "a\nb" adds a line (the witness replayed by the harness) -/
theorem C19_m3u_lines_unfixed_refuted : ¬ C19_m3u_lines_unfixed := by
  intro h
  have := h [] [] [[97, 10, 98]] _ ⟨by simp, by simp⟩ rfl
  revert this
  decide

/-! ## Non-vacuity -/

example : checkLocal [101, 118, 105, 108, 46, 99, 111, 109, 58, 56, 48, 56, 48] /- evil.com:8080 -/ = .forbidden := by decide
example : checkLocal [108, 111, 99, 97, 108, 104, 111, 115, 116, 58, 56, 48, 56, 48] /- localhost:8080 -/ = .ok := by decide
example : checkLocal [49, 50, 55, 46, 48, 46, 48, 46, 49, 58, 56, 48, 56, 48] /- 127.0.0.1:8080 -/ = .ok := by decide
example : checkLocal [91, 58, 58, 49, 93, 58, 56, 48, 56, 48] /- [::1]:8080 -/ = .ok := by decide
example : checkLocal [49, 46, 50, 46, 51, 46, 52, 46, 101, 118, 105, 108, 46, 99, 111, 109, 58, 56, 48] /- 1.2.3.4.evil.com:80 -/ = .forbidden := by decide
example : checkLocal [101, 118, 105, 108, 46, 99, 111, 109] /- evil.com -/ = .badRequest := by decide
example : checkLocal [91, 58, 58, 102, 102, 102, 102, 58, 49, 46, 50, 46, 51, 46, 52, 93, 58, 49] /- [::ffff:1.2.3.4]:1 -/ = .ok := by decide
example : checkLocal [91, 49, 58, 50, 58, 51, 58, 52, 58, 53, 58, 54, 58, 55, 58, 56, 58, 57, 93, 58, 49] /- nine groups -/ = .forbidden := by decide
example : checkLocal [48, 49, 46, 50, 46, 51, 46, 52, 58, 56, 48] /- 01.2.3.4:80 -/ = .forbidden := by decide
example : dnsName [101, 118, 105, 108, 46, 99, 111, 109] := ⟨by decide, 101, by decide, by decide, by decide⟩
example : htmlEscape [60, 97, 38, 34] = entLt ++ [97] ++ entAmp ++ entQuot := by decide
example : pathUrl [[97, 32, 47], [60]] = .ok [97, 37, 50, 48, 37, 50, 70, 47, 37, 51, 67] := by decide
example : ∃ out, m3uentry [104] [171] [[97, 44, 13, 10, 98]] = .ok out := ⟨_, rfl⟩

end Storrent.Http
