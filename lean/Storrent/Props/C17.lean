import Storrent.Model.Lifecycle
import Storrent.Gen.Blocking
/-
C17 — Torrent lifecycle: no call hangs, deletion is complete.
Table theorems are over the blocking-point table regenerated from the Go source on every
run; the model theorems are over every spec that satisfies the (decidable) guardedness
predicates, every initial parameter and every interleaving (all lists of labels).
-/
namespace Storrent.Lifecycle
open Storrent

/-! ## the regenerated tables -/

theorem C17_gen_blocking : Gen.blocking = expectedBlocking := by decide
theorem C17_gen_teardown : Gen.teardown = expectedTeardown := by decide
/-- no exported method of *Torrent communicates outside the extractor's list, and every
    listed function was found -/
theorem C17_gen_complete : Gen.blockingUnlisted = [] ∧ Gen.blockingMissing = [] := by decide
/-- peer.Run registers the defer that closes peer.Done before its first return -/
theorem C17_gen_peer_done_defer : Gen.peerDoneDeferBeforeReturns = true := by decide
/-- … and `close(peer.Done)` is the first statement of that deferred block: the flush loop
    after it leaves the block with a bare `return` when the torrent's Done is closed -/
theorem C17_gen_peer_done_first : Gen.peerDoneCloseFirst = true := by decide

def Point.guarded (p : Point) : Bool :=
  p.sel && (p.alts.contains .tDone || p.alts.contains .pDone || p.alts.contains .ctxDone
            || p.alts.contains .dflt)

/-- the explicit exceptions: the bare reply sends `c.Ch <- v` of the two event loops -/
def Point.isReplySend (p : Point) : Bool :=
  (p.fn == "tor.handleEvent" || p.fn == "peer.handleEvent") && p.dir == .send && p.ch == "c.Ch"
  && !p.sel

/-- Every blocking point of the listed functions is a case of a `select` that also has a
    Done / context / default alternative; the only exceptions are the loops' reply sends. -/
theorem C17_points_guarded :
    ∀ p ∈ Gen.blocking, p.guarded = true ∨ p.isReplySend = true := by decide

/-- Justification of the exceptions, table part: every receiver of such a reply (the API
    calls of Torrent, the getters of Peer) waits in a `select` whose ONLY other alternative
    is the Done channel of the loop that answers — so it cannot go away while that loop is
    blocked in the send (model part: `C17_loop_never_stuck`). -/
theorem C17_reply_receivers_parked :
    ∀ p ∈ Gen.blocking, p.dir = .recv → p.ch = "ch" →
      p.sel = true ∧ (p.alts = [.tDone] ∨ p.alts = [.pDone]) := by decide

/-- every operation has a spec in the table, and that spec is guarded and reply-safe -/
theorem C17_specs_guarded :
    ∀ op ∈ allOps, ∃ sp, specOf Gen.blocking op = some sp ∧ sp.guarded = true ∧
      sp.replySafe = true := by decide

/-! ## invariants of the call automaton -/

theorem follows_of (pre : List Phase) (a : List Alt) (post : List Phase)
    (h : replyFollowsSend (pre ++ .send a :: post) = true) :
    ∃ s b post', post = .reply s b :: post' := by
  induction pre with
  | nil =>
    cases post with
    | nil => simp [replyFollowsSend] at h
    | cons q post' =>
      cases q <;> simp [replyFollowsSend] at h
      exact ⟨_, _, _, rfl⟩
  | cons p pre ih =>
    simp only [List.cons_append, replyFollowsSend, Bool.and_eq_true] at h
    exact ih h.2

structure Inv (sp : Spec) (c : Cfg) : Prop where
  suffix : ∃ pre, sp.phases = pre ++ c.todo
  deadTear : c.res = some .dead → 1 ≤ c.tear
  atLoopTear : c.cmd = .atLoop → c.tear = 0
  resTodo : c.res.isSome → c.todo = []
  pending : sp.hasReply = true → c.tear = 0 → (c.cmd = .atLoop ∨ ∃ k, c.cmd = .queued k) →
    c.res = none ∧ ∃ s a rest, c.todo = .reply s a :: rest

theorem inv_init (sp : Spec) (ctx room : Bool) (ahead : Nat) : Inv sp (init sp ctx room ahead) := by
  refine ⟨⟨[], by simp [init]⟩, ?_, ?_, ?_, ?_⟩
  · simp only [init]; split <;> simp
  · simp [init]
  · simp only [init]; split <;> simp_all
  · intro _ _ h; rcases h with h | ⟨k, h⟩ <;> simp [init] at h

theorem advance_res (c : Cfg) (rest : List Phase) :
    (advance c rest).res = if rest.isEmpty then some .ok else none := rfl

theorem inv_step (sp : Spec) (hs : sp.replySafe = true) (c c' : Cfg) (l : Label)
    (hi : Inv sp c) (h : step sp c l = some c') : Inv sp c' := by
  obtain ⟨⟨pre, hpre⟩, hdead, hat, hrt, hpend⟩ := hi
  simp only [Spec.replySafe, Bool.and_eq_true, Bool.or_eq_true, Bool.not_eq_true',
    List.all_eq_true] at hs
  obtain ⟨⟨hsafe, hd0⟩, hfol⟩ := hs
  have hd : sp.doneAlt ≠ .ctxDone := by simpa using hd0
  -- a caller step that consumes the head phase
  have adv : ∀ p rest (c2 : Cfg), c.todo = p :: rest → c.res = none →
      c2.todo = rest → c2.res = (if rest.isEmpty then some .ok else none) → c2.tear = c.tear →
      (∀ s a, p = .reply s a → c2.cmd = .handled) →
      (c2.cmd = .atLoop → c.cmd = .atLoop) →
      ((∀ s a, p ≠ .reply s a) → (∀ a', p ≠ .send a') → c2.cmd = c.cmd) →
      Inv sp c2 := by
    intro p rest c2 htodo hres h2todo h2res h2tear hrep hatl hsame
    refine ⟨⟨pre ++ [p], by simp [hpre, htodo, h2todo]⟩, ?_, ?_, ?_, ?_⟩
    · rw [h2res]; split <;> simp
    · intro h; rw [h2tear]; exact hat (hatl h)
    · rw [h2res, h2todo]; split <;> simp_all
    · intro hr ht hc
      rw [h2tear] at ht
      rw [h2res, h2todo]
      by_cases hsend : ∃ a, p = .send a
      · obtain ⟨a, rfl⟩ := hsend
        have hf : replyFollowsSend sp.phases = true := by
          rcases hfol with h | h
          · simp [hr] at h
          · exact h
        rw [hpre, htodo] at hf
        obtain ⟨s, b, post', rfl⟩ := follows_of pre a rest hf
        exact ⟨by simp, s, b, post', rfl⟩
      · by_cases hrp : ∃ s a, p = .reply s a
        · obtain ⟨s, a, rfl⟩ := hrp
          have := hrep s a rfl
          rw [this] at hc
          rcases hc with h | ⟨k, h⟩ <;> simp at h
        · have hcm : c2.cmd = c.cmd := hsame (fun s a h => hrp ⟨s, a, h⟩) (fun a h => hsend ⟨a, h⟩)
          rw [hcm] at hc
          obtain ⟨_, s, a, r2, h2⟩ := hpend hr ht hc
          rw [htodo] at h2
          injection h2 with h2 _
          exact absurd ⟨s, a, h2⟩ hrp
  have fin : ∀ r, c.res = none → (r = .dead → 1 ≤ c.tear) →
      (sp.hasReply = true → c.tear = 0 → (c.cmd = .atLoop ∨ ∃ k, c.cmd = .queued k) → False) →
      Inv sp (finish c r) := by
    intro r hres hr hno
    refine ⟨⟨sp.phases, by simp [finish]⟩, ?_, ?_, ?_, ?_⟩
    · intro h; simp only [finish] at h ⊢; injection h with h; exact hr h
    · simpa [finish] using hat
    · simp [finish]
    · intro a b d; exact (hno a (by simpa [finish] using b) (by simpa [finish] using d)).elim
  cases l
  case lookupOk =>
    simp only [step] at h
    split at h <;> try simp at h
    rename_i rest hres htodo
    obtain ⟨hc, rfl⟩ := h
    exact adv .lookup rest _ htodo hres rfl rfl rfl (by simp) (by simp [advance]) (by simp [advance])
  case lookupGone =>
    simp only [step] at h
    split at h <;> try simp at h
    rename_i rest hres htodo
    obtain ⟨hc, rfl⟩ := h
    refine fin .gone hres (by simp) ?_
    intro a b d
    obtain ⟨_, s, x, r, h2⟩ := hpend a b d
    rw [htodo] at h2; simp at h2
  case enqueue =>
    simp only [step] at h
    split at h <;> try simp at h
    rename_i a rest hres htodo
    obtain ⟨hc, rfl⟩ := h
    exact adv (.send a) rest _ htodo hres rfl rfl rfl (by simp) (by simp) (fun _ h => absurd rfl (h a))
  case recvReply =>
    simp only [step] at h
    split at h <;> try simp at h
    rename_i s a rest hres htodo
    obtain ⟨hc, rfl⟩ := h
    exact adv (.reply s a) rest _ htodo hres rfl rfl rfl (by simp) (by simp) (fun h _ => absurd rfl (h s a))
  case recvSignal =>
    simp only [step] at h
    split at h <;> try simp at h
    rename_i a rest hres htodo
    obtain ⟨hc, rfl⟩ := h
    exact adv (.signal a) rest _ htodo hres rfl rfl rfl (by simp) (by simp [advance]) (by simp [advance])
  case recvDeleted =>
    simp only [step] at h
    split at h <;> try simp at h
    rename_i a rest hres htodo
    obtain ⟨hc, rfl⟩ := h
    exact adv (.deleted a) rest _ htodo hres rfl rfl rfl (by simp) (by simp [advance]) (by simp [advance])
  case retDead =>
    simp only [step] at h
    split at h <;> try simp at h
    rename_i p rest hres htodo
    obtain ⟨hc, rfl⟩ := h
    exact fin .dead hres (fun _ => hc.2) (fun _ b _ => by omega)
  case retCtx =>
    simp only [step] at h
    split at h <;> try simp at h
    rename_i p rest hres htodo
    obtain ⟨hc, rfl⟩ := h
    refine fin .ctx hres (by simp) ?_
    intro a b d
    obtain ⟨_, s, x, r, h2⟩ := hpend a b d
    rw [htodo] at h2
    injection h2 with h2 _
    subst h2
    have hm : Phase.reply s x ∈ sp.phases := by rw [hpre, htodo]; simp
    have := hsafe _ hm
    simp only [Phase.replySafe, List.all_eq_true, beq_iff_eq] at this
    have hc1 := hc.1
    simp only [Phase.alts] at hc1
    exact hd (this _ hc1).symm
  case dequeueOther =>
    simp only [step] at h
    split at h <;> try simp at h
    rename_i k hk
    obtain ⟨hc, rfl⟩ := h
    refine ⟨⟨pre, hpre⟩, hdead, by simp, hrt, ?_⟩
    intro a b _
    exact hpend a b (Or.inr ⟨k + 1, hk⟩)
  case dequeueMine =>
    simp only [step] at h
    split at h <;> try simp at h
    rename_i hk
    obtain ⟨ht, h⟩ := h
    split at h
    · simp at h; subst h
      exact ⟨⟨pre, hpre⟩, fun x => by simp, by simp, hrt, fun _ b _ => by simp at b⟩
    · split at h <;> simp at h <;> subst h
      · exact ⟨⟨pre, hpre⟩, hdead, fun _ => ht, hrt, fun a b _ => hpend a b (Or.inr ⟨0, hk⟩)⟩
      · rename_i hr
        exact ⟨⟨pre, hpre⟩, hdead, by simp, hrt, fun a _ _ => absurd a hr⟩
  case closeSig =>
    simp only [step] at h
    split at h <;> simp at h
    subst h
    exact ⟨⟨pre, hpre⟩, hdead, hat, hrt, hpend⟩
  case cancelCtx =>
    simp only [step] at h
    split at h <;> simp at h
    subst h
    exact ⟨⟨pre, hpre⟩, hdead, hat, hrt, hpend⟩
  case exit =>
    simp only [step] at h
    split at h <;> simp at h
    rename_i hc
    subst h
    exact ⟨⟨pre, hpre⟩, fun _ => by simp, fun x => absurd x hc.2, hrt, fun _ b _ => by simp at b⟩
  case tearNext =>
    simp only [step] at h
    split at h <;> simp at h
    rename_i hc
    subst h
    refine ⟨⟨pre, hpre⟩, fun _ => by simp, ?_, hrt, fun _ b _ => by simp at b⟩
    intro x
    have := hat x
    omega
  case drain =>
    simp only [step] at h
    split at h <;> simp at h
    subst h
    exact ⟨⟨pre, hpre⟩, hdead, hat, hrt, hpend⟩

theorem inv_reach (sp : Spec) (hs : sp.replySafe = true) (c : Cfg) (h : Reach sp c) : Inv sp c := by
  induction h with
  | init ctx room ahead => exact inv_init sp ctx room ahead
  | step l _ hstep ih => exact inv_step sp hs _ _ l ih hstep


theorem step_small (sp : Spec) (c c' : Cfg) (l : Label) (h : step sp c l = some c')
    (h1 : c.todo = [] → c.res.isSome) (h2 : c.cmd = .atLoop → sp.hasReply = true) :
    (c'.todo = [] → c'.res.isSome) ∧ (c'.cmd = .atLoop → sp.hasReply = true) := by
  cases l <;> simp only [step] at h <;> (repeat' split at h) <;>
    simp_all [advance, finish] <;> (try (obtain ⟨_, rfl⟩ := h; simp_all)) <;>
    (try (subst h; simp_all))

theorem small_reach (sp : Spec) (c : Cfg) (h : Reach sp c) :
    (c.todo = [] → c.res.isSome) ∧ (c.cmd = .atLoop → sp.hasReply = true) := by
  induction h with
  | init ctx room ahead => simp only [init]; constructor <;> intro h <;> simp_all
  | step l _ hstep ih => exact step_small sp _ _ l hstep ih.1 ih.2

theorem callerEnabled_of {sp : Spec} {c : Cfg} (l : Label) (hl : l ∈ callerLabels)
    (h : (step sp c l).isSome = true) : callerEnabled sp c = true := by
  simp only [callerEnabled, List.any_eq_true]; exact ⟨l, hl, h⟩

/-! ## the property theorems -/

/-- **No hang.**  For every spec whose blocking points are guarded (all operations of the
    source are: `C17_specs_guarded`), whatever the initial queue, context and interleaving —
    i.e. wherever the loop stopped relative to the call: before the command was queued,
    while it sat in the queue, or after it was answered — once the loop has exited
    (`1 ≤ tear`) a caller that has not returned has an enabled transition; the only
    exception is a wait for `Deleted` (Kill), where the teardown's own next step is enabled
    and leads to `tear = 4`, at which point the wait is enabled. -/
theorem C17_no_hang (sp : Spec) (hg : sp.guarded = true) (hs : sp.replySafe = true) (c : Cfg)
    (hr : Reach sp c) (ht : 1 ≤ c.tear) (hres : c.res = none) :
    callerEnabled sp c = true ∨
      (c.tear < 4 ∧ (step sp c .tearNext).isSome = true ∧ ∃ a rest, c.todo = .deleted a :: rest) := by
  have hi := inv_reach sp hs c hr
  have hsm := small_reach sp c hr
  obtain ⟨pre, hpre⟩ := hi.suffix
  cases htodo : c.todo with
  | nil => have := hsm.1 htodo; simp [hres] at this
  | cons p rest =>
    have hm : p ∈ sp.phases := by rw [hpre, htodo]; simp
    have hgp : p.guarded sp.doneAlt = true := by
      simp only [Spec.guarded, List.all_eq_true] at hg; exact hg p hm
    cases p with
    | lookup =>
      left
      by_cases h3 : c.tear < 3
      · exact callerEnabled_of .lookupOk (by decide) (by simp [step, hres, htodo, h3])
      · exact callerEnabled_of .lookupGone (by decide)
          (by simp [step, hres, htodo]; omega)
    | send a =>
      left
      simp only [Phase.guarded, List.contains_iff_mem] at hgp
      exact callerEnabled_of .retDead (by decide) (by simp [step, hres, htodo, Phase.alts, hgp, ht])
    | reply s a =>
      left
      simp only [Phase.guarded, Bool.and_eq_true, List.contains_iff_mem] at hgp
      exact callerEnabled_of .retDead (by decide) (by simp [step, hres, htodo, Phase.alts, hgp.2, ht])
    | signal a =>
      left
      simp only [Phase.guarded, List.contains_iff_mem] at hgp
      exact callerEnabled_of .retDead (by decide) (by simp [step, hres, htodo, Phase.alts, hgp, ht])
    | deleted a =>
      by_cases h4 : 4 ≤ c.tear
      · left
        exact callerEnabled_of .recvDeleted (by decide) (by simp [step, hres, htodo, h4])
      · right
        refine ⟨by omega, ?_, a, rest, rfl⟩
        simp [step]; omega

/-- Every caller transition strictly decreases `measure` (≤ number of phases + 1) and no
    environment transition changes it: every run of the caller is finite, so together with
    `C17_no_hang` every maximal run after the loop's exit ends with the call returned. -/
theorem C17_caller_terminates (sp : Spec) (c c' : Cfg) (l : Label) (h : step sp c l = some c') :
    (l.isCaller = true → measure c' < measure c) ∧ (l.isCaller = false → measure c' = measure c) := by
  cases l <;> simp only [step] at h <;> (repeat' split at h) <;>
    simp_all [advance, finish, measure, Label.isCaller] <;>
    (try (obtain ⟨_, rfl⟩ := h; simp_all; try (split <;> omega))) <;>
    (try (subst h; simp_all))

/-- What the call returns: `ErrTorrentDead` only if the loop has exited. -/
theorem C17_dead_only_if_exited (sp : Spec) (hs : sp.replySafe = true) (c : Cfg)
    (hr : Reach sp c) (hd : c.res = some .dead) : 1 ≤ c.tear :=
  (inv_reach sp hs c hr).deadTear hd

/-- **The exception is safe**: whenever the loop is blocked in its bare reply send, the
    loop has not exited and the caller is parked at the matching receive, which is enabled —
    the rendezvous always completes, so the loop is never stuck there. -/
theorem C17_loop_never_stuck (sp : Spec) (hs : sp.replySafe = true) (c : Cfg)
    (hr : Reach sp c) (hat : c.cmd = .atLoop) :
    c.tear = 0 ∧ (step sp c .recvReply).isSome = true := by
  have hi := inv_reach sp hs c hr
  have ht := hi.atLoopTear hat
  obtain ⟨hres, s, a, rest, htodo⟩ := hi.pending ((small_reach sp c hr).2 hat) ht (Or.inl hat)
  exact ⟨ht, by simp [step, hres, htodo, hat]⟩


theorem reach_run (sp : Spec) (ls : List Label) : ∀ (c0 c : Cfg), Reach sp c0 →
    run sp c0 ls = some c → Reach sp c := by
  induction ls with
  | nil => intro c0 c h0 h; simp [run] at h; subst h; exact h0
  | cons l ls ih =>
    intro c0 c h0 h
    simp only [run] at h
    split at h
    · rename_i c1 h1; exact ih c1 c (Reach.step l h0 h1) h
    · simp at h

/-! ### liveness while the loop keeps running (fair schedule: the loop works off the queue) -/

theorem run_append (sp : Spec) (l1 l2 : List Label) (c0 c1 : Cfg) (h : run sp c0 l1 = some c1) :
    run sp c0 (l1 ++ l2) = run sp c1 l2 := by
  induction l1 generalizing c0 with
  | nil => simp [run] at h; subst h; rfl
  | cons l ls ih =>
    simp only [run, List.cons_append] at h ⊢
    split at h
    · rename_i c' hc
      first | exact ih c' h | (rw [hc]; exact ih c' h) | (simp only [hc]; exact ih c' h)
    · simp at h

theorem run_dequeueOther (sp : Spec) (k : Nat) (c : Cfg) (hc : c.cmd = .queued k) (ht : c.tear = 0) :
    run sp c (List.replicate k .dequeueOther) = some { c with cmd := .queued 0 } := by
  induction k generalizing c with
  | zero => cases c; simp_all [run]
  | succ k ih =>
    simp only [List.replicate_succ, run, step, hc, ht, ite_true]
    exact ih _ rfl rfl

/-- With the loop running, the context not cancelled and the queue served in order, a
    fire-and-forget operation (`[send]`) returns its value, whatever is queued ahead. -/
theorem C17_live_fire (a : List Alt) (ga cc : Bool) (d : Alt) (ahead : Nat) (ctx : Bool) :
    let sp : Spec := ⟨[.send a], ga, cc, d⟩
    ∃ c, run sp (init sp ctx true ahead) [.enqueue] = some c ∧ c.res = some .ok ∧ c.tear = 0 := by
  simp [run, step, init, advance]

/-- … a request/reply operation (`[send, reply]`: GetStats, …, Request, the peer getters)
    returns the loop's answer: enqueue, the loop works off the `ahead` earlier commands,
    dequeues ours, blocks in the reply send, the caller receives. -/
theorem C17_live_rpc (a b : List Alt) (s cc : Bool) (d : Alt) (ahead : Nat) (ctx : Bool) :
    let sp : Spec := ⟨[.send a, .reply s b], false, cc, d⟩
    ∃ c, run sp (init sp ctx true ahead)
        ([.enqueue] ++ List.replicate ahead .dequeueOther ++ [.dequeueMine, .recvReply]) = some c
      ∧ c.res = some .ok ∧ c.tear = 0 ∧ c.cmd = .handled := by
  intro sp
  have h1 : run sp (init sp ctx true ahead) [.enqueue] =
      some { tear := 0, ctx := ctx, room := true, ahead := ahead, todo := [.reply s b],
             res := none, cmd := .queued ahead, sig := false } := by
    simp [sp, run, step, init, advance]
  rw [List.append_assoc, run_append sp _ _ _ _ h1, run_append sp _ _ _ _ (run_dequeueOther sp ahead _ rfl rfl)]
  simp [sp, run, step, advance, Spec.hasReply, Phase.isReply]

/-- … and Kill (`[send, deleted]`, TorGoAway): the loop exits when it handles the command,
    tears down, closes Deleted, and Kill returns nil. -/
theorem C17_live_kill (a b : List Alt) (d : Alt) (ahead : Nat) (ctx : Bool) :
    let sp : Spec := ⟨[.send a, .deleted b], true, false, d⟩
    ∃ c, run sp (init sp ctx true ahead)
        ([.enqueue] ++ List.replicate ahead .dequeueOther ++
          [.dequeueMine, .tearNext, .tearNext, .tearNext, .recvDeleted]) = some c
      ∧ c.res = some .ok ∧ c.tear = 4 := by
  intro sp
  have h1 : run sp (init sp ctx true ahead) [.enqueue] =
      some { tear := 0, ctx := ctx, room := true, ahead := ahead, todo := [.deleted b],
             res := none, cmd := .queued ahead, sig := false } := by
    simp [sp, run, step, init, advance]
  rw [List.append_assoc, run_append sp _ _ _ _ h1, run_append sp _ _ _ _ (run_dequeueOther sp ahead _ rfl rfl)]
  simp [sp, run, step, advance]

/-! ### what the unrepaired source did, and what remains false -/

/-- the spec the table gave for `Torrent.Request` before the repair: bare reply receive -/
def requestUnfixed : Spec := { phases := [.send [.tDone], .reply false []] }

def hangCfg : Cfg :=
  { tear := 4, ctx := true, room := true, ahead := 0, todo := [.reply false []], res := none,
    cmd := .queued 0, sig := false }

/-- With the bare `<-ch` the loop can exit while the TorRequest sits in the queue; the
    caller then has no enabled transition, and neither has anybody else — its context being
    cancelled does not help: it hangs for ever.
    (`C17_points_guarded` fails on exactly that row of the unrepaired source.) -/
theorem C17_unfixed_request_hangs :
    Reach requestUnfixed hangCfg ∧ hangCfg.res = none ∧ anyEnabled requestUnfixed hangCfg = false := by
  refine ⟨reach_run requestUnfixed [.enqueue, .exit, .tearNext, .tearNext, .tearNext] _ _
    (Reach.init true true 0) (by decide), by decide, by decide⟩

/-- Full deletion statement for connections handed to `NewPeer`: if the call returned nil,
    the loop has adopted the connection (and the peer's exit path closes it). -/
def C17_full : Prop :=
  ∀ (sp : Spec) (c : Cfg), sp.carriesConn = true → sp.guarded = true → Reach sp c →
    anyEnabled sp c = false → c.res = some .ok → c.cmd = .handled

def newPeerSpec : Spec := { phases := [.send [.tDone]], carriesConn := true }

def leakCfg : Cfg :=
  { tear := 4, ctx := true, room := true, ahead := 0, todo := [], res := some .ok,
    cmd := .queued 0, sig := false }

/-- FALSE on the source (known finding): NewPeer returns nil as soon as the TorAddPeer is in
    the queue; if the loop exits before dequeuing it nobody ever closes that connection. -/
theorem C17_full_refuted : ¬ C17_full := by
  intro h
  have := h newPeerSpec leakCfg (by decide) (by decide)
    (reach_run newPeerSpec [.enqueue, .exit, .tearNext, .tearNext, .tearNext] _ _
      (Reach.init true true 0) (by decide)) (by decide) (by decide)
  exact absurd this (by decide)

example : specOf Gen.blocking "NewPeer" = some newPeerSpec := by decide

/-! ## deletion -/

def delFacts : DelFacts :=
  delFactsOf Gen.blocking (Gen.peerDoneDeferBeforeReturns && Gen.peerDoneCloseFirst)

/-- the source facts the deletion model needs: every select of peer.Run (loop and exit
    path) watches the torrent's Done, peer.Done is closed on every return path, and
    Reader.Read's wait watches Done -/
theorem C17_del_facts : delFacts = ⟨true, true, true⟩ := by decide

/-- Order of the teardown: when `Deleted` is closed (Kill returns only then) the torrent is
    already unlisted, the piece store freed and `Done` closed; `Done` is closed before the
    store is freed. -/
theorem C17_deletion_order (d : Del) :
    (deletedClosed Gen.teardown d = true →
      unlisted Gen.teardown d = true ∧ piecesFreed Gen.teardown d = true ∧ doneClosed Gen.teardown d = true)
    ∧ (piecesFreed Gen.teardown d = true → doneClosed Gen.teardown d = true)
    ∧ (unlisted Gen.teardown d = true → piecesFreed Gen.teardown d = true) := by
  rw [C17_gen_teardown]
  have h0 : expectedTeardown.idxOf "close(t.Done)" = 0 := by decide
  have h1 : expectedTeardown.idxOf "t.Pieces.Del()" = 1 := by decide
  have h2 : expectedTeardown.idxOf "del(t.Hash)" = 2 := by decide
  have h3 : expectedTeardown.idxOf "close(t.Deleted)" = 3 := by decide
  simp only [deletedClosed, unlisted, piecesFreed, doneClosed, h0, h1, h2, h3, decide_eq_true_eq]
  omega

structure DInv (n r : Nat) (d : Del) : Prop where
  tear : d.tear ≤ 4
  np : d.peers.length = n
  nr : d.readers.length = r
  rd : ∀ x ∈ d.readers, x = none ∨ x = some .dead

theorem dinv_reach (f : DelFacts) (n r : Nat) (d : Del) (h : DReach f n r d) : DInv n r d := by
  induction h with
  | init => exact ⟨by simp, by simp, by simp, by intro x hx; simp at hx; exact Or.inl hx.2⟩
  | step l _ hs ih =>
    obtain ⟨h1, h2, h3, h4⟩ := ih
    cases l <;> simp only [dstep] at hs <;> split at hs <;> simp at hs <;> subst hs
    · exact ⟨by simp, h2, h3, h4⟩
    · rename_i hc; exact ⟨by simp; omega, h2, h3, h4⟩
    · exact ⟨h1, by simp [h2], h3, h4⟩
    · refine ⟨h1, h2, by simp [h3], ?_⟩
      intro x hx
      rcases List.mem_or_eq_of_mem_set hx with hx | hx
      · exact h4 x hx
      · exact Or.inr hx

/-- **Deletion is complete**: in every terminal configuration of the deletion model (no
    transition left), for any number of peers and blocked readers and any interleaving:
    the teardown has run to the end (Done closed, store freed, unlisted, Deleted closed),
    every peer loop has exited and closed its connection, every blocked reader has been
    woken with ErrTorrentDead. -/
theorem C17_deletion_complete (n r : Nat) (d : Del) (hr : DReach delFacts n r d)
    (hterm : ∀ l, dstep delFacts d l = none) :
    d.tear = 4 ∧ d.peers = List.replicate n true ∧ d.readers = List.replicate r (some .dead) := by
  obtain ⟨h1, h2, h3, h4⟩ := dinv_reach _ n r d hr
  rw [C17_del_facts] at hterm
  have ht : d.tear = 4 := by
    have e := hterm .exit
    have t := hterm .tearNext
    simp only [dstep] at e t
    split at e <;> simp at e
    split at t <;> simp at t
    omega
  refine ⟨ht, ?_, ?_⟩
  · rw [List.eq_replicate_iff]
    refine ⟨h2, ?_⟩
    intro b hb
    cases b with
    | true => rfl
    | false =>
      obtain ⟨i, hi⟩ := List.mem_iff_getElem?.mp hb
      have := hterm (.peerExit i)
      simp [dstep, hi, ht] at this
  · rw [List.eq_replicate_iff]
    refine ⟨h3, ?_⟩
    intro b hb
    rcases h4 b hb with h | h
    · subst h
      obtain ⟨i, hi⟩ := List.mem_iff_getElem?.mp hb
      have := hterm (.readerWake i)
      simp [dstep, hi, ht] at this
    · exact h

/-- … and it gets there: once Done is closed every peer that has not exited and every
    reader still blocked has its exit transition enabled (nobody waits for anybody). -/
theorem C17_deletion_progress (d : Del) (ht : 1 ≤ d.tear) (i : Nat) :
    (d.peers[i]? = some false → (dstep delFacts d (.peerExit i)).isSome = true) ∧
    (d.readers[i]? = some none → (dstep delFacts d (.readerWake i)).isSome = true) := by
  rw [C17_del_facts]
  constructor <;> intro h <;> simp [dstep, h, ht]

/-! ## non-vacuity -/
example : Spec.guarded requestUnfixed = false := by decide
example : ∃ sp, specOf Gen.blocking "GetStats" = some sp ∧ sp.phases = [.send [.tDone], .reply true [.tDone]] := by
  decide
example : ∃ sp, specOf Gen.blocking "Kill" = some sp ∧
    sp.phases = [.send [.tDone, .ctxDone], .deleted [.ctxDone]] ∧ sp.goAway = true := by decide
example : ∃ sp, specOf Gen.blocking "ReaderRead" = some sp ∧
    sp.phases = [.send [.tDone], .reply true [.tDone], .signal [.tDone, .ctxDone]] := by decide
-- a reachable configuration with the loop exited and the caller not yet returned
example : ∃ c, Reach (⟨[.send [.tDone], .reply true [.tDone]], false, false, .tDone⟩ : Spec) c ∧
    1 ≤ c.tear ∧ c.res = none :=
  ⟨_, reach_run _ [.enqueue, .exit] _ _ (Reach.init false true 3) rfl, by decide, by decide⟩
example : DReach delFacts 2 1 ⟨1, [false, true], [none]⟩ :=
  DReach.step (.peerExit 1)
    (DReach.step (d' := ⟨1, [false, false], [none]⟩) .exit DReach.init (by decide)) (by decide)

end Storrent.Lifecycle
