import Storrent.Model.Lifecycle
import Storrent.Gen.Blocking
import Storrent.Gen.SelfSend
/-
C17 — Torrent lifecycle: no call hangs, deletion is complete.
Table theorems are over the blocking-point table regenerated from the Go source on every
run; the model theorems are over every spec that satisfies the (decidable) guardedness
predicates, every initial parameter and every interleaving (all lists of labels).
-/
namespace Storrent.Lifecycle
open Storrent

/-! ## the regenerated tables -/

theorem C17_gen_blocking : Gen.blocking = expectedBlocking := by decide
theorem C17_gen_teardown : Gen.teardown = expectedTeardown := by decide
/-- no exported method of *Torrent communicates outside the extractor's list, and every
    listed function was found -/
theorem C17_gen_complete : Gen.blockingUnlisted = [] ∧ Gen.blockingMissing = [] := by decide
/-- peer.Run registers the defer that closes peer.Done before its first return -/
theorem C17_gen_peer_done_defer : Gen.peerDoneDeferBeforeReturns = true := by decide
/-- … and `close(peer.Done)` is the first statement of that deferred block: the flush loop
    after it leaves the block with a bare `return` when the torrent's Done is closed -/
theorem C17_gen_peer_done_first : Gen.peerDoneCloseFirst = true := by decide

/-- **The loop never sends to itself.**  No function of package tor that runs on the event
    loop's goroutine (reachable from Torrent.run / handleEvent through calls that are not `go`
    statements; static call graph by name, conservative) sends on the torrent's own queue or
    calls anything that does (Have, BadPeer(s), Request, NewPeer, writeEvent, …): the loop can
    therefore never wait for room in a queue only it drains, whose Done only it closes. -/
theorem C17_loop_never_self_sends : Gen.loopSelfSends = [] := by decide

-- non-vacuity: the graph is not empty and the reporting calls ARE queue senders
example : "tor.finalisePiece" ∈ Gen.loopReachable ∧ "tor.handleEvent" ∈ Gen.loopReachable ∧
    "tor.periodicRequest" ∈ Gen.loopReachable := by decide
example : "tor.Torrent.Have" ∈ Gen.queueSenders ∧ "tor.Torrent.BadPeers" ∈ Gen.queueSenders ∧
    "tor.writer.writeEvent" ∈ Gen.queueSenders := by decide

def Point.guarded (p : Point) : Bool :=
  p.sel && (p.alts.contains .tDone || p.alts.contains .pDone || p.alts.contains .ctxDone
            || p.alts.contains .dflt)

/-- the explicit exceptions: the bare reply sends `c.Ch <- v` of the two event loops -/
def Point.isReplySend (p : Point) : Bool :=
  (p.fn == "tor.handleEvent" || p.fn == "peer.handleEvent") && p.dir == .send && p.ch == "c.Ch"
  && !p.sel

/-- Every blocking point of the listed functions is a case of a `select` that also has a
    Done / context / default alternative; the only exceptions are the loops' reply sends. -/
theorem C17_points_guarded :
    ∀ p ∈ Gen.blocking, p.guarded = true ∨ p.isReplySend = true := by decide

/-- Justification of the exceptions, table part: every receiver of such a reply (the API
    calls of Torrent, the getters of Peer) waits in a `select` whose ONLY other alternative
    is the Done channel of the loop that answers — so it cannot go away while that loop is
    blocked in the send (model part: `C17_loop_never_stuck`). -/
theorem C17_reply_receivers_parked :
    ∀ p ∈ Gen.blocking, p.dir = .recv → p.ch = "made#1" → p.fn ≠ "peer.Run" →
      p.sel = true ∧ (p.alts = [.tDone] ∨ p.alts = [.pDone]) := by decide

/-- every operation has a spec in the table, and that spec is guarded and reply-safe -/
theorem C17_specs_guarded :
    ∀ op ∈ allOps, ∃ sp, specOf Gen.blocking op = some sp ∧ sp.guarded = true ∧
      sp.replySafe = true := by decide

/-! ## invariants of the call automaton -/

theorem follows_of (pre : List Phase) (a : List Alt) (post : List Phase)
    (h : replyFollowsSend (pre ++ .send a :: post) = true) :
    ∃ s b post', post = .reply s b :: post' := by
  induction pre with
  | nil =>
    cases post with
    | nil => simp [replyFollowsSend] at h
    | cons q post' =>
      cases q <;> simp [replyFollowsSend] at h
      exact ⟨_, _, _, rfl⟩
  | cons p pre ih =>
    simp only [List.cons_append, replyFollowsSend, Bool.and_eq_true] at h
    exact ih h.2

structure Inv (sp : Spec) (c : Cfg) : Prop where
  suffix : ∃ pre, sp.phases = pre ++ c.todo
  deadTear : c.res = some .dead → 1 ≤ c.tear
  atLoopTear : c.cmd = .atLoop → c.tear = 0
  resTodo : c.res.isSome → c.todo = []
  pending : sp.hasReply = true → c.tear = 0 → (c.cmd = .atLoop ∨ ∃ k, c.cmd = .queued k) →
    c.res = none ∧ ∃ s a rest, c.todo = .reply s a :: rest

theorem inv_init (sp : Spec) (ctx room : Bool) (ahead : Nat) : Inv sp (init sp ctx room ahead) := by
  refine ⟨⟨[], by simp [init]⟩, ?_, ?_, ?_, ?_⟩
  · simp only [init]; split <;> simp
  · simp [init]
  · simp only [init]; split <;> simp_all
  · intro _ _ h; rcases h with h | ⟨k, h⟩ <;> simp [init] at h

theorem advance_res (c : Cfg) (rest : List Phase) :
    (advance c rest).res = if rest.isEmpty then some .ok else none := rfl

theorem inv_step (sp : Spec) (hs : sp.replySafe = true) (c c' : Cfg) (l : Label)
    (hi : Inv sp c) (h : step sp c l = some c') : Inv sp c' := by
  obtain ⟨⟨pre, hpre⟩, hdead, hat, hrt, hpend⟩ := hi
  simp only [Spec.replySafe, Bool.and_eq_true, Bool.or_eq_true, Bool.not_eq_true',
    List.all_eq_true] at hs
  obtain ⟨⟨hsafe, hd0⟩, hfol⟩ := hs
  have hd : sp.doneAlt ≠ .ctxDone := by simpa using hd0
  -- a caller step that consumes the head phase
  have adv : ∀ p rest (c2 : Cfg), c.todo = p :: rest → c.res = none →
      c2.todo = rest → c2.res = (if rest.isEmpty then some .ok else none) → c2.tear = c.tear →
      (∀ s a, p = .reply s a → c2.cmd = .handled) →
      (c2.cmd = .atLoop → c.cmd = .atLoop) →
      ((∀ s a, p ≠ .reply s a) → (∀ a', p ≠ .send a') → c2.cmd = c.cmd) →
      Inv sp c2 := by
    intro p rest c2 htodo hres h2todo h2res h2tear hrep hatl hsame
    refine ⟨⟨pre ++ [p], by simp [hpre, htodo, h2todo]⟩, ?_, ?_, ?_, ?_⟩
    · rw [h2res]; split <;> simp
    · intro h; rw [h2tear]; exact hat (hatl h)
    · rw [h2res, h2todo]; split <;> simp_all
    · intro hr ht hc
      rw [h2tear] at ht
      rw [h2res, h2todo]
      by_cases hsend : ∃ a, p = .send a
      · obtain ⟨a, rfl⟩ := hsend
        have hf : replyFollowsSend sp.phases = true := by
          rcases hfol with h | h
          · simp [hr] at h
          · exact h
        rw [hpre, htodo] at hf
        obtain ⟨s, b, post', rfl⟩ := follows_of pre a rest hf
        exact ⟨by simp, s, b, post', rfl⟩
      · by_cases hrp : ∃ s a, p = .reply s a
        · obtain ⟨s, a, rfl⟩ := hrp
          have := hrep s a rfl
          rw [this] at hc
          rcases hc with h | ⟨k, h⟩ <;> simp at h
        · have hcm : c2.cmd = c.cmd := hsame (fun s a h => hrp ⟨s, a, h⟩) (fun a h => hsend ⟨a, h⟩)
          rw [hcm] at hc
          obtain ⟨_, s, a, r2, h2⟩ := hpend hr ht hc
          rw [htodo] at h2
          injection h2 with h2 _
          exact absurd ⟨s, a, h2⟩ hrp
  have fin : ∀ r, c.res = none → (r = .dead → 1 ≤ c.tear) →
      (sp.hasReply = true → c.tear = 0 → (c.cmd = .atLoop ∨ ∃ k, c.cmd = .queued k) → False) →
      Inv sp (finish c r) := by
    intro r hres hr hno
    refine ⟨⟨sp.phases, by simp [finish]⟩, ?_, ?_, ?_, ?_⟩
    · intro h; simp only [finish] at h ⊢; injection h with h; exact hr h
    · simpa [finish] using hat
    · simp [finish]
    · intro a b d; exact (hno a (by simpa [finish] using b) (by simpa [finish] using d)).elim
  cases l
  case lookupOk =>
    simp only [step] at h
    split at h <;> try simp at h
    rename_i rest hres htodo
    obtain ⟨hc, rfl⟩ := h
    exact adv .lookup rest _ htodo hres rfl rfl rfl (by simp) (by simp [advance]) (by simp [advance])
  case lookupGone =>
    simp only [step] at h
    split at h <;> try simp at h
    rename_i rest hres htodo
    obtain ⟨hc, rfl⟩ := h
    refine fin .gone hres (by simp) ?_
    intro a b d
    obtain ⟨_, s, x, r, h2⟩ := hpend a b d
    rw [htodo] at h2; simp at h2
  case enqueue =>
    simp only [step] at h
    split at h <;> try simp at h
    rename_i a rest hres htodo
    obtain ⟨hc, rfl⟩ := h
    exact adv (.send a) rest _ htodo hres rfl rfl rfl (by simp) (by simp) (fun _ h => absurd rfl (h a))
  case recvReply =>
    simp only [step] at h
    split at h <;> try simp at h
    rename_i s a rest hres htodo
    obtain ⟨hc, rfl⟩ := h
    exact adv (.reply s a) rest _ htodo hres rfl rfl rfl (by simp) (by simp) (fun h _ => absurd rfl (h s a))
  case recvSignal =>
    simp only [step] at h
    split at h <;> try simp at h
    rename_i a rest hres htodo
    obtain ⟨hc, rfl⟩ := h
    exact adv (.signal a) rest _ htodo hres rfl rfl rfl (by simp) (by simp [advance]) (by simp [advance])
  case recvDeleted =>
    simp only [step] at h
    split at h <;> try simp at h
    rename_i a rest hres htodo
    obtain ⟨hc, rfl⟩ := h
    exact adv (.deleted a) rest _ htodo hres rfl rfl rfl (by simp) (by simp [advance]) (by simp [advance])
  case retDead =>
    simp only [step] at h
    split at h <;> try simp at h
    rename_i p rest hres htodo
    obtain ⟨hc, rfl⟩ := h
    exact fin .dead hres (fun _ => hc.2) (fun _ b _ => by omega)
  case retCtx =>
    simp only [step] at h
    split at h <;> try simp at h
    rename_i p rest hres htodo
    obtain ⟨hc, rfl⟩ := h
    refine fin .ctx hres (by simp) ?_
    intro a b d
    obtain ⟨_, s, x, r, h2⟩ := hpend a b d
    rw [htodo] at h2
    injection h2 with h2 _
    subst h2
    have hm : Phase.reply s x ∈ sp.phases := by rw [hpre, htodo]; simp
    have := hsafe _ hm
    simp only [Phase.replySafe, List.all_eq_true, beq_iff_eq] at this
    have hc1 := hc.1
    simp only [Phase.alts] at hc1
    exact hd (this _ hc1).symm
  case dequeueOther =>
    simp only [step] at h
    split at h <;> try simp at h
    rename_i k hk
    obtain ⟨hc, rfl⟩ := h
    refine ⟨⟨pre, hpre⟩, hdead, by simp, hrt, ?_⟩
    intro a b _
    exact hpend a b (Or.inr ⟨k + 1, hk⟩)
  case dequeueMine =>
    simp only [step] at h
    split at h <;> try simp at h
    rename_i hk
    obtain ⟨ht, h⟩ := h
    split at h
    · simp at h; subst h
      exact ⟨⟨pre, hpre⟩, fun x => by simp, by simp, hrt, fun _ b _ => by simp at b⟩
    · split at h <;> simp at h <;> subst h
      · exact ⟨⟨pre, hpre⟩, hdead, fun _ => ht, hrt, fun a b _ => hpend a b (Or.inr ⟨0, hk⟩)⟩
      · rename_i hr
        exact ⟨⟨pre, hpre⟩, hdead, by simp, hrt, fun a _ _ => absurd a hr⟩
  case closeSig =>
    simp only [step] at h
    split at h <;> simp at h
    subst h
    exact ⟨⟨pre, hpre⟩, hdead, hat, hrt, hpend⟩
  case cancelCtx =>
    simp only [step] at h
    split at h <;> simp at h
    subst h
    exact ⟨⟨pre, hpre⟩, hdead, hat, hrt, hpend⟩
  case exit =>
    simp only [step] at h
    split at h <;> simp at h
    rename_i hc
    subst h
    exact ⟨⟨pre, hpre⟩, fun _ => by simp, fun x => absurd x hc.2, hrt, fun _ b _ => by simp at b⟩
  case tearNext =>
    simp only [step] at h
    split at h <;> simp at h
    rename_i hc
    subst h
    refine ⟨⟨pre, hpre⟩, fun _ => by simp, ?_, hrt, fun _ b _ => by simp at b⟩
    intro x
    have := hat x
    omega
  case drain =>
    simp only [step] at h
    split at h <;> simp at h
    subst h
    exact ⟨⟨pre, hpre⟩, hdead, hat, hrt, hpend⟩

theorem inv_reach (sp : Spec) (hs : sp.replySafe = true) (c : Cfg) (h : Reach sp c) : Inv sp c := by
  induction h with
  | init ctx room ahead => exact inv_init sp ctx room ahead
  | step l _ hstep ih => exact inv_step sp hs _ _ l ih hstep


theorem step_small (sp : Spec) (c c' : Cfg) (l : Label) (h : step sp c l = some c')
    (h1 : c.todo = [] → c.res.isSome) (h2 : c.cmd = .atLoop → sp.hasReply = true) :
    (c'.todo = [] → c'.res.isSome) ∧ (c'.cmd = .atLoop → sp.hasReply = true) := by
  cases l <;> simp only [step] at h <;> (repeat' split at h) <;>
    simp_all [advance, finish] <;> (try (obtain ⟨_, rfl⟩ := h; simp_all)) <;>
    (try (subst h; simp_all))

theorem small_reach (sp : Spec) (c : Cfg) (h : Reach sp c) :
    (c.todo = [] → c.res.isSome) ∧ (c.cmd = .atLoop → sp.hasReply = true) := by
  induction h with
  | init ctx room ahead => simp only [init]; constructor <;> intro h <;> simp_all
  | step l _ hstep ih => exact step_small sp _ _ l hstep ih.1 ih.2

theorem callerEnabled_of {sp : Spec} {c : Cfg} (l : Label) (hl : l ∈ callerLabels)
    (h : (step sp c l).isSome = true) : callerEnabled sp c = true := by
  simp only [callerEnabled, List.any_eq_true]; exact ⟨l, hl, h⟩

/-! ## the property theorems -/

/-- **No hang.**  For every spec whose blocking points are guarded (all operations of the
    source are: `C17_specs_guarded`), whatever the initial queue, context and interleaving —
    i.e. wherever the loop stopped relative to the call: before the command was queued,
    while it sat in the queue, or after it was answered — once the loop has exited
    (`1 ≤ tear`) a caller that has not returned has an enabled transition; the only
    exception is a wait for `Deleted` (Kill), where the teardown's own next step is enabled
    and leads to `tear = 4`, at which point the wait is enabled. -/
theorem C17_no_hang (sp : Spec) (hg : sp.guarded = true) (hs : sp.replySafe = true) (c : Cfg)
    (hr : Reach sp c) (ht : 1 ≤ c.tear) (hres : c.res = none) :
    callerEnabled sp c = true ∨
      (c.tear < 4 ∧ (step sp c .tearNext).isSome = true ∧ ∃ a rest, c.todo = .deleted a :: rest) := by
  have hi := inv_reach sp hs c hr
  have hsm := small_reach sp c hr
  obtain ⟨pre, hpre⟩ := hi.suffix
  cases htodo : c.todo with
  | nil => have := hsm.1 htodo; simp [hres] at this
  | cons p rest =>
    have hm : p ∈ sp.phases := by rw [hpre, htodo]; simp
    have hgp : p.guarded sp.doneAlt = true := by
      simp only [Spec.guarded, List.all_eq_true] at hg; exact hg p hm
    cases p with
    | lookup =>
      left
      by_cases h3 : c.tear < 3
      · exact callerEnabled_of .lookupOk (by decide) (by simp [step, hres, htodo, h3])
      · exact callerEnabled_of .lookupGone (by decide)
          (by simp [step, hres, htodo]; omega)
    | send a =>
      left
      simp only [Phase.guarded, List.contains_iff_mem] at hgp
      exact callerEnabled_of .retDead (by decide) (by simp [step, hres, htodo, Phase.alts, hgp, ht])
    | reply s a =>
      left
      simp only [Phase.guarded, Bool.and_eq_true, List.contains_iff_mem] at hgp
      exact callerEnabled_of .retDead (by decide) (by simp [step, hres, htodo, Phase.alts, hgp.2, ht])
    | signal a =>
      left
      simp only [Phase.guarded, List.contains_iff_mem] at hgp
      exact callerEnabled_of .retDead (by decide) (by simp [step, hres, htodo, Phase.alts, hgp, ht])
    | deleted a =>
      by_cases h4 : 4 ≤ c.tear
      · left
        exact callerEnabled_of .recvDeleted (by decide) (by simp [step, hres, htodo, h4])
      · right
        refine ⟨by omega, ?_, a, rest, rfl⟩
        simp [step]; omega

/-- Every caller transition strictly decreases `measure` (≤ number of phases + 1) and no
    environment transition changes it: every run of the caller is finite, so together with
    `C17_no_hang` every maximal run after the loop's exit ends with the call returned. -/
theorem C17_caller_terminates (sp : Spec) (c c' : Cfg) (l : Label) (h : step sp c l = some c') :
    (l.isCaller = true → measure c' < measure c) ∧ (l.isCaller = false → measure c' = measure c) := by
  cases l <;> simp only [step] at h <;> (repeat' split at h) <;>
    simp_all [advance, finish, measure, Label.isCaller] <;>
    (try (obtain ⟨_, rfl⟩ := h; simp_all; try (split <;> omega))) <;>
    (try (subst h; simp_all))

/-- What the call returns: `ErrTorrentDead` only if the loop has exited. -/
theorem C17_dead_only_if_exited (sp : Spec) (hs : sp.replySafe = true) (c : Cfg)
    (hr : Reach sp c) (hd : c.res = some .dead) : 1 ≤ c.tear :=
  (inv_reach sp hs c hr).deadTear hd

/-- **The exception is safe**: whenever the loop is blocked in its bare reply send, the
    loop has not exited and the caller is parked at the matching receive, which is enabled —
    the rendezvous always completes, so the loop is never stuck there. -/
theorem C17_loop_never_stuck (sp : Spec) (hs : sp.replySafe = true) (c : Cfg)
    (hr : Reach sp c) (hat : c.cmd = .atLoop) :
    c.tear = 0 ∧ (step sp c .recvReply).isSome = true := by
  have hi := inv_reach sp hs c hr
  have ht := hi.atLoopTear hat
  obtain ⟨hres, s, a, rest, htodo⟩ := hi.pending ((small_reach sp c hr).2 hat) ht (Or.inl hat)
  exact ⟨ht, by simp [step, hres, htodo, hat]⟩


theorem reach_run (sp : Spec) (ls : List Label) : ∀ (c0 c : Cfg), Reach sp c0 →
    run sp c0 ls = some c → Reach sp c := by
  induction ls with
  | nil => intro c0 c h0 h; simp [run] at h; subst h; exact h0
  | cons l ls ih =>
    intro c0 c h0 h
    simp only [run] at h
    split at h
    · rename_i c1 h1; exact ih c1 c (Reach.step l h0 h1) h
    · simp at h

/-! ### liveness while the loop keeps running (fair schedule: the loop works off the queue) -/

theorem run_append (sp : Spec) (l1 l2 : List Label) (c0 c1 : Cfg) (h : run sp c0 l1 = some c1) :
    run sp c0 (l1 ++ l2) = run sp c1 l2 := by
  induction l1 generalizing c0 with
  | nil => simp [run] at h; subst h; rfl
  | cons l ls ih =>
    simp only [run, List.cons_append] at h ⊢
    split at h
    · rename_i c' hc
      first | exact ih c' h | (rw [hc]; exact ih c' h) | (simp only [hc]; exact ih c' h)
    · simp at h

theorem run_dequeueOther (sp : Spec) (k : Nat) (c : Cfg) (hc : c.cmd = .queued k) (ht : c.tear = 0) :
    run sp c (List.replicate k .dequeueOther) = some { c with cmd := .queued 0 } := by
  induction k generalizing c with
  | zero => cases c; simp_all [run]
  | succ k ih =>
    simp only [List.replicate_succ, run, step, hc, ht, ite_true]
    exact ih _ rfl rfl

/-- With the loop running, the context not cancelled and the queue served in order, a
    fire-and-forget operation (`[send]`) returns its value, whatever is queued ahead. -/
theorem C17_live_fire (a : List Alt) (ga cc : Bool) (d : Alt) (ahead : Nat) (ctx : Bool) :
    let sp : Spec := ⟨[.send a], ga, cc, d⟩
    ∃ c, run sp (init sp ctx true ahead) [.enqueue] = some c ∧ c.res = some .ok ∧ c.tear = 0 := by
  simp [run, step, init, advance]

/-- … a request/reply operation (`[send, reply]`: GetStats, …, Request, the peer getters)
    returns the loop's answer: enqueue, the loop works off the `ahead` earlier commands,
    dequeues ours, blocks in the reply send, the caller receives. -/
theorem C17_live_rpc (a b : List Alt) (s cc : Bool) (d : Alt) (ahead : Nat) (ctx : Bool) :
    let sp : Spec := ⟨[.send a, .reply s b], false, cc, d⟩
    ∃ c, run sp (init sp ctx true ahead)
        ([.enqueue] ++ List.replicate ahead .dequeueOther ++ [.dequeueMine, .recvReply]) = some c
      ∧ c.res = some .ok ∧ c.tear = 0 ∧ c.cmd = .handled := by
  intro sp
  have h1 : run sp (init sp ctx true ahead) [.enqueue] =
      some { tear := 0, ctx := ctx, room := true, ahead := ahead, todo := [.reply s b],
             res := none, cmd := .queued ahead, sig := false } := by
    simp [sp, run, step, init, advance]
  rw [List.append_assoc, run_append sp _ _ _ _ h1, run_append sp _ _ _ _ (run_dequeueOther sp ahead _ rfl rfl)]
  simp [sp, run, step, advance, Spec.hasReply, Phase.isReply]

/-- … and Kill (`[send, deleted]`, TorGoAway): the loop exits when it handles the command,
    tears down, closes Deleted, and Kill returns nil. -/
theorem C17_live_kill (a b : List Alt) (d : Alt) (ahead : Nat) (ctx : Bool) :
    let sp : Spec := ⟨[.send a, .deleted b], true, false, d⟩
    ∃ c, run sp (init sp ctx true ahead)
        ([.enqueue] ++ List.replicate ahead .dequeueOther ++
          [.dequeueMine, .tearNext, .tearNext, .tearNext, .recvDeleted]) = some c
      ∧ c.res = some .ok ∧ c.tear = 4 := by
  intro sp
  have h1 : run sp (init sp ctx true ahead) [.enqueue] =
      some { tear := 0, ctx := ctx, room := true, ahead := ahead, todo := [.deleted b],
             res := none, cmd := .queued ahead, sig := false } := by
    simp [sp, run, step, init, advance]
  rw [List.append_assoc, run_append sp _ _ _ _ h1, run_append sp _ _ _ _ (run_dequeueOther sp ahead _ rfl rfl)]
  simp [sp, run, step, advance]

/-- … an Announce-shaped call (`[lookup, send]`: look the torrent up, then post the command):
    with the torrent listed and the loop running it returns nil. -/
theorem C17_live_announce (a : List Alt) (cc : Bool) (d : Alt) (ahead : Nat) (ctx : Bool) :
    let sp : Spec := ⟨[.lookup, .send a], false, cc, d⟩
    ∃ c, run sp (init sp ctx true ahead) [.lookupOk, .enqueue] = some c ∧
      c.res = some .ok ∧ c.tear = 0 := by
  simp [run, step, init, advance]

/-- … a Reader.Read-shaped call (`[send, reply, signal]`: Request, then the wait for the piece
    with Done / context alternatives): the loop works off the queue, answers the request,
    later closes the piece's channel (the data arrived), and Read goes on to return data. -/
theorem C17_live_read (a b e : List Alt) (s cc : Bool) (d : Alt) (ahead : Nat) (ctx : Bool) :
    let sp : Spec := ⟨[.send a, .reply s b, .signal e], false, cc, d⟩
    ∃ c, run sp (init sp ctx true ahead)
        ([.enqueue] ++ List.replicate ahead .dequeueOther ++
          [.dequeueMine, .recvReply, .closeSig, .recvSignal]) = some c
      ∧ c.res = some .ok ∧ c.tear = 0 := by
  intro sp
  have h1 : run sp (init sp ctx true ahead) [.enqueue] =
      some { tear := 0, ctx := ctx, room := true, ahead := ahead, todo := [.reply s b, .signal e],
             res := none, cmd := .queued ahead, sig := false } := by
    simp [sp, run, step, init, advance]
  rw [List.append_assoc, run_append sp _ _ _ _ h1, run_append sp _ _ _ _ (run_dequeueOther sp ahead _ rfl rfl)]
  simp [sp, run, step, advance, Spec.hasReply, Phase.isReply]

/-- … and while the piece has not arrived, a cancelled context ends the wait (the only
    alternative to Done a reader has): the call returns the context's error. -/
theorem C17_live_read_ctx (a b e : List Alt) (s cc : Bool) (d : Alt) (ahead : Nat)
    (he : e.contains .ctxDone = true) :
    let sp : Spec := ⟨[.send a, .reply s b, .signal e], false, cc, d⟩
    ∃ c, run sp (init sp false true ahead)
        ([.enqueue] ++ List.replicate ahead .dequeueOther ++
          [.dequeueMine, .recvReply, .cancelCtx, .retCtx]) = some c
      ∧ c.res = some .ctx ∧ c.tear = 0 := by
  intro sp
  have h1 : run sp (init sp false true ahead) [.enqueue] =
      some { tear := 0, ctx := false, room := true, ahead := ahead, todo := [.reply s b, .signal e],
             res := none, cmd := .queued ahead, sig := false } := by
    simp [sp, run, step, init, advance]
  rw [List.append_assoc, run_append sp _ _ _ _ h1, run_append sp _ _ _ _ (run_dequeueOther sp ahead _ rfl rfl)]
  have he' : Alt.ctxDone ∈ e := by simpa using he
  simp [sp, run, step, advance, finish, Spec.hasReply, Phase.isReply, Phase.alts, he']

/-! ### liveness once the loop is dying or dead: the call RETURNS (not merely "is enabled") -/

theorem caller_step_tear (sp : Spec) (c c' : Cfg) (l : Label) (hl : l.isCaller = true)
    (h : step sp c l = some c') : c'.tear = c.tear := by
  cases l <;> simp only [step] at h <;> (repeat' split at h) <;>
    simp_all [advance, finish, Label.isCaller] <;>
    (try (obtain ⟨_, rfl⟩ := h; rfl)) <;> (try (subst h; rfl))

theorem callerLabels_isCaller : ∀ l ∈ callerLabels, l.isCaller = true := by decide

theorem run_cons_some (sp : Spec) (c c1 c2 : Cfg) (l : Label) (ls : List Label)
    (h1 : step sp c l = some c1) (h2 : run sp c1 ls = some c2) : run sp c (l :: ls) = some c2 := by
  simp [run, h1, h2]

/-- **Dying / dead torrent: every call returns.**  From every reachable configuration in which
    the loop has exited — wherever it stopped relative to the call, whatever was queued —
    there is a finite continuation consisting only of the caller's own steps and the
    teardown's remaining steps (nobody else is needed) after which the call has returned;
    by `C17_no_hang` + `C17_caller_terminates` every maximal run is such a continuation. -/
theorem C17_exited_returns (sp : Spec) (hg : sp.guarded = true) (hs : sp.replySafe = true) :
    ∀ (n : Nat) (c : Cfg), Reach sp c → 1 ≤ c.tear → measure c * 5 + (4 - c.tear) ≤ n →
      ∃ ls c', run sp c ls = some c' ∧ c'.res.isSome = true ∧
        (∀ l ∈ ls, l.isCaller = true ∨ l = .tearNext) := by
  intro n
  induction n with
  | zero =>
    intro c hr ht hm
    cases hres : c.res with
    | some r => exact ⟨[], c, rfl, by simp [hres], by simp⟩
    | none => simp [measure, hres] at hm
  | succ n ih =>
    intro c hr ht hm
    cases hres : c.res with
    | some r => exact ⟨[], c, rfl, by simp [hres], by simp⟩
    | none =>
      rcases C17_no_hang sp hg hs c hr ht hres with hen | ⟨hlt, htn, _⟩
      · simp only [callerEnabled, List.any_eq_true] at hen
        obtain ⟨l, hl, hsome⟩ := hen
        obtain ⟨c1, hc1⟩ := Option.isSome_iff_exists.mp hsome
        have hcal := callerLabels_isCaller l hl
        have hdec := (C17_caller_terminates sp c c1 l hc1).1 hcal
        have htear := caller_step_tear sp c c1 l hcal hc1
        obtain ⟨ls, c', hrun, hres', hall⟩ := ih c1 (Reach.step l hr hc1) (by omega) (by omega)
        refine ⟨l :: ls, c', run_cons_some sp c c1 c' l ls hc1 hrun, hres', ?_⟩
        intro x hx
        rcases List.mem_cons.mp hx with rfl | hx
        · exact Or.inl hcal
        · exact hall x hx
      · obtain ⟨c1, hc1⟩ := Option.isSome_iff_exists.mp htn
        have hm1 := (C17_caller_terminates sp c c1 .tearNext hc1).2 rfl
        have ht1 : c1.tear = c.tear + 1 := by
          simp only [step] at hc1
          split at hc1 <;> simp at hc1
          subst hc1; rfl
        obtain ⟨ls, c', hrun, hres', hall⟩ := ih c1 (Reach.step .tearNext hr hc1) (by omega) (by omega)
        refine ⟨.tearNext :: ls, c', run_cons_some sp c c1 c' .tearNext ls hc1 hrun, hres', ?_⟩
        intro x hx
        rcases List.mem_cons.mp hx with rfl | hx
        · exact Or.inr rfl
        · exact hall x hx

/-- the same without the bookkeeping bound -/
theorem C17_dying_returns (sp : Spec) (hg : sp.guarded = true) (hs : sp.replySafe = true) (c : Cfg)
    (hr : Reach sp c) (ht : 1 ≤ c.tear) :
    ∃ ls c', run sp c ls = some c' ∧ c'.res.isSome = true ∧
      (∀ l ∈ ls, l.isCaller = true ∨ l = .tearNext) :=
  C17_exited_returns sp hg hs _ c hr ht (Nat.le_refl _)

/-- … and a call that returns after the loop's exit without having been answered reports the
    death: a request/reply call whose command was never dequeued cannot return a value. -/
theorem C17_unanswered_not_ok (sp : Spec) (hs : sp.replySafe = true) (c : Cfg) (hr : Reach sp c)
    (hrep : sp.hasReply = true) (hq : ∃ k, c.cmd = .queued k) (ht : c.tear = 0) : c.res = none :=
  ((inv_reach sp hs c hr).pending hrep ht (Or.inr hq)).1

/-! ### what the unrepaired source did, and what remains false -/

/-- the spec the table gave for `Torrent.Request` before the repair: bare reply receive -/
def requestUnfixed : Spec := { phases := [.send [.tDone], .reply false []] }

def hangCfg : Cfg :=
  { tear := 4, ctx := true, room := true, ahead := 0, todo := [.reply false []], res := none,
    cmd := .queued 0, sig := false }

/-- With the bare `<-ch` the loop can exit while the TorRequest sits in the queue; the
    caller then has no enabled transition, and neither has anybody else — its context being
    cancelled does not help: it hangs for ever.
    (`C17_points_guarded` fails on exactly that row of the unrepaired source.) -/
theorem C17_unfixed_request_hangs :
    Reach requestUnfixed hangCfg ∧ hangCfg.res = none ∧ anyEnabled requestUnfixed hangCfg = false := by
  refine ⟨reach_run requestUnfixed [.enqueue, .exit, .tearNext, .tearNext, .tearNext] _ _
    (Reach.init true true 0) (by decide), by decide, by decide⟩

/-- Full deletion statement for connections handed to `NewPeer`: if the call returned nil,
    the loop has adopted the connection (and the peer's exit path closes it). -/
def C17_full : Prop :=
  ∀ (sp : Spec) (c : Cfg), sp.carriesConn = true → sp.guarded = true → Reach sp c →
    anyEnabled sp c = false → c.res = some .ok → c.cmd = .handled

def newPeerSpec : Spec := { phases := [.send [.tDone]], carriesConn := true }

def leakCfg : Cfg :=
  { tear := 4, ctx := true, room := true, ahead := 0, todo := [], res := some .ok,
    cmd := .queued 0, sig := false }

/-- FALSE on the source (known finding): NewPeer returns nil as soon as the TorAddPeer is in
    the queue; if the loop exits before dequeuing it nobody ever closes that connection. -/
theorem C17_full_refuted : ¬ C17_full := by
  intro h
  have := h newPeerSpec leakCfg (by decide) (by decide)
    (reach_run newPeerSpec [.enqueue, .exit, .tearNext, .tearNext, .tearNext] _ _
      (Reach.init true true 0) (by decide)) (by decide) (by decide)
  exact absurd this (by decide)

example : specOf Gen.blocking "NewPeer" = some newPeerSpec := by decide

/-! ## deletion -/

def delFacts : DelFacts :=
  delFactsOf Gen.blocking (Gen.peerDoneDeferBeforeReturns && Gen.peerDoneCloseFirst)

/-- the source facts the deletion model needs: every select of peer.Run (loop and exit
    path) watches the torrent's Done, peer.Done is closed on every return path, and
    Reader.Read's wait watches Done -/
theorem C17_del_facts : delFacts = ⟨true, true, true⟩ := by decide

/-- Order of the teardown: when `Deleted` is closed (Kill returns only then) the torrent is
    already unlisted, the piece store freed and `Done` closed; `Done` is closed before the
    store is freed. -/
theorem C17_deletion_order (d : Del) :
    (deletedClosed Gen.teardown d = true →
      unlisted Gen.teardown d = true ∧ piecesFreed Gen.teardown d = true ∧ doneClosed Gen.teardown d = true)
    ∧ (piecesFreed Gen.teardown d = true → doneClosed Gen.teardown d = true)
    ∧ (unlisted Gen.teardown d = true → piecesFreed Gen.teardown d = true) := by
  rw [C17_gen_teardown]
  have h0 : expectedTeardown.idxOf "close(t.Done)" = 0 := by decide
  have h1 : expectedTeardown.idxOf "t.Pieces.Del()" = 1 := by decide
  have h2 : expectedTeardown.idxOf "del(t.Hash)" = 2 := by decide
  have h3 : expectedTeardown.idxOf "close(t.Deleted)" = 3 := by decide
  simp only [deletedClosed, unlisted, piecesFreed, doneClosed, h0, h1, h2, h3, decide_eq_true_eq]
  omega

structure DInv (n r : Nat) (d : Del) : Prop where
  tear : d.tear ≤ 4
  np : d.peers.length = n
  nr : d.readers.length = r
  rd : ∀ x ∈ d.readers, x = none ∨ x = some .dead

theorem dinv_reach (f : DelFacts) (n r : Nat) (d : Del) (h : DReach f n r d) : DInv n r d := by
  induction h with
  | init => exact ⟨by simp, by simp, by simp, by intro x hx; simp at hx; exact Or.inl hx.2⟩
  | step l _ hs ih =>
    obtain ⟨h1, h2, h3, h4⟩ := ih
    cases l <;> simp only [dstep] at hs <;> split at hs <;> simp at hs <;> subst hs
    · exact ⟨by simp, h2, h3, h4⟩
    · rename_i hc; exact ⟨by simp; omega, h2, h3, h4⟩
    · exact ⟨h1, by simp [h2], h3, h4⟩
    · refine ⟨h1, h2, by simp [h3], ?_⟩
      intro x hx
      rcases List.mem_or_eq_of_mem_set hx with hx | hx
      · exact h4 x hx
      · exact Or.inr hx

/-- **Deletion is complete**: in every terminal configuration of the deletion model (no
    transition left), for any number of peers and blocked readers and any interleaving:
    the teardown has run to the end (Done closed, store freed, unlisted, Deleted closed),
    every peer loop has exited and closed its connection, every blocked reader has been
    woken with ErrTorrentDead. -/
theorem C17_deletion_complete (n r : Nat) (d : Del) (hr : DReach delFacts n r d)
    (hterm : ∀ l, dstep delFacts d l = none) :
    d.tear = 4 ∧ d.peers = List.replicate n true ∧ d.readers = List.replicate r (some .dead) := by
  obtain ⟨h1, h2, h3, h4⟩ := dinv_reach _ n r d hr
  rw [C17_del_facts] at hterm
  have ht : d.tear = 4 := by
    have e := hterm .exit
    have t := hterm .tearNext
    simp only [dstep] at e t
    split at e <;> simp at e
    split at t <;> simp at t
    omega
  refine ⟨ht, ?_, ?_⟩
  · rw [List.eq_replicate_iff]
    refine ⟨h2, ?_⟩
    intro b hb
    cases b with
    | true => rfl
    | false =>
      obtain ⟨i, hi⟩ := List.mem_iff_getElem?.mp hb
      have := hterm (.peerExit i)
      simp [dstep, hi, ht] at this
  · rw [List.eq_replicate_iff]
    refine ⟨h3, ?_⟩
    intro b hb
    rcases h4 b hb with h | h
    · subst h
      obtain ⟨i, hi⟩ := List.mem_iff_getElem?.mp hb
      have := hterm (.readerWake i)
      simp [dstep, hi, ht] at this
    · exact h

/-- … and it gets there: once Done is closed every peer that has not exited and every
    reader still blocked has its exit transition enabled (nobody waits for anybody). -/
theorem C17_deletion_progress (d : Del) (ht : 1 ≤ d.tear) (i : Nat) :
    (d.peers[i]? = some false → (dstep delFacts d (.peerExit i)).isSome = true) ∧
    (d.readers[i]? = some none → (dstep delFacts d (.readerWake i)).isSome = true) := by
  rw [C17_del_facts]
  constructor <;> intro h <;> simp [dstep, h, ht]

/-! ## torrents whose loop never ran; reply sends that could strand the loop -/

/-- the configuration of a *Torrent that AddTorrent refused as a duplicate: its channels exist
    and Done and Deleted are closed — the loop "has exited" without ever having run -/
def refusedCfg (sp : Spec) (ctx room : Bool) (ahead : Nat) : Cfg :=
  { init sp ctx room ahead with tear := 4 }

/-- **A refused duplicate is a dead torrent.**  Table: AddTorrent makes Event, Done and Deleted
    before it calls add(t), and its refusal branch closes Done and Deleted before returning
    ErrExist.  Model: that object is in a reachable "loop exited, teardown finished"
    configuration, so by `C17_dying_returns` every operation on it returns (and by
    `C17_unanswered_not_ok`-style reasoning a request/reply call cannot return a value: nobody
    dequeues). -/
theorem C17_refused_is_dead :
    Gen.addTorrentMakesBeforeAdd = true ∧
    Gen.addTorrentRefusal = ["close(t.Done)", "close(t.Deleted)", "return nil, os.ErrExist"] ∧
    ∀ (sp : Spec), sp.guarded = true → sp.replySafe = true → ∀ (ctx room : Bool) (ahead : Nat),
      Reach sp (refusedCfg sp ctx room ahead) ∧
      ∃ ls c', run sp (refusedCfg sp ctx room ahead) ls = some c' ∧ c'.res.isSome = true ∧
        (∀ l ∈ ls, l.isCaller = true ∨ l = .tearNext) := by
  refine ⟨by decide, by decide, ?_⟩
  intro sp hg hs ctx room ahead
  have hr : Reach sp (refusedCfg sp ctx room ahead) := by
    refine reach_run sp [.exit, .tearNext, .tearNext, .tearNext] _ _ (Reach.init ctx room ahead) ?_
    simp [run, step, init, refusedCfg]
  exact ⟨hr, C17_dying_returns sp hg hs _ hr (by simp [refusedCfg])⟩

/-- **No reply send can strand a loop.**  Both event loops answer with a plain send on an
    unbuffered channel (the exception of `C17_points_guarded`).  In packages tor, peer, http
    and fuse every function that sends an event carrying a reply channel it made waits for the
    answer in a way that cannot be abandoned for any reason other than the answering loop's
    Done (no context, timer or default alternative): there is no hazard row. -/
theorem C17_reply_send_never_strands_loop :
    Gen.replyHazards = [] ∧ (∀ w ∈ Gen.replyWaits, w.2.2 = false) := by decide

example : Gen.replyWaits.length = 16 := by decide
example : ("tor.Torrent.GetAvailable", "select[tDone]", false) ∈ Gen.replyWaits := by decide

/-! ## the life of a connection handed to the torrent -/

def connFacts : ConnFacts :=
  connFactsOf Gen.addPeerRunsPeer Gen.addPeerExitsBeforeRun Gen.newPeerReturns Gen.peerRunClosesConnFirst

/-- the source facts, by table: the TorAddPeer case starts peer.Run unconditionally (no
    return/break/panic before it); every return of NewPeer other than the `return nil` after
    the send is preceded by conn.Close(); peer.Run's first defer closes the connection -/
theorem C17_gen_conn_facts : connFacts = ⟨true, true, true⟩ := by decide

structure CInv (c : CC) : Prop where
  notDropped : c.conn ≠ .dropped
  tear : c.tear ≤ 4
  ownedOk : c.conn = .owned → c.res = some .ok
  callerNone : c.conn = .caller → c.res = none
  queuedOk : c.conn = .queued → c.res = some .ok

theorem cinv_reach (b : Branch) (c : CC) (h : CReach ⟨true, true, true⟩ b c) : CInv c := by
  induction h with
  | init => exact ⟨by decide, by decide, by decide, by intro _; rfl, by decide⟩
  | step l _ hs ih =>
    obtain ⟨h1, h2, h3, h4, h5⟩ := ih
    cases l <;> simp only [cstep, handlerRuns] at hs <;> split at hs <;> simp at hs <;> subst hs
    · exact ⟨by simp, h2, by simp, by simp, by simp⟩
    · exact ⟨by simp, h2, by simp, by simp, by simp⟩
    · rename_i hc
      exact ⟨by simp, h2, fun _ => h5 hc.1, by simp, by simp⟩
    · exact ⟨by simp, h2, by simp, by simp, by simp⟩
    · exact ⟨h1, by simp, h3, h4, h5⟩
    · rename_i hc; exact ⟨h1, by simp; omega, h3, h4, h5⟩

/-- **Closed or owned.**  For every one of the hand-over circumstances and every interleaving:
    a connection handed to the torrent is never dropped — at every moment it is still with the
    caller (who will post it or close it), in the queue, owned by a running peer, or closed;
    a peer that owns it can always exit and that closes it; NewPeer reports ErrTorrentDead only
    after closing it. -/
theorem C17_conn_closed_or_owned (b : Branch) (hb : b ∈ allBranches) (c : CC)
    (h : CReach connFacts b c) :
    (c.conn = .caller ∨ c.conn = .queued ∨ c.conn = .owned ∨ c.conn = .closed) ∧
    (c.conn = .owned → ∃ c', cstep connFacts b c .peerExit = some c' ∧ c'.conn = .closed) ∧
    (c.res = some .dead → c.conn = .closed) := by
  have _ := hb
  rw [C17_gen_conn_facts] at h ⊢
  have hi := cinv_reach b c h
  refine ⟨?_, ?_, ?_⟩
  · have := hi.notDropped
    cases hc : c.conn <;> simp_all
  · intro ho
    exact ⟨{ c with conn := .closed }, by simp [cstep, ho], rfl⟩
  · -- dead is only ever set together with `closed`, and a closed connection stays closed
    clear hi
    induction h with
    | init => intro h; simp [cinit] at h
    | step l _ hs ih =>
      cases l <;> simp only [cstep, handlerRuns] at hs <;> split at hs <;> simp at hs <;> subst hs <;>
        simp_all

/-- **The only leak, exactly.**  In every terminal configuration (no step left: every maximal
    run), for every hand-over circumstance: the connection is not closed IF AND ONLY IF its
    TorAddPeer event is stranded in the queue of a loop that has exited — the recorded finding
    `conn-open:NewPeer:*:ok`.  Any other leak contradicts this theorem. -/
theorem C17_conn_leak_iff_queued_at_exit (b : Branch) (hb : b ∈ allBranches) (c : CC)
    (h : CReach connFacts b c) (ht : cterminal connFacts b c = true) :
    (c.conn ≠ .closed ↔ stranded c = true) ∧ c.tear = 4 := by
  have _ := hb
  rw [C17_gen_conn_facts] at h ht
  have hi := cinv_reach b c h
  simp only [cterminal, allCLabels, List.all_cons, List.all_nil, Bool.and_true, Bool.and_eq_true,
    Option.isNone_iff_eq_none] at ht
  obtain ⟨hsend, _, htake, hpe, hexit, htn⟩ := ht
  have hnc : c.conn ≠ .caller := by
    intro hc; simp [cstep, hc] at hsend
  have hno : c.conn ≠ .owned := by
    intro hc; simp [cstep, hc] at hpe
  have ht0 : c.tear ≠ 0 := by
    intro hc; simp [cstep, hc] at hexit
  have ht4 : c.tear = 4 := by
    have h4 := hi.tear
    rcases Nat.lt_or_ge c.tear 4 with hlt | hge
    · exfalso
      have : 1 ≤ c.tear ∧ c.tear < 4 := ⟨by omega, hlt⟩
      simp [cstep, this] at htn
    · omega
  refine ⟨?_, ht4⟩
  have hnd := hi.notDropped
  cases hc : c.conn <;> simp_all [stranded]

/-- A stranded event stays stranded (no transition touches it): the leak is permanent. -/
theorem C17_stranded_forever (f : ConnFacts) (b : Branch) (c c' : CC) (l : CLabel)
    (hs : stranded c = true) (h : cstep f b c l = some c') : stranded c' = true := by
  simp only [stranded, Bool.and_eq_true, beq_iff_eq, decide_eq_true_eq] at hs ⊢
  obtain ⟨hq, ht⟩ := hs
  cases l <;> simp only [cstep] at h <;> split at h <;> simp at h <;> subst h <;> simp_all <;> omega

/-- … and it is avoidable only by the loop: as long as the loop runs, a queued connection can
    be taken, run and closed (take, peerExit). -/
theorem C17_conn_can_close (b : Branch) (c : CC) (hq : c.conn = .queued) (ht : c.tear = 0) :
    ∃ c', crun connFacts b c [.take, .peerExit] = some c' ∧ c'.conn = .closed := by
  rw [C17_gen_conn_facts]
  exact ⟨{ c with conn := .closed }, by simp [crun, cstep, handlerRuns, hq, ht], rfl⟩

/-! ## non-vacuity -/
example : Spec.guarded requestUnfixed = false := by decide
example : ∃ sp, specOf Gen.blocking "GetStats" = some sp ∧ sp.phases = [.send [.tDone], .reply true [.tDone]] := by
  decide
example : ∃ sp, specOf Gen.blocking "Kill" = some sp ∧
    sp.phases = [.send [.tDone, .ctxDone], .deleted [.ctxDone]] ∧ sp.goAway = true := by decide
example : ∃ sp, specOf Gen.blocking "ReaderRead" = some sp ∧
    sp.phases = [.send [.tDone], .reply true [.tDone], .signal [.tDone, .ctxDone]] := by decide
-- a reachable configuration with the loop exited and the caller not yet returned
example : ∃ c, Reach (⟨[.send [.tDone], .reply true [.tDone]], false, false, .tDone⟩ : Spec) c ∧
    1 ≤ c.tear ∧ c.res = none :=
  ⟨_, reach_run _ [.enqueue, .exit] _ _ (Reach.init false true 3) rfl, by decide, by decide⟩
example : DReach delFacts 2 1 ⟨1, [false, true], [none]⟩ :=
  DReach.step (.peerExit 1)
    (DReach.step (d' := ⟨1, [false, false], [none]⟩) .exit DReach.init (by decide)) (by decide)

-- the finding is reachable (so the iff is not vacuous on its right-hand side) …
example : CReach connFacts .afterGoaway ⟨4, .queued, some .ok⟩ ∧
    cterminal connFacts .afterGoaway ⟨4, .queued, some .ok⟩ = true ∧ stranded ⟨4, .queued, some .ok⟩ = true := by
  refine ⟨?_, by decide, by decide⟩
  exact CReach.step (c := ⟨3, .queued, some .ok⟩) .tearNext
    (CReach.step (c := ⟨2, .queued, some .ok⟩) .tearNext
      (CReach.step (c := ⟨1, .queued, some .ok⟩) .tearNext
        (CReach.step (c := ⟨0, .queued, some .ok⟩) .exit
          (CReach.step (c := cinit) .send CReach.init (by decide)) (by decide)) (by decide))
      (by decide)) (by decide)
-- … and so is the good ending, for a hand-over the handler might be tempted to refuse
example : CReach connFacts .duplicateId ⟨0, .closed, some .ok⟩ :=
  CReach.step (c := ⟨0, .owned, some .ok⟩) .peerExit
    (CReach.step (c := ⟨0, .queued, some .ok⟩) .take
      (CReach.step (c := cinit) .send CReach.init (by decide)) (by decide)) (by decide)
-- a handler with an exit before `go peer.Run` (what seeded C17-5 did) breaks the theorem: the
-- facts no longer evaluate to ⟨true,true,true⟩ and the model drops the connection
example : (connFactsOf true 1 Gen.newPeerReturns true).handlerAlwaysRuns = false := by decide
example : crun (connFactsOf true 1 Gen.newPeerReturns true) .duplicateId cinit [.send, .take] =
    some ⟨0, .dropped, some .ok⟩ := by decide
-- the liveness theorems' hypotheses are met by the specs read off the table
example : ∃ sp, specOf Gen.blocking "Announce" = some sp ∧ sp.phases = [.lookup, .send [.tDone]] := by
  decide
example : Alt.ctxDone ∈ ([.tDone, .ctxDone] : List Alt) := by decide

end Storrent.Lifecycle
