import Storrent.Model.Tracker
import Storrent.Model.TrackerTable
import Storrent.Gen.TrackerConsts
/-
C15 — Trackers: hostile replies are harmless, announces are disciplined.

Theorems about `Model/Tracker.lean` (the model of tracker.go / udp.go / http.go that the
correspondence stream `vh c15` diffs against the real package).  They hold for every
datagram sequence, every decoded HTTP reply, every interval value and every history of calls.
The model parameter `fixed` selects the repaired udpRequestReply (`true`; what `step` and the
driver run) or the code as found (`false`); `C15_udp_unfixed_panics` is the refutation of the
no-panic statement for the latter.
-/
namespace Storrent.Props.C15
open Storrent Storrent.Tracker

/-! ### udpRequestReply -/

/-- "returns either a reader or a non-nil error" -/
def Good (r : RR) : Prop := (∃ rest, r = .reader rest) ∨ (∃ e, e ≠ Err.nil ∧ r = .err e)

theorem rd32_err {bs : Bytes} {e : Err} (h : rd32 bs = .error e) : e = .eof ∨ e = .ueof := by
  unfold rd32 at h
  split at h
  · cases h; exact Or.inl rfl
  · split at h
    · cases h; exact Or.inr rfl
    · cases h

theorem rd32_ok {bs : Bytes} {v : Nat} {rest : Bytes} (h : rd32 bs = .ok (v, rest)) :
    4 ≤ bs.length ∧ v = rdBE (bs.take 4) ∧ rest = bs.drop 4 := by
  unfold rd32 at h
  split at h
  · cases h
  · split at h
    · cases h
    · cases h; exact ⟨by omega, rfl, rfl⟩

theorem rrLoop_good (min action tid : Nat) :
    ∀ (i : Nat) (err : Err) (atts : List Attempt), (i = 0 → err ≠ .nil) →
      Good (rrLoop true min action tid i err atts) := by
  intro i
  induction i with
  | zero =>
    intro err atts h
    unfold rrLoop
    simp only [h rfl, if_false]
    exact Or.inr ⟨err, h rfl, rfl⟩
  | succ i ih =>
    intro err atts _
    have recur : ∀ e, e ≠ Err.nil → Good (rrLoop true min action tid i e atts.tail) :=
      fun e he => ih e atts.tail (fun _ => he)
    unfold rrLoop
    simp only
    split
    · exact Or.inr ⟨.ctx, by decide, rfl⟩
    · exact Or.inr ⟨.deadline, by decide, rfl⟩
    · exact recur _ (by decide)
    · exact Or.inr ⟨.ctx, by decide, rfl⟩
    · exact recur _ (by decide)
    · split
      · exact recur _ (by decide)
      · split
        · rename_i e he
          rcases rd32_err he with h | h <;> subst h <;> exact recur _ (by decide)
        · split
          · rename_i e he
            rcases rd32_err he with h | h <;> subst h <;> exact recur _ (by decide)
          · split
            · exact recur _ (by simp)
            · split
              · exact Or.inr ⟨_, by simp, rfl⟩
              · split
                · exact Or.inr ⟨.actionMismatch, by decide, rfl⟩
                · exact Or.inl ⟨_, rfl⟩

/-- **C15_udp_no_panic** (udpRequestReply): for every script of attempt results — any
    datagrams, any failures, any length — the repaired udpRequestReply does not panic and
    returns either a reader or a non-nil error. -/
theorem C15_udp_no_panic (min action tid : Nat) (atts : List Attempt) :
    udpRequestReply true min action tid atts ≠ .panic ∧
    Good (udpRequestReply true min action tid atts) := by
  have h := rrLoop_good min action tid 4 .nil atts (by decide)
  refine ⟨?_, h⟩
  intro hp
  unfold udpRequestReply at hp
  rcases h with ⟨r, hr⟩ | ⟨e, _, he⟩
  · rw [hp] at hr; cases hr
  · rw [hp] at he; cases he

/-- the code as found: three answers with a foreign transaction id … and a fourth -/
theorem C15_udp_unfixed_panics :
    udpRequestReply false 16 0 7
      (List.replicate 4 (.bytes [0,0,0,0, 0,0,0,8, 1,2,3,4,5,6,7,8])) = .panic := by
  decide

/-- … while the repaired code returns an error on the same input -/
example : udpRequestReply true 16 0 7
    (List.replicate 4 (.bytes [0,0,0,0, 0,0,0,8, 1,2,3,4,5,6,7,8])) = .err .tidMismatch := by
  decide

/-- what "a matching reply" means for a datagram `bs` (read into the 4096-byte buffer) -/
def Matches (min action tid : Nat) (bs : Bytes) (rest : Bytes) : Prop :=
  let d := bs.take 4096
  min ≤ d.length ∧ 8 ≤ d.length ∧ rdBE (d.take 4) = action ∧ action ≠ 3 ∧
  rdBE ((d.drop 4).take 4) = tid ∧ rest = d.drop 8

theorem rrLoop_accepts (fixed : Bool) (min action tid : Nat) (r : Bytes) :
    ∀ (i : Nat) (err : Err) (atts : List Attempt),
      rrLoop fixed min action tid i err atts = .reader r →
      ∃ bs, Attempt.bytes bs ∈ atts.take i ∧ Matches min action tid bs r := by
  intro i
  induction i with
  | zero =>
    intro err atts h
    unfold rrLoop at h
    split at h <;> cases h
  | succ i ih =>
    intro err atts h
    have recur : ∀ e, rrLoop fixed min action tid i e atts.tail = .reader r →
        ∃ bs, Attempt.bytes bs ∈ atts.take (i + 1) ∧ Matches min action tid bs r := by
      intro e he
      obtain ⟨bs, hm, hM⟩ := ih e atts.tail he
      refine ⟨bs, ?_, hM⟩
      cases atts with
      | nil => simp at hm
      | cons a rest => simp only [List.tail_cons] at hm; simp [List.take_succ_cons, hm]
    unfold rrLoop at h
    simp only at h
    split at h
    · cases h
    · cases h
    · exact recur _ h
    · cases h
    · exact recur _ h
    · rename_i bs hbs
      split at h
      · exact recur _ h
      · rename_i hmin
        split at h
        · exact recur _ h
        · rename_i a r1 h1
          split at h
          · exact recur _ h
          · rename_i t r2 h2
            split at h
            · exact recur _ h
            · rename_i htid
              split at h
              · cases h
              · rename_i ha3
                split at h
                · cases h
                · rename_i hact
                  cases h
                  obtain ⟨l1, v1, e1⟩ := rd32_ok h1
                  obtain ⟨l2, v2, e2⟩ := rd32_ok h2
                  subst e1 e2
                  refine ⟨bs, ?_, ?_⟩
                  · cases atts with
                    | nil => simp at hbs
                    | cons a' rest =>
                      simp only [List.headD_cons] at hbs
                      subst hbs
                      simp [List.take_succ_cons]
                  · simp only [List.length_drop] at l2
                    have hact' : a = action := by
                      cases Nat.decEq a action with
                      | isTrue h => exact h
                      | isFalse h => exact absurd h hact
                    have htid' : t = tid := by
                      cases Nat.decEq t tid with
                      | isTrue h => exact h
                      | isFalse h => exact absurd h htid
                    refine ⟨by omega, by omega, ?_, ?_, ?_, ?_⟩
                    · rw [← v1]; exact hact'
                    · rw [← hact']; exact ha3
                    · rw [← v2]; exact htid'
                    · simp [List.drop_drop]

/-- **C15_udp_accepts_only_matching**: whatever arrives during the four attempts,
    udpRequestReply hands a reader to its caller only for a datagram among those four that is
    at least `min` (and 8) bytes long, carries the expected action (which is never 3) and our
    transaction id; the reader is positioned right after these two words.  (Both variants.) -/
theorem C15_udp_accepts_only_matching (fixed : Bool) (min action tid : Nat) (atts : List Attempt)
    (r : Bytes) (h : udpRequestReply fixed min action tid atts = .reader r) :
    ∃ bs, Attempt.bytes bs ∈ atts.take 4 ∧ Matches min action tid bs r :=
  rrLoop_accepts fixed min action tid r 4 .nil atts h

/-- action 3 (error) with our transaction id yields the tracker's message as an error -/
theorem C15_udp_error_action (fixed : Bool) (min action tid : Nat) (bs : Bytes) (rest : List Attempt)
    (hmin : min ≤ (bs.take 4096).length) (h8 : 8 ≤ (bs.take 4096).length)
    (ha : rdBE ((bs.take 4096).take 4) = 3)
    (ht : rdBE (((bs.take 4096).drop 4).take 4) = tid) :
    udpRequestReply fixed min action tid (.bytes bs :: rest) =
      .err (.trackerMsg ((bs.take 4096).drop 8)) := by
  unfold udpRequestReply rrLoop
  simp only [List.headD_cons, List.tail_cons]
  generalize bs.take 4096 = d at *
  have h1 : rd32 d = .ok (3, d.drop 4) := by
    unfold rd32
    rw [if_neg (by omega), if_neg (by omega), ha]
  have h2 : rd32 (d.drop 4) = .ok (tid, d.drop 8) := by
    unfold rd32
    have hl : (d.drop 4).length = d.length - 4 := List.length_drop
    rw [if_neg (by omega), if_neg (by omega), ht, List.drop_drop]
  rw [if_neg (by omega)]
  simp only [h1, h2]
  simp

/-- udpRequestReply never *returns* a nil error (either variant): where the code as found
    would have had one, it panics instead -/
theorem rrLoop_err_ne_nil (fixed : Bool) (min action tid : Nat) :
    ∀ (i : Nat) (err : Err) (atts : List Attempt),
      rrLoop fixed min action tid i err atts = .err .nil → False := by
  intro i
  induction i with
  | zero =>
    intro err atts h
    unfold rrLoop at h
    split at h
    · cases h
    · rename_i hne
      cases h
      exact hne rfl
  | succ i ih =>
    intro err atts h
    unfold rrLoop at h
    simp only at h
    repeat' split at h
    all_goals first
      | (cases h; done)
      | exact ih _ _ h

/-! ### peers: exactly the complete records, in order -/

/-- the complete `(addr, port)` records of `bs`, stated without reference to any loop: record
    `k` is the `alen+2` bytes at offset `k·(alen+2)`, for every `k < |bs| / (alen+2)` -/
def recordsOf (alen : Nat) (bs : Bytes) : List Peer :=
  (List.range (bs.length / (alen + 2))).map
    fun k => mkPeer alen ((bs.drop (k * (alen + 2))).take (alen + 2))

theorem recordsOf_short (alen : Nat) (bs : Bytes) (h : bs.length < alen + 2) :
    recordsOf alen bs = [] := by
  unfold recordsOf
  rw [Nat.div_eq_of_lt h]
  rfl

theorem recordsOf_step (alen : Nat) (bs : Bytes) (h : alen + 2 ≤ bs.length) :
    recordsOf alen bs = mkPeer alen (bs.take (alen + 2)) :: recordsOf alen (bs.drop (alen + 2)) := by
  unfold recordsOf
  have hdiv : bs.length / (alen + 2) = (bs.length - (alen + 2)) / (alen + 2) + 1 :=
    Nat.div_eq_sub_div (by omega) h
  rw [List.length_drop, hdiv, List.range_succ_eq_map, List.map_cons, List.map_map]
  congr 1
  · simp
  · apply List.map_congr_left
    intro k _
    simp only [Function.comp, List.drop_drop, Nat.succ_eq_add_one]
    congr 3
    rw [Nat.add_mul]; omega

theorem readFullLoop_spec (alen : Nat) : ∀ (fuel : Nat) (bs : Bytes), bs.length < fuel →
    readFullLoop alen fuel bs =
      (recordsOf alen bs, if bs.length % (alen + 2) = 0 then Err.nil else Err.ueof) := by
  intro fuel
  induction fuel with
  | zero => intro bs h; omega
  | succ fuel ih =>
    intro bs h
    unfold readFullLoop
    split
    · rename_i h0
      rw [recordsOf_short alen bs (by omega), h0]
      simp
    · rename_i h0
      split
      · rename_i hlt
        rw [recordsOf_short alen bs hlt, Nat.mod_eq_of_lt hlt, if_neg h0]
      · rename_i hge
        have hge' : alen + 2 ≤ bs.length := by omega
        have hl : (bs.drop (alen + 2)).length = bs.length - (alen + 2) := List.length_drop
        rw [ih (bs.drop (alen + 2)) (by omega), recordsOf_step alen bs hge', hl,
          ← Nat.mod_eq_sub_mod hge']

theorem compactLoop_spec (alen : Nat) : ∀ (fuel : Nat) (bs : Bytes), bs.length ≤ fuel →
    bs.length % (alen + 2) = 0 → compactLoop alen fuel bs = some (recordsOf alen bs) := by
  intro fuel
  induction fuel with
  | zero =>
    intro bs h _
    unfold compactLoop
    rw [recordsOf_short alen bs (by omega)]
  | succ fuel ih =>
    intro bs h hm
    unfold compactLoop
    split
    · rw [recordsOf_short alen bs (by omega)]
    · rename_i h0
      split
      · rename_i hlt
        rw [Nat.mod_eq_of_lt hlt] at hm
        exact absurd hm h0
      · rename_i hge
        have hge' : alen + 2 ≤ bs.length := by omega
        have hl : (bs.drop (alen + 2)).length = bs.length - (alen + 2) := List.length_drop
        rw [ih (bs.drop (alen + 2)) (by omega) (by rw [hl, ← Nat.mod_eq_sub_mod hge']; exact hm),
          recordsOf_step alen bs hge']

theorem rd32_of_len {bs : Bytes} (h : 4 ≤ bs.length) : rd32 bs = .ok (rdBE (bs.take 4), bs.drop 4) := by
  unfold rd32
  rw [if_neg (by omega), if_neg (by omega)]

/-- the announce reply parser on a reader holding at least the three counters -/
theorem parseAnnounce_spec (fam : Fam) (r : Bytes) (h : 12 ≤ r.length) :
    parseAnnounce fam r =
      ((rdBE (r.take 4) : Int) * second,
       (if (r.length - 12) % (fam.alen + 2) = 0 then Err.nil else Err.ueof),
       recordsOf fam.alen (r.drop 12)) := by
  unfold parseAnnounce
  have l1 : (r.drop 4).length = r.length - 4 := List.length_drop
  have l2 : ((r.drop 4).drop 4).length = r.length - 8 := by rw [List.length_drop, l1]; omega
  have l3 : (((r.drop 4).drop 4).drop 4).length = r.length - 12 := by rw [List.length_drop, l2]; omega
  rw [rd32_of_len (by omega)]
  simp only
  rw [rd32_of_len (by omega)]
  simp only
  rw [rd32_of_len (by omega)]
  simp only
  rw [readFullLoop_spec fam.alen _ _ (Nat.lt_succ_self _), l3]
  simp [List.drop_drop]

/-- … and on a shorter one: an error, no peer -/
theorem parseAnnounce_short (fam : Fam) (r : Bytes) (h : r.length < 12) :
    (parseAnnounce fam r).2.2 = [] ∧ (parseAnnounce fam r).2.1 ≠ .nil := by
  unfold parseAnnounce
  split
  · rename_i e he
    rcases rd32_err he with h | h <;> subst h <;> simp
  · rename_i v r1 h1
    obtain ⟨l1, _, e1⟩ := rd32_ok h1
    split
    · rename_i e he
      rcases rd32_err he with h | h <;> subst h <;> simp
    · rename_i v2 r2 h2
      obtain ⟨l2, _, e2⟩ := rd32_ok h2
      split
      · rename_i e he
        rcases rd32_err he with h | h <;> subst h <;> simp
      · rename_i v3 r3 h3
        obtain ⟨l3, _, e3⟩ := rd32_ok h3
        subst e1 e2
        simp only [List.length_drop] at l2 l3
        omega

/-- **C15_peers_exact** (UDP): whatever the two exchanges of one address family look like,
    announceUDP either delivers no peer at all, or it delivers exactly the complete
    `alen+2`-byte records, in order, that follow the 20-byte header of a datagram of the
    announce exchange that matches (≥ 20 bytes, action 1, our transaction id) — together with
    that datagram's interval, and with a nil error iff no partial record trails.  In
    particular no error path of udpRequestReply delivers ("invents") a peer. -/
def UdpPeersExact (fam : Fam) (f : UdpFam) (i : Int) (e : Err) (ps : List Peer) : Prop :=
    (ps = [] ∧ (e = .nil → ∃ bs r, Attempt.bytes bs ∈ f.announce.take 4 ∧ Matches 20 1 f.tidA bs r)) ∨
    (∃ bs r, Attempt.bytes bs ∈ f.announce.take 4 ∧ Matches 20 1 f.tidA bs r ∧
      ps = recordsOf fam.alen (r.drop 12) ∧ i = (rdBE (r.take 4) : Int) * second ∧
      (e = .nil ↔ (r.length - 12) % (fam.alen + 2) = 0))

theorem C15_peers_exact_udp (fixed : Bool) (fam : Fam) (f : UdpFam) (i : Int) (e : Err)
    (ps : List Peer) (h : announceUDP fixed fam f = .done i e ps) : UdpPeersExact fam f i e ps := by
  unfold UdpPeersExact
  unfold announceUDP at h
  split at h
  · cases h; exact Or.inl ⟨rfl, fun h => by cases h⟩
  · split at h
    · cases h
    · rename_i e' he'
      cases h
      refine Or.inl ⟨rfl, fun hn => ?_⟩
      subst hn
      -- an error result of udpRequestReply is never nil (for the repaired code); for the
      -- unrepaired one `err nil` cannot be returned either: the loop panics instead
      exfalso
      revert he'
      unfold udpRequestReply
      exact rrLoop_err_ne_nil fixed 16 0 f.tidC 4 .nil f.connect
    · split at h
      · cases h; exact Or.inl ⟨rfl, fun h => by cases h⟩
      · split at h
        · cases h; exact Or.inl ⟨rfl, fun h => by cases h⟩
        · split at h
          · cases h
          · rename_i e' he'
            cases h
            refine Or.inl ⟨rfl, fun hn => ?_⟩
            subst hn
            exfalso
            revert he'
            unfold udpRequestReply
            exact rrLoop_err_ne_nil fixed 20 1 f.tidA 4 .nil f.announce
          · rename_i r hr
            obtain ⟨bs, hm, hM⟩ := C15_udp_accepts_only_matching fixed 20 1 f.tidA f.announce r hr
            have hlen : 12 ≤ r.length := by
              obtain ⟨h20, _, _, _, _, hrr⟩ := hM
              subst hrr
              simp only [List.length_drop]
              omega
            rw [parseAnnounce_spec fam r hlen] at h
            simp only at h
            cases h
            refine Or.inr ⟨bs, r, hm, hM, rfl, rfl, ?_⟩
            constructor
            · intro hnil
              split at hnil
              · assumption
              · cases hnil
            · intro hz
              rw [if_pos hz]

/-! ### HTTP replies -/

/-- the peers of a dictionary-model list: the entries whose `ip` parses, in order -/
def dictPart (r : HttpReply) : List Peer :=
  match r.dec2 with
  | some l => l.filterMap fun p => p.ip.map fun a => { addr := a, port := p.port }
  | none => []

/-- the IPv4/"peers" part: compact when `peers` is a string of length ≡ 0 mod 6, otherwise
    whatever the dictionary model yields -/
def v4Part (r : HttpReply) : List Peer :=
  match r.dec1 with
  | some p => if p.length % 6 = 0 then recordsOf 4 p else dictPart r
  | none => dictPart r

def v6Part (r : HttpReply) : List Peer :=
  if r.peers6.length % 18 = 0 then recordsOf 16 r.peers6 else []

theorem dictPeers_eq (l : List DictPeer) :
    dictPeers l = l.filterMap fun p => p.ip.map fun a => { addr := a, port := p.port } := by
  induction l with
  | nil => rfl
  | cons p ps ih =>
    unfold dictPeers
    cases hp : p.ip <;> simp [hp, ih]

/-- **C15_peers_exact** (HTTP): for every decoded reply the post-processing of announceHTTP
    never faults and yields: with a failure reason, that error, no peer, and the retry
    interval; otherwise no error, the announced interval and exactly the records of the
    compact string (length ≡ 0 mod 6) or the parsable entries of the dictionary list, then the
    records of `peers6` (length ≡ 0 mod 18) — in order, nothing else. -/
def HttpPeersExact (r : HttpReply) : Prop :=
    httpPost r = some
      (if r.failure.length ≠ 0 then
        { interval := 0, err := .failure r.failure, peers := [], setInterval := some (retryOf r.retry) }
       else
        { interval := r.interval, err := .nil, peers := v4Part r ++ v6Part r, setInterval := none })

theorem C15_peers_exact_http (r : HttpReply) : HttpPeersExact r := by
  unfold HttpPeersExact httpPost v4Part v6Part dictPart
  by_cases hf : r.failure.length ≠ 0
  · rw [if_pos hf, if_pos hf]
  · rw [if_neg hf, if_neg hf]
    have h6 : ∀ p : Bytes, p.length % 6 = 0 → compactLoop 4 p.length p = some (recordsOf 4 p) :=
      fun p hp => compactLoop_spec 4 p.length p (Nat.le_refl _) hp
    have h18 : r.peers6.length % 18 = 0 →
        compactLoop 16 r.peers6.length r.peers6 = some (recordsOf 16 r.peers6) :=
      fun hp => compactLoop_spec 16 r.peers6.length r.peers6 (Nat.le_refl _) hp
    cases h1 : r.dec1 with
    | none =>
      cases h2 : r.dec2 with
      | none =>
        by_cases hp6 : r.peers6.length % 18 = 0
        · simp [hp6, h18 hp6]
        · simp [hp6]
      | some l =>
        by_cases hp6 : r.peers6.length % 18 = 0
        · simp [hp6, h18 hp6, dictPeers_eq]
        · simp [hp6, dictPeers_eq]
    | some p =>
      by_cases hp : p.length % 6 = 0
      · by_cases hp6 : r.peers6.length % 18 = 0
        · simp [hp, h6 p hp, hp6, h18 hp6]
        · simp [hp, h6 p hp, hp6]
      · cases h2 : r.dec2 with
        | none =>
          by_cases hp6 : r.peers6.length % 18 = 0
          · simp [hp, hp6, h18 hp6]
          · simp [hp, hp6]
        | some l =>
          by_cases hp6 : r.peers6.length % 18 = 0
          · simp [hp, hp6, h18 hp6, dictPeers_eq]
          · simp [hp, hp6, dictPeers_eq]

theorem announceHTTP_total (f : HttpFam) : ∃ o, announceHTTP f = some o := by
  cases f with
  | transport e => exact ⟨_, rfl⟩
  | reply r => exact ⟨_, (C15_peers_exact_http r : HttpPeersExact r)⟩

/-- an HTTP family that fails delivers no peer -/
theorem C15_http_error_no_peers (f : HttpFam) (o : HttpOut) (h : announceHTTP f = some o)
    (he : o.err ≠ .nil) : o.peers = [] := by
  cases f with
  | transport e => cases h; rfl
  | reply r =>
    simp only [announceHTTP] at h
    rw [show httpPost r = _ from C15_peers_exact_http r] at h
    cases h
    split
    · rfl
    · rename_i hf
      simp [hf] at he

/-- **C15_peers_exact**: both protocols — the callback sees exactly the complete records encoded
    in an accepted reply, in order, and nothing else; errors never invent a peer. -/
theorem C15_peers_exact :
    (∀ (fixed : Bool) (fam : Fam) (f : UdpFam) (i : Int) (e : Err) (ps : List Peer),
      announceUDP fixed fam f = .done i e ps → UdpPeersExact fam f i e ps) ∧
    (∀ r : HttpReply, HttpPeersExact r) ∧
    (∀ (f : HttpFam) (o : HttpOut), announceHTTP f = some o → o.err ≠ .nil → o.peers = []) :=
  ⟨C15_peers_exact_udp, C15_peers_exact_http, C15_http_error_no_peers⟩

/-! ### the lock, the interval -/

@[simp] theorem updateInterval_locked (b : Base) (i : Int) (e : Err) :
    (updateInterval b i e).locked = b.locked := by
  unfold updateInterval; dsimp only; split
  · rfl
  · split <;> rfl
@[simp] theorem updateInterval_time (b : Base) (i : Int) (e : Err) :
    (updateInterval b i e).time = b.time := by
  unfold updateInterval; dsimp only; split
  · rfl
  · split <;> rfl
@[simp] theorem updateInterval_urlBad (b : Base) (i : Int) (e : Err) :
    (updateInterval b i e).urlBad = b.urlBad := by
  unfold updateInterval; dsimp only; split
  · rfl
  · split <;> rfl
@[simp] theorem applySet_locked (b : Base) (o : Option Int) : (applySet b o).locked = b.locked := by
  cases o <;> rfl
@[simp] theorem applySet_time (b : Base) (o : Option Int) : (applySet b o).time = b.time := by
  cases o <;> rfl
@[simp] theorem applySet_urlBad (b : Base) (o : Option Int) : (applySet b o).urlBad = b.urlBad := by
  cases o <;> rfl

/-- whatever is passed to updateInterval — negative, zero, wrapped — the stored interval ends
    up above one minute: the passed value if it is, else at least the 15-minute default -/
theorem updateInterval_interval (b : Base) (i : Int) (e : Err) :
    (minute < i → (updateInterval b i e).interval = i) ∧
    (¬ minute < i → 15 * minute ≤ (updateInterval b i e).interval) ∧
    minute < (updateInterval b i e).interval := by
  unfold updateInterval minute
  dsimp only
  split
  · rename_i h; refine ⟨fun _ => rfl, fun h' => absurd h h', h⟩
  · rename_i h
    split
    · exact ⟨fun h' => absurd h' h, fun _ => by dsimp only; omega, by dsimp only; omega⟩
    · rename_i h2
      exact ⟨fun h' => absurd h' h, fun _ => by dsimp only; omega, by dsimp only; omega⟩

theorem effInterval_ge (i : Int) : 5 * minute ≤ effInterval i ∧ i ≤ effInterval i := by
  unfold effInterval minute
  dsimp only
  split <;> split <;> omega

theorem effInterval_of_ge (i : Int) (h : 5 * minute ≤ i) : effInterval i = i := by
  unfold effInterval minute at *
  dsimp only
  split <;> split <;> omega

theorem ready_lock (b : Base) (now : Int) : ready { b with locked := true } now = ready b now := rfl

theorem finish_locked (b : Base) (ret : Err) (c : Bool) (p4 p6 : List Peer) (h : b.locked = true) :
    finish b ret c p4 p6 = .done { b with locked := false } ret c p4 p6 := by
  simp [finish, unlock, h]

/-- the contract of one Announce call on an unlocked tracker -/
def AnnSpec (b : Base) (now : Int) (lag : Nat) (res : AnnRes) : Prop :=
  ∃ b' ret c p4 p6, res = .done b' ret c p4 p6 ∧
    b'.locked = false ∧ b'.urlBad = b.urlBad ∧
    (c = false → b'.time = b.time ∧ p4 = [] ∧ p6 = [] ∧ ret ≠ .nil ∧
      (b.urlBad = false → b'.interval = b.interval ∧ ret = .notReady)) ∧
    (c = true → ready b now = true ∧ b'.time = now + lag ∧ minute < b'.interval)

theorem announceHTTPAll_spec (b : Base) (now : Int) (lag : Nat) (proxy : Bool) (f4 f6 : HttpFam)
    (sl : Bool) (hl : b.locked = false) :
    AnnSpec b now lag (announceHTTPAll b now lag proxy f4 f6 sl) := by
  unfold announceHTTPAll AnnSpec
  simp only [tryLock, hl, Bool.false_eq_true, if_false, ready_lock]
  by_cases hr : ready b now = true
  · simp only [hr, Bool.not_true, Bool.false_eq_true, if_false]
    obtain ⟨o4, h4⟩ := announceHTTP_total f4
    obtain ⟨o6, h6⟩ := announceHTTP_total f6
    cases proxy
    · simp only [Bool.false_eq_true, if_false, h4, h6]
      cases sl
      · simp only [Bool.false_eq_true, if_false]
        rw [finish_locked _ _ _ _ _ (by simp)]
        refine ⟨_, _, _, _, _, rfl, rfl, ?_, ?_, ?_⟩
        · simp
        · intro h; cases h
        · intro _
          exact ⟨trivial, by simp, (updateInterval_interval _ _ _).2.2⟩
      · simp only [if_true]
        rw [finish_locked _ _ _ _ _ (by simp)]
        refine ⟨_, _, _, _, _, rfl, rfl, ?_, ?_, ?_⟩
        · simp
        · intro h; cases h
        · intro _
          exact ⟨trivial, by simp, (updateInterval_interval _ _ _).2.2⟩
    · simp only [if_true, h4]
      rw [finish_locked _ _ _ _ _ (by simp)]
      refine ⟨_, _, _, _, _, rfl, rfl, ?_, ?_, ?_⟩
      · simp
      · intro h; cases h
      · intro _
        exact ⟨trivial, by simp, (updateInterval_interval _ _ _).2.2⟩
  · have hr' : ready b now = false := by cases h : ready b now <;> simp_all
    simp only [hr', Bool.not_false, if_true]
    rw [finish_locked _ _ _ _ _ rfl]
    refine ⟨_, _, _, _, _, rfl, rfl, rfl, ?_, ?_⟩
    · intro _; exact ⟨rfl, rfl, rfl, by decide, fun _ => ⟨rfl, rfl⟩⟩
    · intro h; cases h

theorem announceUDP_total (fam : Fam) (f : UdpFam) : ∃ i e ps, announceUDP true fam f = .done i e ps := by
  unfold announceUDP
  split
  · exact ⟨_, _, _, rfl⟩
  · split
    · rename_i h; exact absurd h (C15_udp_no_panic _ _ _ _).1
    · exact ⟨_, _, _, rfl⟩
    · split
      · exact ⟨_, _, _, rfl⟩
      · split
        · exact ⟨_, _, _, rfl⟩
        · split
          · rename_i h; exact absurd h (C15_udp_no_panic _ _ _ _).1
          · exact ⟨_, _, _, rfl⟩
          · exact ⟨_, _, _, rfl⟩

theorem announceUDPAll_spec (b : Base) (now : Int) (lag : Nat) (f4 f6 : UdpFam)
    (hl : b.locked = false) :
    AnnSpec b now lag (announceUDPAll true b now lag f4 f6) := by
  unfold announceUDPAll AnnSpec
  simp only [tryLock, hl, Bool.false_eq_true, if_false, ready_lock]
  by_cases hr : ready b now = true
  · simp only [hr, Bool.not_true, Bool.false_eq_true, if_false]
    cases hu : b.urlBad
    · simp only [Bool.false_eq_true, if_false]
      obtain ⟨i4, e4, p4, h4⟩ := announceUDP_total .v4 f4
      obtain ⟨i6, e6, p6, h6⟩ := announceUDP_total .v6 f6
      simp only [h4, h6]
      rw [finish_locked _ _ _ _ _ (by simp)]
      refine ⟨_, _, _, _, _, rfl, rfl, ?_, ?_, ?_⟩
      · simp
      · intro h; cases h
      · intro _
        exact ⟨trivial, by simp, (updateInterval_interval _ _ _).2.2⟩
    · simp only [if_true]
      rw [finish_locked _ _ _ _ _ (by simp)]
      refine ⟨_, _, _, _, _, rfl, rfl, ?_, ?_, ?_⟩
      · simp
      · intro _; exact ⟨by simp, rfl, rfl, by decide, fun h => by cases h⟩
      · intro h; cases h
  · have hr' : ready b now = false := by cases h : ready b now <;> simp_all
    simp only [hr', Bool.not_false, if_true]
    rw [finish_locked _ _ _ _ _ rfl]
    refine ⟨_, _, _, _, _, rfl, rfl, rfl, ?_, ?_⟩
    · intro _; exact ⟨rfl, rfl, rfl, by decide, fun _ => ⟨rfl, rfl⟩⟩
    · intro h; cases h

/-! ### never stuck busy -/

theorem getState_spec (b : Base) (now : Int) :
    ∃ b' st e, getState b now = some (b', st, e) ∧ b'.locked = b.locked ∧ b'.time = b.time ∧
      b'.interval = b.interval ∧ b'.urlBad = b.urlBad ∧ b'.err = b.err ∧
      (st = .busy ↔ b.locked = true) ∧ (st = .ready ↔ (b.locked = false ∧ ready b now = true)) := by
  unfold getState
  cases hl : b.locked
  · simp only [tryLock, hl, Bool.false_eq_true, if_false, unlock, if_true, ready_lock]
    cases hr : ready b now
    · simp only [Bool.false_eq_true, if_false]
      split
      · exact ⟨_, _, _, rfl, rfl, rfl, rfl, rfl, rfl, by simp, by simp⟩
      · exact ⟨_, _, _, rfl, rfl, rfl, rfl, rfl, rfl, by simp, by simp⟩
    · simp only [if_true]
      exact ⟨_, _, _, rfl, rfl, rfl, rfl, rfl, rfl, by simp, by simp⟩
  · simp only [tryLock, hl, if_true]
    exact ⟨_, _, _, rfl, hl.symm ▸ rfl, rfl, rfl, rfl, rfl, by simp, by simp⟩

/-- **C15_never_stuck_busy** (HTTP): on every path of `(*HTTP).Announce` — not ready, proxy,
    two families, any replies, any order of the side effects — the call returns (no panic, in
    particular not the one of `unlock`) with the lock released. -/
theorem C15_never_stuck_busy_http (b : Base) (now : Int) (lag : Nat) (proxy : Bool)
    (f4 f6 : HttpFam) (sl : Bool) (hl : b.locked = false) :
    ∃ b' ret c p4 p6, announceHTTPAll b now lag proxy f4 f6 sl = .done b' ret c p4 p6 ∧
      b'.locked = false := by
  obtain ⟨b', ret, c, p4, p6, h, hl', _⟩ := announceHTTPAll_spec b now lag proxy f4 f6 sl hl
  exact ⟨b', ret, c, p4, p6, h, hl'⟩

/-- **C15_never_stuck_busy** (UDP, repaired code): likewise for `(*UDP).Announce`, including
    the url-parse-failure path and every datagram script of both families. -/
theorem C15_never_stuck_busy_udp (b : Base) (now : Int) (lag : Nat) (f4 f6 : UdpFam)
    (hl : b.locked = false) :
    ∃ b' ret c p4 p6, announceUDPAll true b now lag f4 f6 = .done b' ret c p4 p6 ∧
      b'.locked = false := by
  obtain ⟨b', ret, c, p4, p6, h, hl', _⟩ := announceUDPAll_spec b now lag f4 f6 hl
  exact ⟨b', ret, c, p4, p6, h, hl'⟩

/-- a lock held by somebody else is respected: Announce refuses and touches nothing -/
theorem C15_lock_respected (b : Base) (now : Int) (lag : Nat) (hl : b.locked = true) :
    (∀ proxy f4 f6 sl, announceHTTPAll b now lag proxy f4 f6 sl = .done b .notReady false [] []) ∧
    (∀ fixed f4 f6, announceUDPAll fixed b now lag f4 f6 = .done b .notReady false [] []) := by
  constructor
  · intro proxy f4 f6 sl; unfold announceHTTPAll; simp [tryLock, hl]
  · intro fixed f4 f6; unfold announceUDPAll; simp [tryLock, hl]

/-- **C15_never_stuck_busy** (GetState): never panics, never changes the lock (nor anything
    else), reports Busy exactly when somebody holds the lock and Ready exactly when the
    tracker is unlocked and `ready`. -/
theorem C15_never_stuck_busy_getState (b : Base) (now : Int) :
    ∃ b' st e, getState b now = some (b', st, e) ∧ b'.locked = b.locked ∧
      (st = .busy ↔ b.locked = true) ∧ (st = .ready ↔ (b.locked = false ∧ ready b now = true)) := by
  obtain ⟨b', st, e, h, h1, _, _, _, _, h2, h3⟩ := getState_spec b now
  exact ⟨b', st, e, h, h1, h2, h3⟩

/-- **C15_never_stuck_busy**: every path of both Announce implementations and of GetState
    returns without panic and leaves an initially free lock free; a lock held by somebody
    else is left alone. -/
theorem C15_never_stuck_busy :
    (∀ (b : Base) (now : Int) (lag : Nat) (proxy : Bool) (f4 f6 : HttpFam) (sl : Bool),
      b.locked = false → ∃ b' ret c p4 p6,
        announceHTTPAll b now lag proxy f4 f6 sl = .done b' ret c p4 p6 ∧ b'.locked = false) ∧
    (∀ (b : Base) (now : Int) (lag : Nat) (f4 f6 : UdpFam),
      b.locked = false → ∃ b' ret c p4 p6,
        announceUDPAll true b now lag f4 f6 = .done b' ret c p4 p6 ∧ b'.locked = false) ∧
    (∀ (b : Base) (now : Int), ∃ b' st e, getState b now = some (b', st, e) ∧
      b'.locked = b.locked ∧ (st = .busy ↔ b.locked = true) ∧
      (st = .ready ↔ (b.locked = false ∧ ready b now = true))) :=
  ⟨C15_never_stuck_busy_http, C15_never_stuck_busy_udp, C15_never_stuck_busy_getState⟩

/-! ### histories -/

theorem step_spec (b : Base) (op : Op) (hl : b.locked = false) :
    ∃ b' o, step b op = some (b', o) ∧ b'.locked = false ∧ b'.urlBad = b.urlBad ∧
      (o.contacted = false → b'.time = b.time ∧ (b.urlBad = false → b'.interval = b.interval)) ∧
      (o.contacted = true → b.time + effInterval b.interval < o.stamp ∧ b'.time = o.stamp ∧
        minute < b'.interval) := by
  have rdy : ∀ (now : Int) (lag : Nat), ready b now = true →
      b.time + effInterval b.interval < now + lag := by
    intro now lag h
    simp only [ready, decide_eq_true_eq] at h
    omega
  cases op with
  | getState now =>
    obtain ⟨b', st, e, h, h1, h2, h3, h4, _⟩ := getState_spec b now
    refine ⟨b', { contacted := false, stamp := now }, by simp only [step, h], by rw [h1, hl], h4, fun _ => ⟨h2, fun _ => h3⟩, ?_⟩
    intro h; cases h
  | annHTTP now lag proxy f4 f6 sl =>
    obtain ⟨b', ret, c, p4, p6, h, h1, h2, h3, h4⟩ := announceHTTPAll_spec b now lag proxy f4 f6 sl hl
    refine ⟨b', { contacted := c, stamp := now + lag }, by simp only [step, h], h1, h2, ?_, ?_⟩
    · intro hc
      obtain ⟨t, _, _, _, hi⟩ := h3 hc
      exact ⟨t, fun hu => (hi hu).1⟩
    · intro hc
      obtain ⟨r, t, i⟩ := h4 hc
      exact ⟨rdy now lag r, t, i⟩
  | annUDP now lag f4 f6 =>
    obtain ⟨b', ret, c, p4, p6, h, h1, h2, h3, h4⟩ := announceUDPAll_spec b now lag f4 f6 hl
    refine ⟨b', { contacted := c, stamp := now + lag }, by simp only [step, h], h1, h2, ?_, ?_⟩
    · intro hc
      obtain ⟨t, _, _, _, hi⟩ := h3 hc
      exact ⟨t, fun hu => (hi hu).1⟩
    · intro hc
      obtain ⟨r, t, i⟩ := h4 hc
      exact ⟨rdy now lag r, t, i⟩

theorem contacts_spec : ∀ (ops : List Op) (b : Base), b.locked = false → b.urlBad = false →
    ∃ cs, contacts b ops = some cs ∧
      (∀ c ∈ cs, b.time + effInterval b.interval < c.1) ∧
      (∀ c ∈ cs, minute < c.2) ∧
      cs.Pairwise (fun c1 c2 => c1.1 + effInterval c1.2 < c2.1) := by
  intro ops
  induction ops with
  | nil => intro b _ _; exact ⟨[], rfl, by simp, by simp, List.Pairwise.nil⟩
  | cons op ops ih =>
    intro b hl hu
    obtain ⟨b', o, hs, hl', hu', hn, hc⟩ := step_spec b op hl
    obtain ⟨cs, hcs, hfirst, hmin, hpw⟩ := ih b' hl' (by rw [hu', hu])
    simp only [contacts, hs, hcs]
    cases hco : o.contacted
    · obtain ⟨ht, hi⟩ := hn hco
      refine ⟨cs, by simp, ?_, hmin, hpw⟩
      intro c hc'
      have := hfirst c hc'
      rw [ht, hi hu] at this
      exact this
    · obtain ⟨hlt, ht, hi⟩ := hc hco
      refine ⟨(o.stamp, b'.interval) :: cs, by simp, ?_, ?_, ?_⟩
      · intro c hc'
        rcases List.mem_cons.mp hc' with h | h
        · subst h; exact hlt
        · have := hfirst c h
          have h5 := (effInterval_ge b'.interval).1
          rw [ht] at this
          unfold minute at h5
          omega
      · intro c hc'
        rcases List.mem_cons.mp hc' with h | h
        · subst h; exact hi
        · exact hmin c h
      · refine List.Pairwise.cons ?_ hpw
        intro c hc'
        have := hfirst c hc'
        rw [ht] at this
        exact this

/-- **C15_discipline**: take any tracker state with the lock free and any history of public
    calls — GetState, HTTP and UDP announces, at arbitrary clock readings, with arbitrary
    replies, failures and write orders.  Nothing panics, and for any two network contacts of
    the history, the later one happens more than `max (5 min) (interval stored by the earlier
    one)` after the earlier one; the stored interval always exceeds one minute, and the first contact
    of the history respects the interval the initial state carries.
    (`C15_effective_interval` says what the stored interval is.)  The clock need not even be
    monotonic between calls; within one Announce the second reading is `lag ≥ 0` later. -/
theorem C15_discipline (b : Base) (ops : List Op) (hl : b.locked = false) (hu : b.urlBad = false) :
    ∃ cs, contacts b ops = some cs ∧
      cs.Pairwise (fun c1 c2 => max (5 * minute) c1.2 < c2.1 - c1.1) ∧
      (∀ c ∈ cs, minute < c.2 ∧ effInterval b.interval < c.1 - b.time) := by
  obtain ⟨cs, h, hfirst, hmin, hpw⟩ := contacts_spec ops b hl hu
  refine ⟨cs, h, ?_, fun c hc => ⟨hmin c hc, by have := hfirst c hc; omega⟩⟩
  have key : ∀ l : List (Int × Int), (∀ c ∈ l, minute < c.2) →
      l.Pairwise (fun c1 c2 => c1.1 + effInterval c1.2 < c2.1) →
      l.Pairwise (fun c1 c2 => max (5 * minute) c1.2 < c2.1 - c1.1) := by
    intro l
    induction l with
    | nil => intro _ _; exact List.Pairwise.nil
    | cons c l ih =>
      intro hm hp
      cases hp with
      | cons hc hl =>
        refine List.Pairwise.cons ?_ (ih (fun c' h' => hm c' (List.mem_cons_of_mem _ h')) hl)
        intro c2 h2
        have h1 := hc c2 h2
        have h5 := effInterval_ge c.2
        have : max (5 * minute) c.2 ≤ effInterval c.2 := Int.max_le.mpr ⟨h5.1, h5.2⟩
        omega
  exact key cs hmin hpw

/-- no history of public calls on an unlocked tracker panics (no hypothesis on the URL) -/
theorem C15_history_no_panic : ∀ (ops : List Op) (b : Base), b.locked = false →
    ∃ cs, contacts b ops = some cs := by
  intro ops
  induction ops with
  | nil => intro b _; exact ⟨[], rfl⟩
  | cons op ops ih =>
    intro b hl
    obtain ⟨b', o, hs, hl', _⟩ := step_spec b op hl
    obtain ⟨cs, hcs⟩ := ih b' hl'
    simp only [contacts, hs, hcs]
    exact ⟨_, rfl⟩

/-- a UDP tracker whose URL does not parse is never contacted at all -/
theorem C15_discipline_urlbad (fixed : Bool) (b : Base) (now : Int) (lag : Nat) (f4 f6 : UdpFam)
    (hu : b.urlBad = true) (b' : Base) (ret : Err) (c : Bool) (p4 p6 : List Peer)
    (h : announceUDPAll fixed b now lag f4 f6 = .done b' ret c p4 p6) : c = false := by
  unfold announceUDPAll at h
  cases hl : b.locked
  · simp only [tryLock, hl, Bool.false_eq_true, if_false, hu, if_true] at h
    split at h
    · simp only [finish, unlock, if_true] at h; cases h; rfl
    · simp only [finish, unlock, updateInterval_locked, if_true] at h; cases h; rfl
  · simp only [tryLock, hl, if_true] at h; cases h; rfl

/-! ### absurd intervals -/

theorem wrap64_id (x : Int) (h1 : -two63 ≤ x) (h2 : x < two63) : wrap64 x = x := by
  unfold wrap64 two63 two64 at *
  omega

theorem wrap64_range (x : Int) : -two63 ≤ wrap64 x ∧ wrap64 x < two63 := by
  unfold wrap64 two63 two64
  omega

/-- **C15_absurd_interval_safe**: let the tracker announce *any* integer interval `a` —
    negative, zero, tiny, or so large that `time.Duration(a) * time.Second` wraps around in
    int64 to anything at all — and let the rest of the state be anything.  After
    `updateInterval(time.Duration(a)*time.Second, err)` the stored interval exceeds one
    minute, `ready()` waits at least five minutes from the last contact, a sane announcement
    (`60 < a`, `a·10⁹ < 2⁶³`) is stored as announced, and anything else leaves at least the
    15-minute default.  (No panic: all functions involved are total, cf.
    `C15_history_no_panic`.) -/
theorem C15_absurd_interval_safe (b : Base) (a : Int) (e : Err) :
    minute < (updateInterval b (wrap64 (a * second)) e).interval ∧
    (60 < a → a * second < two63 → (updateInterval b (wrap64 (a * second)) e).interval = a * second) ∧
    (¬ minute < wrap64 (a * second) → 15 * minute ≤ (updateInterval b (wrap64 (a * second)) e).interval) ∧
    (∀ now, ready (updateInterval b (wrap64 (a * second)) e) now = true → b.time + 5 * minute < now) := by
  have h := updateInterval_interval b (wrap64 (a * second)) e
  refine ⟨h.2.2, ?_, h.2.1, ?_⟩
  · intro h60 hlt
    have hw : wrap64 (a * second) = a * second :=
      wrap64_id _ (by unfold two63 second; omega) hlt
    rw [hw] at h ⊢
    exact h.1 (by unfold minute second; omega)
  · intro now hr
    simp only [ready, decide_eq_true_eq, updateInterval_time] at hr
    have := (effInterval_ge (updateInterval b (wrap64 (a * second)) e).interval).1
    omega

/-- the same for the `retry in` of a failure reason: any `strconv.Atoi` result, multiplied by
    `time.Minute` with wrap-around and written into `tracker.interval` behind the back of
    `updateInterval`, still leaves an interval above a minute after the announce -/
theorem C15_absurd_retry_safe (b : Base) (rt : Retry) (i : Int) (e : Err) :
    minute < (updateInterval (applySet b (some (retryOf rt))) i e).interval :=
  (updateInterval_interval _ _ _).2.2

theorem rdBE_take4_lt (bs : Bytes) : rdBE (bs.take 4) < 4294967296 := by
  have hb : ∀ x : UInt8, x.toNat < 256 := fun x => x.toNat_lt
  match bs with
  | [] => simp [rdBE]
  | [a] => have := hb a; simp [rdBE]; omega
  | [a, b] => have := hb a; have := hb b; simp [rdBE]; omega
  | [a, b, c] => have := hb a; have := hb b; have := hb c; simp [rdBE]; omega
  | a :: b :: c :: d :: _ =>
    have := hb a; have := hb b; have := hb c; have := hb d
    simp [rdBE]; omega

/-- the UDP interval `time.Duration(uint32) * time.Second` cannot overflow int64 -/
theorem C15_udp_interval_no_wrap (fam : Fam) (r : Bytes) :
    0 ≤ (parseAnnounce fam r).1 ∧ (parseAnnounce fam r).1 < two63 := by
  by_cases h : 12 ≤ r.length
  · rw [parseAnnounce_spec fam r h]
    have := rdBE_take4_lt r
    simp only
    unfold second two63
    omega
  · unfold parseAnnounce
    have hb := rdBE_take4_lt r
    split
    · simp [two63]
    · rename_i v r1 h1
      obtain ⟨_, hv, _⟩ := rd32_ok h1
      split
      · simp [two63]
      · split
        · simp [two63]
        · simp only
          subst hv
          unfold second two63
          omega

/-- **C15_effective_interval** (HTTP): an Announce that passes the ready gate stamps the time
    and stores, as the interval that `C15_discipline` then enforces, the announced one (the
    larger of the two families', or the proxy reply's) whenever it is sane: above 60 s and
    representable in nanoseconds. -/
theorem C15_effective_interval_http (b : Base) (now : Int) (lag : Nat) (proxy : Bool)
    (f4 f6 : HttpFam) (sl : Bool) (o4 o6 : HttpOut) (hl : b.locked = false)
    (hr : ready b now = true) (h4 : announceHTTP f4 = some o4) (h6 : announceHTTP f6 = some o6)
    (a : Int)
    (ha : a = if proxy then o4.interval else if o4.interval < o6.interval then o6.interval else o4.interval)
    (h60 : 60 < a) (hlt : a * second < two63) :
    ∃ b' ret p4 p6, announceHTTPAll b now lag proxy f4 f6 sl = .done b' ret true p4 p6 ∧
      b'.time = now + lag ∧ b'.interval = a * second := by
  have hw : wrap64 (a * second) = a * second :=
    wrap64_id _ (by unfold two63 second; omega) hlt
  have hm : minute < a * second := by unfold minute second; omega
  unfold announceHTTPAll
  simp only [tryLock, hl, Bool.false_eq_true, if_false, ready_lock, hr, Bool.not_true, h4, h6]
  cases proxy
  · simp only [Bool.false_eq_true, if_false] at ha ⊢
    rw [← ha, hw]
    cases sl
    · simp only [Bool.false_eq_true, if_false]
      rw [finish_locked _ _ _ _ _ (by simp)]
      exact ⟨_, _, _, _, rfl, by simp, (updateInterval_interval _ _ _).1 hm⟩
    · simp only [if_true]
      rw [finish_locked _ _ _ _ _ (by simp)]
      exact ⟨_, _, _, _, rfl, by simp, (updateInterval_interval _ _ _).1 hm⟩
  · simp only [if_true] at ha ⊢
    rw [← ha, hw]
    rw [finish_locked _ _ _ _ _ (by simp)]
    exact ⟨_, _, _, _, rfl, by simp, (updateInterval_interval _ _ _).1 hm⟩

/-- **C15_effective_interval** (UDP) -/
theorem C15_effective_interval_udp (b : Base) (now : Int) (lag : Nat) (f4 f6 : UdpFam)
    (i4 i6 : Int) (e4 e6 : Err) (q4 q6 : List Peer) (hl : b.locked = false) (hu : b.urlBad = false)
    (hr : ready b now = true) (h4 : announceUDP true .v4 f4 = .done i4 e4 q4)
    (h6 : announceUDP true .v6 f6 = .done i6 e6 q6)
    (a : Int) (ha : a = if i4 < i6 then i6 else i4) (hm : minute < a) :
    ∃ b' ret, announceUDPAll true b now lag f4 f6 = .done b' ret true q4 q6 ∧
      b'.time = now + lag ∧ b'.interval = a := by
  unfold announceUDPAll
  simp only [tryLock, hl, Bool.false_eq_true, if_false, ready_lock, hr, Bool.not_true]
  simp only [hu, Bool.false_eq_true, if_false, h4, h6]
  rw [← ha, finish_locked _ _ _ _ _ (by simp)]
  exact ⟨_, _, rfl, by simp, (updateInterval_interval _ _ _).1 hm⟩

/-! ### tie to the source: the constants -/

/-- **C15_gen_tracker_consts**: the guards of `base.ready()` and `base.updateInterval()` and the
    retransmission loop of `udpRequestReply`, as regenerated from the Go source on every run, are
    the expected ones: 30-minute default, 5-minute floor, 1-minute threshold, 15-minute fallback,
    4 attempts, 5 s first timeout, doubling. -/
theorem C15_gen_tracker_consts :
    Gen.trackerReadyGuards = expectedReadyGuards ∧ Gen.trackerUpdateGuards = expectedUpdateGuards ∧
    Gen.trackerUdpAttempts = some (udpAttempts : Int) ∧ Gen.trackerUdpTimeout0 = some udpTimeout0 ∧
    Gen.trackerUdpBackoff = some udpBackoff :=
  ⟨by decide, by decide, by decide, by decide, by decide⟩

/-- the model's functions are the functions of those constants -/
theorem effInterval_table (i : Int) :
    effInterval i = (let i := if i ≤ 0 then defaultInterval else i
                     if i < floorInterval then floorInterval else i) := rfl

theorem updateInterval_table (b : Base) (i : Int) (e : Err) :
    (updateInterval b i e).interval =
      (if i > acceptAbove then i else if b.interval < fallbackInterval then fallbackInterval else b.interval) := by
  unfold updateInterval acceptAbove fallbackInterval
  dsimp only
  split
  · rfl
  · split <;> rfl

theorem udpRequestReply_attempts (fixed : Bool) (min action tid : Nat) (atts : List Attempt) :
    udpRequestReply fixed min action tid atts = rrLoop fixed min action tid udpAttempts .nil atts := rfl

/-! ### trackerAnnounce: the tier walk -/

/-- the state a walk saw at `(tier, position)` -/
def stateAt (tiers : List (List TState)) (x : Nat × Nat) : Option TState :=
  (tiers[x.1]?).bind (·[x.2]?)

/-- what the walk of one tier can yield -/
structure TierOK (ti j : Nat) (tl : List TState) (w : Walk) : Prop where
  one : w.started.length ≤ 1
  ret : w.returned = true ↔ w.started ≠ []
  rdy : ∀ x ∈ w.started, ∃ k, x = (ti, j + k) ∧ tl[k]? = some .ready
  vis : ∀ x ∈ w.started, w.visited.getLast? = some x
  sub : ∀ x ∈ w.visited, ∃ k, x = (ti, j + k) ∧ k < tl.length

theorem walkTier_ok (ti : Nat) : ∀ (tl : List TState) (j : Nat), TierOK ti j tl (walkTier ti j tl) := by
  intro tl
  induction tl with
  | nil => intro j; exact ⟨by simp [walkTier], by simp [walkTier], by simp [walkTier], by simp [walkTier],
      by simp [walkTier]⟩
  | cons s rest ih =>
    intro j
    unfold walkTier
    by_cases h1 : s = .ready
    · rw [if_pos h1]
      refine ⟨by simp, by simp, ?_, by simp, ?_⟩
      · intro x hx; simp at hx; exact ⟨0, by simp [hx], by simp [h1]⟩
      · intro x hx; simp at hx; exact ⟨0, by simp [hx], by simp⟩
    · rw [if_neg h1]
      by_cases h2 : s ≠ .error
      · rw [if_pos h2]
        refine ⟨by simp, by simp, by simp, by simp, ?_⟩
        intro x hx; simp at hx; exact ⟨0, by simp [hx], by simp⟩
      · rw [if_neg h2]
        have k := ih (j + 1)
        refine ⟨k.one, k.ret, ?_, ?_, ?_⟩
        · intro x hx
          obtain ⟨n, e1, e2⟩ := k.rdy x hx
          exact ⟨n + 1, by rw [e1]; congr 1; omega, by simpa using e2⟩
        · intro x hx
          have := k.vis x hx
          dsimp only
          cases hv : (walkTier ti (j + 1) rest).visited with
          | nil => rw [hv] at this; simp at this
          | cons a l => rw [hv] at this; simpa [List.getLast?_cons_cons] using this
        · intro x hx
          dsimp only at hx
          rcases List.mem_cons.1 hx with rfl | hx
          · exact ⟨0, by simp, by simp⟩
          · obtain ⟨n, e1, e2⟩ := k.sub x hx
            exact ⟨n + 1, by rw [e1]; congr 1; omega, by simpa using e2⟩

/-- what a whole walk yields -/
structure WalkOK (tiers : List (List TState)) (w : Walk) : Prop where
  one : w.started.length ≤ 1
  ret : w.started ≠ [] → w.returned = true
  rdy : ∀ x ∈ w.started, stateAt tiers x = some .ready
  vis : ∀ x ∈ w.started, w.visited.getLast? = some x

theorem walkTiers_ok (tiers : List (List TState)) : ∀ (perm : List Nat) (w : Walk),
    walkTiers tiers perm = some w → WalkOK tiers w := by
  intro perm
  induction perm with
  | nil => intro w h; simp [walkTiers] at h; subst h; exact ⟨by simp, by simp, by simp, by simp⟩
  | cons i perm ih =>
    intro w h
    unfold walkTiers at h
    cases ht : tiers[i]? with
    | none => rw [ht] at h; simp at h
    | some tl =>
      rw [ht] at h
      dsimp only at h
      have k := walkTier_ok i tl 0
      have krdy : ∀ x ∈ (walkTier i 0 tl).started, stateAt tiers x = some .ready := by
        intro x hx
        obtain ⟨n, e1, e2⟩ := k.rdy x hx
        rw [e1]; simp [stateAt, ht, e2]
      by_cases hr : (walkTier i 0 tl).returned = true
      · rw [if_pos hr] at h
        simp only [Option.some.injEq] at h
        subst h
        exact ⟨k.one, fun _ => hr, krdy, k.vis⟩
      · rw [if_neg hr] at h
        have hs : (walkTier i 0 tl).started = [] := by
          cases hst : (walkTier i 0 tl).started with
          | nil => rfl
          | cons a l => exact absurd (k.ret.2 (by simp [hst])) hr
        cases hw : walkTiers tiers perm with
        | none => rw [hw] at h; simp at h
        | some w' =>
          rw [hw] at h
          simp only [Option.some.injEq] at h
          subst h
          have k' := ih w' hw
          refine ⟨by simpa [hs] using k'.one, by simpa [hs] using k'.ret, by simpa [hs] using k'.rdy, ?_⟩
          intro x hx
          simp only [hs, List.nil_append] at hx
          have := k'.vis x hx
          dsimp only
          cases hv : w'.visited with
          | nil => rw [hv] at this; simp at this
          | cons a l => rw [hv] at this; rw [List.getLast?_append]; simp [this]

/-- **C15_tier_walk_one**: whatever the tiers, whatever every tracker's `GetState` answers and
    whatever tier order the PRNG draws, one call of `trackerAnnounce` (one slow tick) starts at
    most one announce, and `GetState` is asked of nobody after it was started. -/
theorem C15_tier_walk_one (tiers : List (List TState)) (perm : List Nat) (w : Walk)
    (h : walkTiers tiers perm = some w) :
    w.started.length ≤ 1 ∧ ∀ x ∈ w.started, w.visited.getLast? = some x :=
  ⟨(walkTiers_ok tiers perm w h).one, (walkTiers_ok tiers perm w h).vis⟩

/-- **C15_tier_walk_ready_only**: an announce is started only for a tracker whose `GetState`
    answered Ready in this very walk. -/
theorem C15_tier_walk_ready_only (tiers : List (List TState)) (perm : List Nat) (w : Walk)
    (h : walkTiers tiers perm = some w) : ∀ x ∈ w.started, stateAt tiers x = some .ready :=
  (walkTiers_ok tiers perm w h).rdy

/-- the walk does not fault when the tier order is a list of valid tier indices (`rand.Perm`) -/
theorem C15_tier_walk_no_panic (tiers : List (List TState)) : ∀ (perm : List Nat),
    (∀ i ∈ perm, i < tiers.length) → ∃ w, walkTiers tiers perm = some w := by
  intro perm
  induction perm with
  | nil => intro _; exact ⟨_, rfl⟩
  | cons i perm ih =>
    intro hp
    have hi : i < tiers.length := hp i (List.mem_cons_self ..)
    obtain ⟨w', hw'⟩ := ih (fun j hj => hp j (List.mem_cons_of_mem _ hj))
    unfold walkTiers
    rw [List.getElem?_eq_getElem hi]
    dsimp only
    split
    · exact ⟨_, rfl⟩
    · rw [hw']; exact ⟨_, rfl⟩

theorem stateOf_ready (b : Base) (now : Int) (h : stateOf b now = .ready) :
    b.locked = false ∧ ready b now = true := by
  cases hl : b.locked with
  | true => simp [stateOf, getState, tryLock, hl] at h
  | false =>
    refine ⟨rfl, ?_⟩
    cases hr : ready b now with
    | true => rfl
    | false =>
      have hr' : ready { b with locked := true } now = false := by simpa [ready] using hr
      simp only [stateOf, getState, tryLock, unlock, hl, hr', Bool.false_eq_true, if_false, if_true] at h
      by_cases he : b.err ≠ Err.nil
      · simp [he] at h
      · simp [he] at h

/-- **Lifting to the torrent.**  With modelled trackers (`tierStates`: every tracker answers what
    its own `GetState` computes at the tick's clock reading), the tracker a tick contacts is
    unlocked and passes its own `ready` gate at that instant: more than
    `max (5 min) (its stored interval)` has passed since its last attempt.  Together with
    `C15_discipline` (which holds for every history of calls on one tracker, so in particular for
    the GetState / Announce calls any sequence of ticks makes on it) the per-tracker discipline
    is the torrent's. -/
theorem C15_tier_walk_discipline (tiers : List (List Base)) (now : Int) (perm : List Nat) (w : Walk)
    (h : walkTiers (tierStates tiers now) perm = some w) :
    ∀ x ∈ w.started, ∃ b, (tiers[x.1]?).bind (·[x.2]?) = some b ∧ b.locked = false ∧
      ready b now = true ∧ max (5 * minute) b.interval < now - b.time := by
  intro x hx
  have hr := C15_tier_walk_ready_only _ perm w h x hx
  unfold stateAt tierStates at hr
  simp only [List.getElem?_map] at hr
  cases ht : tiers[x.1]? with
  | none => rw [ht] at hr; simp at hr
  | some tl =>
    rw [ht] at hr
    simp only [Option.map_some, Option.bind_some, List.getElem?_map] at hr
    cases hb : tl[x.2]? with
    | none => rw [hb] at hr; simp at hr
    | some b =>
      rw [hb] at hr
      simp only [Option.map_some, Option.some.injEq] at hr
      refine ⟨b, by simp [hb], ?_⟩
      have hl := stateOf_ready b now hr
      refine ⟨hl.1, hl.2, ?_⟩
      have hrd := hl.2
      unfold ready at hrd
      have h5 := effInterval_ge b.interval
      have : max (5 * minute) b.interval ≤ effInterval b.interval := Int.max_le.mpr ⟨h5.1, h5.2⟩
      have : b.time + effInterval b.interval < now := by simpa using hrd
      omega

/-! ### non-vacuity -/

/-- a history with two contacts: the second one is possible only after the announced 1800 s -/
example : contacts (Base.fresh false)
    [ .annHTTP 0 0 false (.reply { failure := [], retry := .empty, interval := 1800, dec1 := some [10,0,0,1,0x1f,0x90], dec2 := none, peers6 := [] }) (.transport .dial) false,
      .annHTTP (1800 * second) 0 false (.transport .dial) (.transport .dial) false,
      .getState (1800 * second + 1),
      .annHTTP (1800 * second + 1) 5 false (.transport .status) (.transport .dial) false ]
    = some [(0, 1800 * second), (1800 * second + 6, 1800 * second)] := by decide

/-- peers of a UDP announce: two complete IPv4 records and a truncated third one -/
example : announceUDP true .v4
    { dialOk := true, tidC := 5, connect := [.bytes [0,0,0,0, 0,0,0,5, 1,2,3,4,5,6,7,8]],
      tidA := 9, announce := [.bytes [0,0,0,1, 0,0,0,8, 0,0,0,0, 0,0,0,0, 0,0,0,0],
                              .bytes ([0,0,0,1, 0,0,0,9, 0,0,7,8, 0,0,0,1, 0,0,0,2] ++
                                      [10,0,0,1,0x1f,0x90] ++ [10,0,0,2,0,80] ++ [10,0])] }
    = .done (1800 * second) .ueof [⟨[10,0,0,1], 8080⟩, ⟨[10,0,0,2], 80⟩] := by decide

/-- an interval that wraps: 2^62 s · 10^9 ≡ 0 (mod 2^64) → the 15-minute default -/
example : (updateInterval (Base.fresh false) (wrap64 (4611686018427387904 * second)) .nil).interval
    = 15 * minute := by decide

/-- `retry in` "never" = 2400 h survives updateInterval(0, err) -/
example : (updateInterval (applySet (Base.fresh false) (some (retryOf .never))) 0 (.failure [110])).interval
    = 2400 * hour := by decide

end Storrent.Props.C15
