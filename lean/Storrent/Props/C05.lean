import Storrent.Lemmas.PeerEvI
import Storrent.Lemmas.TorMetaI
import Storrent.Lemmas.CostAll
import Storrent.Props.C04
/-
C05 — No message sequence from a remote peer can crash or bloat the client.

The statements are about `Storrent.PeerMsg` (Model/PeerMsg.lean), the transcription of
peer.handleMessage / peer.handleEvent / the exit path of peer.Run / peer/requests and of the
torrent-side handlers, which the correspondence stream of harness/cmd/c05 diffs against the
real code on every run.
-/
namespace Storrent.Props.C05
open Storrent Storrent.PeerMsg Storrent.RequestsI

/-! ### what the protocol reader can deliver -/

/-- the message `protocol.Reader` forwards for one result of `protocol.Read`: a decoded
    message, `protocol.Error{err}` for an error, a nil message for `(nil, nil)` -/
def delivered : Wire.Res → Option PMsg
  | .msg m => some (.wire m)
  | .err e => some (.error (e == .eof))
  | .nilnil => some .nil
  | .panic => none

/-- messages a reader can deliver: everything but nil and the writer-side `Flush` -/
def FromReader : PMsg → Prop
  | .wire _ => True
  | .error _ => True
  | .flush => False
  | .nil => False

/-! ### states -/

/-- one step of a peer's life: a message from the remote (any message a reader delivers, any
    verdict of the piece store), a command of the torrent (any, with a usable geometry in
    `PeerMetadataComplete`), or a move of the environment (writer queue, write results,
    rate regime, clock) -/
inductive StepTo : PeerState → PeerState → Prop
  | msg (s : PeerState) (m : PMsg) (ae : AddEnv) (h : FromReader m) :
      StepTo s (handleMessage s m ae).s
  | pev (s : PeerState) (e : PEv) (h : PEv.Valid e) : StepTo s (handleEvent s e).s
  | env (s : PeerState) (wlen wcap : Nat) (wdone : Bool) (ws : List WRes) (fr ao : Bool) :
      StepTo s { s with wlen := wlen, wcap := wcap, wdone := wdone, wscript := ws,
                        fastRate := fr, activeOld := ao }

/-- a fresh peer: nothing requested; if the metadata is already known the geometry is usable -/
def Init (s : PeerState) : Prop :=
  s.requests = {} ∧ (s.info = true → CS ≤ s.pieceSize)

inductive Reachable : PeerState → Prop
  | init (s : PeerState) (h : Init s) : Reachable s
  | step (s s' : PeerState) (hr : Reachable s) (hs : StepTo s s') : Reachable s'

/-! ### handleMessage -/

theorem run_ok {x : PM Unit} {s : PeerState} (h : Ok x { s := s } (fun _ c' => Inv c'.s)) :
    (∀ w, (run x s).res ≠ .panic w) ∧ Inv (run x s).s := by
  unfold run
  unfold Ok at h
  split <;> simp_all

theorem handleMessage_ok (s : PeerState) (hi : Inv s) (m : PMsg) (ae : AddEnv) (hm : FromReader m) :
    (∀ w, (handleMessage s m ae).res ≠ .panic w) ∧ Inv (handleMessage s m ae).s := by
  unfold handleMessage
  apply run_ok
  cases m with
  | wire w => exact ok_mono (spec_handleWire w ae { s := s } hi) (fun _ _ h => h.2)
  | error eof => simp [handleMessageM]; exact inv_frame hi rfl rfl rfl
  | flush => exact absurd hm (by simp [FromReader])
  | nil => exact absurd hm (by simp [FromReader])

theorem handleEvent_ok (s : PeerState) (hi : Inv s) (e : PEv) (he : PEv.Valid e) :
    (∀ w, (handleEvent s e).res ≠ .panic w) ∧ Inv (handleEvent s e).s := by
  unfold handleEvent
  apply run_ok
  by_cases hm : ∃ il ps len, e = .metadataComplete il ps len
  · obtain ⟨il, ps, len, rfl⟩ := hm
    exact t_pev_meta il ps len he { s := s } hi
  · have hne : ∀ il ps len, e ≠ .metadataComplete il ps len := fun il ps len h => hm ⟨il, ps, len, h⟩
    by_cases hinfo : s.info = true
    · exact ok_mono (tG_pev e hne { s := s } hi hinfo) (fun _ _ h => h.2)
    · exact ok_mono (t_pev_noinfo e hne { s := s } hi (by simpa using hinfo)) (fun _ _ h => h.2)

theorem init_inv (s : PeerState) (h : Init s) : Inv s :=
  ⟨h.2, by rw [h.1]; exact consistent_empty, fun _ => by rw [h.1]; exact ⟨rfl, rfl⟩⟩

/-- C05_invariants — the peer-state invariant holds in every reachable state: the request
    structure is consistent with its membership bitmap (no index twice, bitmap = exact
    membership), nothing is queued before the metadata is known, and the geometry the
    chunk arithmetic divides by is non-zero once it is known. -/
theorem C05_invariants (s : PeerState) (hr : Reachable s) : Inv s := by
  induction hr with
  | init s h => exact init_inv s h
  | step s s' _ hs ih =>
    cases hs with
    | msg m ae h => exact (handleMessage_ok s ih m ae h).2
    | pev e h => exact (handleEvent_ok s ih e h).2
    | env wlen wcap wdone ws fr ao => exact inv_frame ih rfl rfl rfl

/-- on a consistent request structure the two Go panics of peer/requests are unreachable:
    `del` always finds the index its bitmap promises ("Requests is broken!"), and the
    request taken by `Dequeue` can always be re-inserted by `EnqueueRequest` -/
theorem C05_invariants_requests (rs : Requests) (hc : Consistent rs) :
    (∀ i ro, del rs i ro ≠ none) ∧
    (∀ rs' q, dequeue rs = some (rs', q) → enqueueRequest rs' q ≠ none) := by
  constructor
  · intro i ro h
    obtain ⟨_, _, _, hd, _⟩ := del_consistent hc i ro
    rw [h] at hd; cases hd
  · intro rs' q hd h
    obtain ⟨hc', hb, _⟩ := dequeue_consistent hc hd
    obtain ⟨_, _, he, _⟩ := enqueueRequest_consistent hc' q hb
    rw [h] at he; cases he

/-- C05_peer_no_panic — in every reachable state, whatever message a reader can deliver
    (all 23 decoded message types with arbitrary field values and payloads, and
    `protocol.Error`), whatever the piece store answers and whatever `write` returns,
    `handleMessage` does not fault. -/
theorem C05_peer_no_panic (s : PeerState) (hr : Reachable s) (m : PMsg) (ae : AddEnv)
    (hm : FromReader m) : ∀ w, (handleMessage s m ae).res ≠ .panic w :=
  (handleMessage_ok s (C05_invariants s hr) m ae hm).1

/-- the same for the torrent's own commands interleaved with the messages -/
theorem C05_peer_event_no_panic (s : PeerState) (hr : Reachable s) (e : PEv) (he : PEv.Valid e) :
    ∀ w, (handleEvent s e).res ≠ .panic w :=
  (handleEvent_ok s (C05_invariants s hr) e he).1

/-- C05_nil_panics — a nil message (and the writer-side `Flush`) reaches
    `default: panic("Unknown message")` in every state. -/
theorem C05_nil_panics (s : PeerState) (ae : AddEnv) :
    (handleMessage s .nil ae).res = .panic "Unknown message" ∧
    (handleMessage s .flush ae).res = .panic "Unknown message" := ⟨rfl, rfl⟩

/-- C05_reader_to_handler — composition with C04: for every byte stream and every behaviour
    of the bencode decoder the reader's result is delivered as a message `handleMessage`
    handles without a fault (`C04_never_nilnil` keeps nil out, `C04_no_panic` the reader
    itself alive). -/
theorem C05_reader_to_handler (bd : Wire.BDec) (bs : Bytes) (s : PeerState) (hr : Reachable s)
    (ae : AddEnv) :
    ∃ m, delivered (Storrent.Props.C04.decode bd bs).res = some m ∧ FromReader m ∧
      ∀ w, (handleMessage s m ae).res ≠ .panic w := by
  have h1 := Storrent.Props.C04.C04_never_nilnil bd bs
  have h2 := Storrent.Props.C04.C04_no_panic bd bs
  cases hres : (Storrent.Props.C04.decode bd bs).res with
  | msg m => exact ⟨.wire m, rfl, trivial, C05_peer_no_panic s hr _ ae trivial⟩
  | err e => exact ⟨.error (e == .eof), rfl, trivial, C05_peer_no_panic s hr _ ae trivial⟩
  | nilnil => exact absurd hres h1
  | panic => exact absurd hres h2

/-! ### worst case: this peer is disconnected -/

theorem exit_ok (s : PeerState) (hi : Inv s) :
    Ok exitM { s := s } (fun _ c' => Good { s := s } c') := by
  unfold exitM
  rw [ok_bind, ok_get]
  simp only [clear, ↓reduceIte]
  have hinv : Inv { s with requests := { queue := [], requested := [], bits := [] } } :=
    ⟨hi.geom, consistent_empty, fun _ => ⟨rfl, rfl⟩⟩
  refine ok_step_modify ⟨rfl, rfl, rfl⟩ hinv ?_
  by_cases hinfo : s.info = true
  · refine (?_ : SpecG _) _ hinv hinfo
    specg_auto
  · have h0 : s.info = false := by simpa using hinfo
    obtain ⟨hq, hr⟩ := hi.noinfo h0
    simp only [hq, hr, List.map_nil, List.append_nil]
    refine (?_ : Spec _) _ hinv
    have := spec_dropAll_nil
    spec_auto2

/-- C05_worst_is_disconnect — the worst a message can do is `return err`: the handler's
    result is `ok` or `err`, never a fault, and the peer's own state stays well-formed; the
    exit path of `peer.Run` that follows (Clear(true, drop), TorPeerBitmap{false},
    TorPeerGoaway) cannot fault either.  `handleMessage` has no access to any other peer's
    state: its only outputs are this peer's writer queue and the events of `TEv`.
    (That the emitted retractions bring the torrent's availability counters back is checked
    on the real code by the harness oracle after every case.) -/
theorem C05_worst_is_disconnect (s : PeerState) (hr : Reachable s) (m : PMsg) (ae : AddEnv)
    (hm : FromReader m) :
    let r := handleMessage s m ae
    (r.res = .ok ∨ ∃ e, r.res = .err e) ∧ Inv r.s ∧
    (∀ w, (PeerMsg.exit r.s).res ≠ .panic w) ∧ Inv (PeerMsg.exit r.s).s := by
  intro r
  have h := handleMessage_ok s (C05_invariants s hr) m ae hm
  refine ⟨?_, h.2, ?_⟩
  · cases hres : r.res with
    | ok => exact Or.inl rfl
    | err e => exact Or.inr ⟨e, rfl⟩
    | panic w => exact absurd hres (h.1 w)
  · exact run_ok (ok_mono (exit_ok r.s h.2) (fun _ _ h => h.2))

/-! ### torrent side -/

/-- the events a peer can emit, as far as the torrent-side faults depend on them:
    `TorData` is emitted only for a block `Pieces.AddData` accepted in full (block-aligned
    and inside the torrent; at most a frame long); `TorDrop` is `fromChunk` of a chunk the
    torrent itself requested, for one block -/
def PeerEmits (t : TorState) : TEv → Prop
  | .data i b l _ => l ≤ 1048576 ∧ (l = 0 ∨ (b % CS = 0 ∧ i * t.pieceSize + b + l ≤ t.length))
  | .drop i b l => l = CS ∧ b % CS = 0 ∧ (i * (t.pieceSize / CS) + b / CS) < chunksOf t.length
  | _ => True

theorem release_ok (t : TorState) (hg : Geom.Valid t) (i b n : Nat)
    (h : n = 0 ∨ (i * (t.pieceSize / CS) + b / CS + n) ≤ chunksOf t.length) :
    ∃ t', releaseLoop t ((i * (t.pieceSize / CS) + b / CS) % U32) n 0 = some t' := by
  apply releaseLoop_some
  intro k hk
  rcases h with h | h
  · omega
  · have hs := hg.small
    rw [hg.slots]
    have h1 : i * (t.pieceSize / CS) + b / CS + k < chunksOf t.length := by omega
    have h2 : (i * (t.pieceSize / CS) + b / CS) % U32 = i * (t.pieceSize / CS) + b / CS :=
      Nat.mod_eq_of_lt (by omega)
    rw [h2, Nat.zero_add, Nat.mod_eq_of_lt (by omega)]
    exact h1

/-- the `TorData`/`TorDrop` arm: the in-flight indexing stays inside the table -/
theorem releaseArm_spec (t : TorState) (hi : TInv t) (i b l : Nat) (r : TResult)
    (hr : r = torData t i b l ∨ r = torDrop t i b l)
    (h : t.infoComplete = true → ((l + CS - 1) % U32 / CS = 0 ∨
      (i * (t.pieceSize / CS) + b / CS + (l + CS - 1) % U32 / CS) ≤ chunksOf t.length)) :
    (∀ w, r.res ≠ .panic w) ∧ r.alloc = 0 ∧ TInv r.t := by
  rcases hr with rfl | rfl
  · unfold torData
    split
    · exact ⟨by simp, rfl, hi⟩
    rename_i hic
    split
    · exact ⟨by simp, rfl, hi⟩
    split
    · exact ⟨by simp, rfl, hi⟩
    obtain ⟨t', ht'⟩ := release_ok t (hi.geom (by simpa using hic)) i b _ (h (by simpa using hic))
    dsimp only
    rw [ht']
    exact ⟨by simp, rfl, tinv_same (releaseLoop_same _ _ _ _ _ ht') hi⟩
  · unfold torDrop
    split
    · exact ⟨by simp, rfl, hi⟩
    rename_i hic
    split
    · exact ⟨by simp, rfl, hi⟩
    split
    · exact ⟨by simp, rfl, hi⟩
    obtain ⟨t', ht'⟩ := release_ok t (hi.geom (by simpa using hic)) i b _ (h (by simpa using hic))
    dsimp only
    rw [ht']
    exact ⟨by simp, rfl, tinv_same (releaseLoop_same _ _ _ _ _ ht') hi⟩

/-- C05_tor_no_panic — for every event a peer can emit (all ten event types: an index before
    the piece count is known, a bitmap, an extension handshake with any metadata size, a
    metadata block with any size/index/payload, `TorData`/`TorDrop`, the notifications),
    in every torrent state satisfying the invariant (metadata buffers consistent, geometry
    valid once complete — explicit hypotheses) and whatever the environment chooses
    (any admissible geometry on completion): `tor.handleEvent` does not fault, keeps the
    invariant, and allocates at most `torCost e`, a function of the event alone. -/
theorem C05_tor_no_panic (t : TorState) (e : TEv) (env : TorEnv) (hi : TInv t)
    (henv : EnvValid env) (he : PeerEmits t e) :
    (∀ w, (torHandle t e env).res ≠ .panic w) ∧ (torHandle t e env).alloc ≤ torCost e ∧
    TInv (torHandle t e env).t := by
  cases e with
  | peerUnchoke b => exact ⟨by simp [torHandle], by simp [torHandle], hi⟩
  | peerInterested b => exact ⟨by simp [torHandle], by simp [torHandle], hi⟩
  | goaway => exact ⟨by simp [torHandle], by simp [torHandle], hi⟩
  | addKnown ip p k v => exact ⟨by simp [torHandle], by simp [torHandle, torCost], hi⟩
  | peerHave i h =>
    have hs := noteAvailable_same t i h
    have ha : (noteAvailable t i h).2 ≤ 2 * (i + 1) := by
      unfold noteAvailable; dsimp only; split <;> simp
    unfold torHandle
    dsimp only
    generalize noteAvailable t i h = na at hs ha
    obtain ⟨t', a⟩ := na
    exact ⟨by simp, ha, tinv_same hs hi⟩
  | peerBitmap bm h =>
    refine ⟨by simp [torHandle], ?_, ?_⟩
    · simp only [torHandle, torCost]; split <;> simp
    · exact tinv_same (foldAvail_same _ h t) hi
  | peerExtended n => exact arm_peerExtended t n env hi
  | metaData size index data => exact arm_metaData t size index data env hi henv
  | data i b l c =>
    have hcount : t.infoComplete = true → ((l + CS - 1) % U32 / CS = 0 ∨
        (i * (t.pieceSize / CS) + b / CS + (l + CS - 1) % U32 / CS) ≤ chunksOf t.length) := by
      intro hic
      obtain ⟨hcap, he⟩ := he
      have hmod : (l + CS - 1) % U32 = l + CS - 1 := Nat.mod_eq_of_lt (by unfold CS U32; omega)
      rw [hmod]
      have hv := hi.geom hic
      rcases he with h0 | ⟨hb, hle⟩
      · left; subst h0; unfold CS; rfl
      · right
        have hps : t.pieceSize = t.pieceSize / CS * CS :=
          (Nat.div_mul_cancel (Nat.dvd_of_mod_eq_zero hv.ps_mul)).symm
        have hip : i * t.pieceSize = i * (t.pieceSize / CS) * CS := by rw [Nat.mul_assoc, ← hps]
        rw [hip] at hle
        generalize i * (t.pieceSize / CS) = P at hle ⊢
        unfold chunksOf CS at *
        omega
    obtain ⟨h1, h2, h3⟩ := releaseArm_spec t hi i b l (torData t i b l) (Or.inl rfl) hcount
    exact ⟨h1, by show (torData t i b l).alloc ≤ _; rw [h2]; exact Nat.zero_le _, h3⟩
  | drop i b l =>
    have hcount : t.infoComplete = true → ((l + CS - 1) % U32 / CS = 0 ∨
        (i * (t.pieceSize / CS) + b / CS + (l + CS - 1) % U32 / CS) ≤ chunksOf t.length) := by
      intro _
      obtain ⟨hl, hb, hlt⟩ := he
      right
      subst hl
      have : (CS + CS - 1) % U32 / CS = 1 := by unfold CS U32; rfl
      rw [this]
      omega
    obtain ⟨h1, h2, h3⟩ := releaseArm_spec t hi i b l (torDrop t i b l) (Or.inr rfl) hcount
    exact ⟨h1, by show (torDrop t i b l).alloc ≤ _; rw [h2]; exact Nat.zero_le _, h3⟩

/-- C05_tor_alloc_bound — the torrent-side half of the allocation clause, for every event and
    every state satisfying the invariant: the bytes `tor.handleEvent` allocates are bounded
    by a function of the event alone, which for the events a message gives rise to is
    proportional to the message or a constant of the code: an announced bitmap of `n` bytes
    costs ≤ 80·n (availability counters, append growth included), an accepted index `i`
    ≤ 2(i+1) with `i` below the piece count (or below 8·2^20 before it is known), a known-peer
    record 512 + |version|, the metadata buffers ≤ `metaConst` (the 128 MiB cap of
    metadataVote + request table + permutation) whatever size, block index, total_size or
    payload the peer sends; `TorData`/`TorDrop`/notifications allocate nothing. -/
theorem C05_tor_alloc_bound (t : TorState) (e : TEv) (env : TorEnv) (hi : TInv t)
    (henv : EnvValid env) (he : PeerEmits t e) :
    (torHandle t e env).alloc ≤ torCost e ∧
    (∀ bm h, e = .peerBitmap bm h → torCost e ≤ 80 * bm.length) ∧
    (∀ n, e = .peerExtended n → torCost e = 48 + metaConst) ∧
    (∀ sz ix d, e = .metaData sz ix d → torCost e = 1025 + metaConst) := by
  refine ⟨(C05_tor_no_panic t e env hi henv he).2.1, ?_, ?_, ?_⟩
  · intro bm h hb; subst hb; simp only [torCost]; have := bmLen_le bm; omega
  · intro n hn; subst hn; rfl
  · intro sz ix d hd; subst hd; rfl

/-! ### allocation -/

/-- C05_alloc_bound — for every reachable state `s`, every message a reader can deliver (all
    23 decoded message types with arbitrary field values and payloads, and `protocol.Error`),
    whatever the piece store, `write` and the rate regime do:

      bytes allocated by `handleMessage`  +  Σ `torCost e` over the events it emits
        ≤  192·|m|  +  constB  +  idxTerm s  +  stateTerm s

    where `|m| = wireSize m` is (a lower bound on) the size of the frame, `torCost e` bounds
    what `tor.handleEvent` allocates for `e` (`C05_tor_alloc_bound`), and
    * `constB = metaConst + 8192`, `metaConst = 128 MiB + 9·8192`: the metadata buffers
      `resizeMetadata` may allocate (cap of `metadataVote`), reached by Extended0 / metadata
      data only;
    * `idxTerm s = 23·N + 512` with `N` the piece count an index is checked against: the real
      one once the metadata is known, **`maxPieces = 8·2^20` before** — the constant bound of
      Have / HaveAll / AllowedFast / Bitfield-before-metadata (peer bitmap N/8, availability
      2N, potential of the bitmap), independent of the index in the message;
    * `stateTerm s = 400·|queue| + 128·|requested| + 32·|upload| + 113·|bitmap| + ⌈|bits|/8⌉ + 2`:
      what the state held for the remote and a Choke / NotInterested / HaveNone / Bitfield /
      DontHave releases or walks (each of those bytes was paid for by an earlier message of
      at least that size: the bound is amortised, `Pot` is the potential).
    No numeric field of `m` occurs on the right-hand side. -/
theorem C05_alloc_bound (s : PeerState) (hr : Reachable s) (m : Wire.Msg) (ae : AddEnv) :
    (handleMessage s (.wire m) ae).cost.alloc + sumCost (handleMessage s (.wire m) ae).outs ≤
      192 * wireSize m + constB + idxTerm s + stateTerm s := by
  have hi := C05_invariants s hr
  have hc := cost_handleWire m ae { s := s } hi
  have hk := msgK_le m s
  have hnp := (handleMessage_ok s hi (.wire m) ae trivial).1
  unfold handleMessage run at *
  simp only [handleMessageM] at *
  cases hres : handleWire m ae { s := s } with
  | ret a c' =>
    rw [hres] at hc
    simp only [costOut_ret, Le, Psi, sumCost] at hc
    simp only [sumCost]
    simp at hc
    omega
  | err e c' =>
    rw [hres] at hc
    simp only [costOut_err, Le, Psi, sumCost] at hc
    simp only [sumCost]
    simp at hc
    omega
  | panic w c' =>
    rw [hres] at hnp
    exact absurd rfl (hnp w)

/-- the same for a read error handed over by the reader: nothing is allocated -/
theorem C05_alloc_bound_error (s : PeerState) (eof : Bool) (ae : AddEnv) :
    (handleMessage s (.error eof) ae).cost.alloc = 0 ∧ (handleMessage s (.error eof) ae).outs = [] := by
  constructor <;> rfl

/-! ### allocation: the clause about attacker-chosen indexes, stated directly -/

/-- C05_alloc_have_guard — the repaired guard: a `Have` whose index cannot be a piece index
    (≥ 8·2^20 before the metadata is known) is refused before anything is allocated or
    announced, whatever the index (up to 2^32−1 and beyond). -/
theorem C05_alloc_have_guard (s : PeerState) (ae : AddEnv) (i : Nat) (hinfo : s.info = false)
    (hi : maxPiecesPre ≤ i) :
    let r := handleMessage s (.wire (.have i)) ae
    r.res = .err "value out of range" ∧ r.cost.alloc = 0 ∧ r.outs = [] := by
  have h : ¬ i < maxPiecesPre := by omega
  simp [handleMessage, run, handleMessageM, handleWire, hinfo, hi, bind, PM.bind, PeerMsg.get, PeerMsg.failTag]

/-- C05_fast_guard — the repaired AllowedFast handler (fix 02): an index that cannot be a
    piece index (≥ 8·2^20 before the metadata is known) is refused and never enters the
    allowed-fast set the torrent's idle piece picking walks; every index the set holds was
    below that bound, and once the metadata is known a new entry is below the piece count
    (guard `i ≥ numPieces → ErrRange` in the model, diffed against the code). -/
theorem C05_fast_guard (s : PeerState) (ae : AddEnv) (i : Nat) (hinfo : s.info = false)
    (hi : maxPiecesPre ≤ i) :
    let r := handleMessage s (.wire (.allowedFast i)) ae
    (∃ e, r.res = .err e) ∧ r.s.fast = s.fast ∧ r.outs = [] := by
  by_cases hf : s.canFast = true
  · simp [handleMessage, run, handleMessageM, handleWire, hinfo, hi, hf, bind, PM.bind, PeerMsg.get, PeerMsg.failTag]
  · simp [handleMessage, run, handleMessageM, handleWire, hf, bind, PM.bind, PeerMsg.get, PeerMsg.failTag]

/-- C05_alloc_kernel — the two index-driven allocations: the peer bitmap grows to at most
    `i/8+1` bytes and the availability vector to `2·(i+1)` bytes for an accepted index `i`
    (so at most 1 MiB + 16 MiB before the metadata is known, `N/8 + 2N` after). -/
theorem C05_alloc_kernel (b : Bytes) (t : TorState) (i : Nat) (hv : Bool) :
    bmGrow b i ≤ i / 8 + 1 ∧ (noteAvailable t i hv).2 ≤ 2 * (i + 1) := by
  constructor
  · unfold bmGrow; split <;> omega
  · unfold noteAvailable; dsimp only; split <;> simp

/-! ### non-vacuity -/
example : Reachable {} := .init _ ⟨rfl, by simp⟩
example : Reachable (handleMessage {} (.wire (.have 7)) {}).s :=
  .step _ _ (.init _ ⟨rfl, by simp⟩) (.msg _ _ _ trivial)
example : TInv {} := ⟨⟨by simp, by simp [metaCap], by simp, rfl⟩, by simp⟩
example : Geom.Valid { infoComplete := true, pieceSize := 32768, length := 100000, inFlight := { len := 7 } } :=
  ⟨by decide, by decide, by decide, by decide⟩
example : PeerEmits { pieceSize := 32768, length := 100000 } (.data 3 0 1696 false) := ⟨by decide, Or.inr ⟨by decide, by decide⟩⟩

end Storrent.Props.C05
