import Storrent.Lemmas.PeerEvI
import Storrent.Lemmas.TorI
import Storrent.Props.C04
/-
C05 — No message sequence from a remote peer can crash or bloat the client.

The statements are about `Storrent.PeerMsg` (Model/PeerMsg.lean), the transcription of
peer.handleMessage / peer.handleEvent / the exit path of peer.Run / peer/requests and of the
torrent-side handlers, which the correspondence stream of harness/cmd/c05 diffs against the
real code on every run.
-/
namespace Storrent.Props.C05
open Storrent Storrent.PeerMsg Storrent.RequestsI

/-! ### what the protocol reader can deliver -/

/-- the message `protocol.Reader` forwards for one result of `protocol.Read`: a decoded
    message, `protocol.Error{err}` for an error, a nil message for `(nil, nil)` -/
def delivered : Wire.Res → Option PMsg
  | .msg m => some (.wire m)
  | .err e => some (.error (e == .eof))
  | .nilnil => some .nil
  | .panic => none

/-- messages a reader can deliver: everything but nil and the writer-side `Flush` -/
def FromReader : PMsg → Prop
  | .wire _ => True
  | .error _ => True
  | .flush => False
  | .nil => False

/-! ### states -/

/-- one step of a peer's life: a message from the remote (any message a reader delivers, any
    verdict of the piece store), a command of the torrent (any, with a usable geometry in
    `PeerMetadataComplete`), or a move of the environment (writer queue, write results,
    rate regime, clock) -/
inductive StepTo : PeerState → PeerState → Prop
  | msg (s : PeerState) (m : PMsg) (ae : AddEnv) (h : FromReader m) :
      StepTo s (handleMessage s m ae).s
  | pev (s : PeerState) (e : PEv) (h : PEv.Valid e) : StepTo s (handleEvent s e).s
  | env (s : PeerState) (wlen wcap : Nat) (wdone : Bool) (ws : List WRes) (fr ao : Bool) :
      StepTo s { s with wlen := wlen, wcap := wcap, wdone := wdone, wscript := ws,
                        fastRate := fr, activeOld := ao }

/-- a fresh peer: nothing requested; if the metadata is already known the geometry is usable -/
def Init (s : PeerState) : Prop :=
  s.requests = {} ∧ (s.info = true → CS ≤ s.pieceSize)

inductive Reachable : PeerState → Prop
  | init (s : PeerState) (h : Init s) : Reachable s
  | step (s s' : PeerState) (hr : Reachable s) (hs : StepTo s s') : Reachable s'

/-! ### handleMessage -/

theorem run_ok {x : PM Unit} {s : PeerState} (h : Ok x { s := s } (fun _ c' => Inv c'.s)) :
    (∀ w, (run x s).res ≠ .panic w) ∧ Inv (run x s).s := by
  unfold run
  unfold Ok at h
  split <;> simp_all

theorem handleMessage_ok (s : PeerState) (hi : Inv s) (m : PMsg) (ae : AddEnv) (hm : FromReader m) :
    (∀ w, (handleMessage s m ae).res ≠ .panic w) ∧ Inv (handleMessage s m ae).s := by
  unfold handleMessage
  apply run_ok
  cases m with
  | wire w => exact ok_mono (spec_handleWire w ae { s := s } hi) (fun _ _ h => h.2)
  | error eof => simp [handleMessageM]; exact inv_frame hi rfl rfl rfl
  | flush => exact absurd hm (by simp [FromReader])
  | nil => exact absurd hm (by simp [FromReader])

theorem handleEvent_ok (s : PeerState) (hi : Inv s) (e : PEv) (he : PEv.Valid e) :
    (∀ w, (handleEvent s e).res ≠ .panic w) ∧ Inv (handleEvent s e).s := by
  unfold handleEvent
  apply run_ok
  by_cases hm : ∃ il ps len, e = .metadataComplete il ps len
  · obtain ⟨il, ps, len, rfl⟩ := hm
    exact t_pev_meta il ps len he { s := s } hi
  · have hne : ∀ il ps len, e ≠ .metadataComplete il ps len := fun il ps len h => hm ⟨il, ps, len, h⟩
    by_cases hinfo : s.info = true
    · exact ok_mono (tG_pev e hne { s := s } hi hinfo) (fun _ _ h => h.2)
    · exact ok_mono (t_pev_noinfo e hne { s := s } hi (by simpa using hinfo)) (fun _ _ h => h.2)

theorem init_inv (s : PeerState) (h : Init s) : Inv s :=
  ⟨h.2, by rw [h.1]; exact consistent_empty, fun _ => by rw [h.1]; exact ⟨rfl, rfl⟩⟩

/-- C05_invariants — the peer-state invariant holds in every reachable state: the request
    structure is consistent with its membership bitmap (no index twice, bitmap = exact
    membership), nothing is queued before the metadata is known, and the geometry the
    chunk arithmetic divides by is non-zero once it is known. -/
theorem C05_invariants (s : PeerState) (hr : Reachable s) : Inv s := by
  induction hr with
  | init s h => exact init_inv s h
  | step s s' _ hs ih =>
    cases hs with
    | msg m ae h => exact (handleMessage_ok s ih m ae h).2
    | pev e h => exact (handleEvent_ok s ih e h).2
    | env wlen wcap wdone ws fr ao => exact inv_frame ih rfl rfl rfl

/-- on a consistent request structure the two Go panics of peer/requests are unreachable:
    `del` always finds the index its bitmap promises ("Requests is broken!"), and the
    request taken by `Dequeue` can always be re-inserted by `EnqueueRequest` -/
theorem C05_invariants_requests (rs : Requests) (hc : Consistent rs) :
    (∀ i ro, del rs i ro ≠ none) ∧
    (∀ rs' q, dequeue rs = some (rs', q) → enqueueRequest rs' q ≠ none) := by
  constructor
  · intro i ro h
    obtain ⟨_, _, _, hd, _⟩ := del_consistent hc i ro
    rw [h] at hd; cases hd
  · intro rs' q hd h
    obtain ⟨hc', hb, _⟩ := dequeue_consistent hc hd
    obtain ⟨_, _, he, _⟩ := enqueueRequest_consistent hc' q hb
    rw [h] at he; cases he

/-- C05_peer_no_panic — in every reachable state, whatever message a reader can deliver
    (all 23 decoded message types with arbitrary field values and payloads, and
    `protocol.Error`), whatever the piece store answers and whatever `write` returns,
    `handleMessage` does not fault. -/
theorem C05_peer_no_panic (s : PeerState) (hr : Reachable s) (m : PMsg) (ae : AddEnv)
    (hm : FromReader m) : ∀ w, (handleMessage s m ae).res ≠ .panic w :=
  (handleMessage_ok s (C05_invariants s hr) m ae hm).1

/-- the same for the torrent's own commands interleaved with the messages -/
theorem C05_peer_event_no_panic (s : PeerState) (hr : Reachable s) (e : PEv) (he : PEv.Valid e) :
    ∀ w, (handleEvent s e).res ≠ .panic w :=
  (handleEvent_ok s (C05_invariants s hr) e he).1

/-- C05_nil_panics — a nil message (and the writer-side `Flush`) reaches
    `default: panic("Unknown message")` in every state. -/
theorem C05_nil_panics (s : PeerState) (ae : AddEnv) :
    (handleMessage s .nil ae).res = .panic "Unknown message" ∧
    (handleMessage s .flush ae).res = .panic "Unknown message" := ⟨rfl, rfl⟩

/-- C05_reader_to_handler — composition with C04: for every byte stream and every behaviour
    of the bencode decoder the reader's result is delivered as a message `handleMessage`
    handles without a fault (`C04_never_nilnil` keeps nil out, `C04_no_panic` the reader
    itself alive). -/
theorem C05_reader_to_handler (bd : Wire.BDec) (bs : Bytes) (s : PeerState) (hr : Reachable s)
    (ae : AddEnv) :
    ∃ m, delivered (Storrent.Props.C04.decode bd bs).res = some m ∧ FromReader m ∧
      ∀ w, (handleMessage s m ae).res ≠ .panic w := by
  have h1 := Storrent.Props.C04.C04_never_nilnil bd bs
  have h2 := Storrent.Props.C04.C04_no_panic bd bs
  cases hres : (Storrent.Props.C04.decode bd bs).res with
  | msg m => exact ⟨.wire m, rfl, trivial, C05_peer_no_panic s hr _ ae trivial⟩
  | err e => exact ⟨.error (e == .eof), rfl, trivial, C05_peer_no_panic s hr _ ae trivial⟩
  | nilnil => exact absurd hres h1
  | panic => exact absurd hres h2

/-! ### worst case: this peer is disconnected -/

theorem exit_ok (s : PeerState) (hi : Inv s) :
    Ok exitM { s := s } (fun _ c' => Good { s := s } c') := by
  unfold exitM
  rw [ok_bind, ok_get]
  simp only [clear, ↓reduceIte]
  have hinv : Inv { s with requests := { queue := [], requested := [], bits := [] } } :=
    ⟨hi.geom, consistent_empty, fun _ => ⟨rfl, rfl⟩⟩
  refine ok_step_modify ⟨rfl, rfl, rfl⟩ hinv ?_
  by_cases hinfo : s.info = true
  · refine (?_ : SpecG _) _ hinv hinfo
    specg_auto
  · have h0 : s.info = false := by simpa using hinfo
    obtain ⟨hq, hr⟩ := hi.noinfo h0
    simp only [hq, hr, List.map_nil, List.append_nil]
    refine (?_ : Spec _) _ hinv
    have := spec_dropAll_nil
    spec_auto2

/-- C05_worst_is_disconnect — the worst a message can do is `return err`: the handler's
    result is `ok` or `err`, never a fault, and the peer's own state stays well-formed; the
    exit path of `peer.Run` that follows (Clear(true, drop), TorPeerBitmap{false},
    TorPeerGoaway) cannot fault either.  `handleMessage` has no access to any other peer's
    state: its only outputs are this peer's writer queue and the events of `TEv`.
    (That the emitted retractions bring the torrent's availability counters back is checked
    on the real code by the harness oracle after every case.) -/
theorem C05_worst_is_disconnect (s : PeerState) (hr : Reachable s) (m : PMsg) (ae : AddEnv)
    (hm : FromReader m) :
    let r := handleMessage s m ae
    (r.res = .ok ∨ ∃ e, r.res = .err e) ∧ Inv r.s ∧
    (∀ w, (PeerMsg.exit r.s).res ≠ .panic w) ∧ Inv (PeerMsg.exit r.s).s := by
  intro r
  have h := handleMessage_ok s (C05_invariants s hr) m ae hm
  refine ⟨?_, h.2, ?_⟩
  · cases hres : r.res with
    | ok => exact Or.inl rfl
    | err e => exact Or.inr ⟨e, rfl⟩
    | panic w => exact absurd hres (h.1 w)
  · exact run_ok (ok_mono (exit_ok r.s h.2) (fun _ _ h => h.2))

/-! ### torrent side -/

/-- the geometry invariant of a torrent whose metadata is known (what tor.MetadataComplete
    establishes): piece size a positive multiple of 16 KiB, one in-flight slot per block,
    fewer than 2^32 blocks -/
structure Geom.Valid (t : TorState) : Prop where
  ps_pos : CS ≤ t.pieceSize
  ps_mul : t.pieceSize % CS = 0
  slots : t.inFlight.len = chunksOf t.length
  small : chunksOf t.length < U32

/-- the metadata buffers are sized consistently (resizeMetadata) and the guard of
    gotMetadata is `>=` (the C12 repair) -/
structure MetaInv (t : TorState) : Prop where
  req_len : t.infoRequested.length = (t.infoLen + 16383) / 16384
  cap : t.infoLen ≤ metaCap
  guard : t.metaGuardGe = true

/-- the events a peer can emit, as far as the torrent-side faults depend on them:
    `TorData` is emitted only for a block `Pieces.AddData` accepted in full (empty, or
    block-aligned and inside the torrent); `TorDrop` is `fromChunk` of a chunk the torrent
    itself requested, for one block -/
def PeerEmits (t : TorState) : TEv → Prop
  | .data i b l _ => l ≤ 1048576 ∧ (l = 0 ∨ (b % CS = 0 ∧ i * t.pieceSize + b + l ≤ t.length))
  | .drop i b l => l = CS ∧ b % CS = 0 ∧ (i * (t.pieceSize / CS) + b / CS) < chunksOf t.length
  | _ => True

theorem release_ok (t : TorState) (hg : Geom.Valid t) (i b n : Nat)
    (h : n = 0 ∨ (i * (t.pieceSize / CS) + b / CS + n) ≤ chunksOf t.length) :
    ∃ t', releaseLoop t ((i * (t.pieceSize / CS) + b / CS) % U32) n 0 = some t' := by
  apply releaseLoop_some
  intro k hk
  rcases h with h | h
  · omega
  · have hs := hg.small
    rw [hg.slots]
    have h1 : i * (t.pieceSize / CS) + b / CS + k < chunksOf t.length := by omega
    have h2 : (i * (t.pieceSize / CS) + b / CS) % U32 = i * (t.pieceSize / CS) + b / CS :=
      Nat.mod_eq_of_lt (by omega)
    rw [h2, Nat.zero_add, Nat.mod_eq_of_lt (by omega)]
    exact h1

/-- the `TorData`/`TorDrop` arm of `torHandle`, as an equation (checked by `rfl`) -/
def releaseArm (t : TorState) (i b l : Nat) (tagE tagP tagN tagO tagS : String) (tagOk : String) : TResult :=
  if !t.infoComplete then ⟨t, .ok, 0, tagN, 0⟩
  else if b % CS ≠ 0 then ⟨t, .ok, 0, tagO, 0⟩
  else if (b + l) % U32 > t.pieceSize then ⟨t, .ok, 0, tagS, 0⟩
  else
    match releaseLoop t ((i * (t.pieceSize / CS) + b / CS) % U32) ((l + CS - 1) % U32 / CS) 0 with
    | none => ⟨t, .panic "index out of range", 0, tagP, 0⟩
    | some t' => ⟨t', .ok, 0, if (l + CS - 1) % U32 / CS = 0 then tagE else tagOk, 0⟩

theorem torHandle_data (t : TorState) (i b l : Nat) (c : Bool) (env : TorEnv) :
    (torHandle t (.data i b l c) env).res = (releaseArm t i b l "TData:empty" "TData:panic" "TData:nometa" "TData:odd" "TData:spans" "TData").res := by
  unfold torHandle releaseArm
  dsimp only
  repeat' (first | rfl | (rename_i heq; rw [heq]; done) | split)

theorem torHandle_drop (t : TorState) (i b l : Nat) (env : TorEnv) :
    (torHandle t (.drop i b l) env).res = (releaseArm t i b l "TDrop" "TDrop:panic" "TDrop:nometa" "TDrop:odd" "TDrop:spans" "TDrop").res := by
  unfold torHandle releaseArm
  dsimp only
  repeat' (first | rfl | (rename_i heq; rw [heq]; done) | split)

theorem releaseArm_ok (t : TorState) (i b l : Nat) (a1 a2 a3 a4 a5 a6 : String)
    (hg : t.infoComplete = true → Geom.Valid t)
    (h : (l + CS - 1) % U32 / CS = 0 ∨
      (i * (t.pieceSize / CS) + b / CS + (l + CS - 1) % U32 / CS) ≤ chunksOf t.length) :
    ∀ w, (releaseArm t i b l a1 a2 a3 a4 a5 a6).res ≠ .panic w := by
  intro w
  unfold releaseArm
  split
  · simp
  rename_i hic
  split
  · simp
  rename_i hb
  split
  · simp
  obtain ⟨t', ht'⟩ := release_ok t (hg (by simpa using hic)) i b _ h
  rw [ht']
  simp

/-- C05_tor_no_panic — under the geometry invariant (explicit hypothesis),
    `tor.handleEvent` does not fault on any `TorData`/`TorDrop` a peer can emit, whatever
    index, offset and length it carries (the `t.inFlight[chunk]` indexing stays inside the
    table; the uint32 wrap of `c.Begin+c.Length` cannot be reached from a peer). -/
theorem C05_tor_no_panic (t : TorState) (e : TEv) (env : TorEnv)
    (hg : t.infoComplete = true → Geom.Valid t) (he : PeerEmits t e)
    (hrel : (∃ i b l c, e = .data i b l c) ∨ (∃ i b l, e = .drop i b l)) :
    ∀ w, (torHandle t e env).res ≠ .panic w := by
  rcases hrel with ⟨i, b, l, c, rfl⟩ | ⟨i, b, l, rfl⟩
  · intro w
    rw [torHandle_data]
    by_cases hic : t.infoComplete = true
    · have hv := hg hic
      apply releaseArm_ok t i b l _ _ _ _ _ _ hg
      obtain ⟨hcap, he⟩ := he
      have hmod : (l + CS - 1) % U32 = l + CS - 1 := Nat.mod_eq_of_lt (by unfold CS U32; omega)
      rw [hmod]
      rcases he with h0 | ⟨hb, hle⟩
      · left; subst h0; unfold CS; rfl
      · right
        -- i*ps = (i*cpp)*CS since CS divides ps
        have hps : t.pieceSize = t.pieceSize / CS * CS := (Nat.div_mul_cancel (Nat.dvd_of_mod_eq_zero hv.ps_mul)).symm
        have hi : i * t.pieceSize = i * (t.pieceSize / CS) * CS := by rw [Nat.mul_assoc, ← hps]
        rw [hi] at hle
        generalize i * (t.pieceSize / CS) = P at hle ⊢
        unfold chunksOf CS at *
        omega
    · unfold releaseArm; simp [hic]
  · intro w
    rw [torHandle_drop]
    apply releaseArm_ok t i b l _ _ _ _ _ _ hg
    obtain ⟨hl, hb, hlt⟩ := he
    right
    subst hl
    have : (CS + CS - 1) % U32 / CS = 1 := by unfold CS U32; rfl
    rw [this]
    omega

/-! ### allocation (partial: the clause about attacker-chosen indexes) -/

/-- C05_alloc_have_guard — the repaired guard: a `Have` whose index cannot be a piece index
    (≥ 8·2^20 before the metadata is known) is refused before anything is allocated or
    announced, whatever the index (up to 2^32−1 and beyond). -/
theorem C05_alloc_have_guard (s : PeerState) (ae : AddEnv) (i : Nat) (hinfo : s.info = false)
    (hi : maxPiecesPre ≤ i) :
    let r := handleMessage s (.wire (.have i)) ae
    r.res = .err "value out of range" ∧ r.cost.alloc = 0 ∧ r.outs = [] := by
  have h : ¬ i < maxPiecesPre := by omega
  simp [handleMessage, run, handleMessageM, handleWire, hinfo, hi, bind, PM.bind, PeerMsg.get, PeerMsg.failTag]

/-- C05_alloc_kernel — the two index-driven allocations: the peer bitmap grows to at most
    `i/8+1` bytes and the availability vector to `2·(i+1)` bytes for an accepted index `i`
    (so at most 1 MiB + 16 MiB before the metadata is known, `N/8 + 2N` after). -/
theorem C05_alloc_kernel (b : Bytes) (t : TorState) (i : Nat) (hv : Bool) :
    bmGrow b i ≤ i / 8 + 1 ∧ (noteAvailable t i hv).2 ≤ 2 * (i + 1) := by
  constructor
  · unfold bmGrow; split <;> omega
  · unfold noteAvailable; dsimp only; split <;> simp

/-! ### non-vacuity -/
example : Reachable {} := .init _ ⟨rfl, by simp⟩
example : Reachable (handleMessage {} (.wire (.have 7)) {}).s :=
  .step _ _ (.init _ ⟨rfl, by simp⟩) (.msg _ _ _ trivial)
example : Geom.Valid { infoComplete := true, pieceSize := 32768, length := 100000, inFlight := { len := 7 } } :=
  ⟨by decide, by decide, by decide, by decide⟩
example : PeerEmits { pieceSize := 32768, length := 100000 } (.data 3 0 1696 false) := ⟨by decide, Or.inr ⟨by decide, by decide⟩⟩

end Storrent.Props.C05
