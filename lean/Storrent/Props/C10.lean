import Storrent.Model.Requested
import Storrent.Model.Reader
import Storrent.Lemmas.Requested
import Storrent.Lemmas.Reader
/-
C10 — Piece requests: no lost wake-ups, no leaked priorities.

Two levels.  (Q) arbitrary sequences of the operations of tor/requests.go, requestPiece and
the TorHave handler on one `Requested` (what the event loop executes, in any order, for any
number of consumers).  (Sys) the same with the piece store's completeness and the
notifications in flight: every interleaving of requests, withdrawals, successful and failed
verifications, evictions, notification handling in any order, idle prefetch and DelIdle is a
`List Step`.  The correspondence stream (`rq …` lines of harness/cmd/c10) ties the real
Requested/requestPiece/handleEvent(TorHave) to these definitions line by line.
-/
namespace Storrent.Props.C10
open Storrent Storrent.Requested

/-! ## (Q) operation sequences on `Requested` -/

inductive QOp where
  | add (i : Nat) (p : Int) (want : Bool)
  | del (i : Nat) (p : Int)
  | done (i : Nat)
  | delIdle
  | delIdlePiece (i : Nat)
  /-- `requestPiece` with any answer of `Pieces.Complete` (`c? = none`: out of range) -/
  | rp (numHashes : Nat) (c? : Option Bool) (i : Nat) (p : Int) (request want : Bool)
  | torHave (i : Nat) (b : Bool)

def qstep (s : RS) : QOp → RS
  | .add i p w => (add s i p w).1
  | .del i p => (del s i p).1
  | .done i => done s i
  | .delIdle => delIdle s
  | .delIdlePiece i => delIdlePiece s i
  | .rp nh c? i p rq w => (requestPiece s nh c? i p rq w).1
  | .torHave i b => torHave s i b

def qrun (s : RS) (ops : List QOp) : RS := ops.foldl qstep s

theorem inv_qstep {s : RS} (h : ChanInv s) (op : QOp) : ChanInv (qstep s op) := by
  cases op with
  | add i p w => exact inv_add h i p w
  | del i p => exact inv_del h i p
  | done i => exact inv_done h i
  | delIdle => exact inv_delIdle h
  | delIdlePiece i => exact inv_delIdlePiece h i
  | rp nh c? i p rq w => exact inv_requestPiece h nh c? i p rq w
  | torHave i b => exact inv_torHave h i b

theorem inv_qrun (ops : List QOp) {s : RS} (h : ChanInv s) : ChanInv (qrun s ops) := by
  induction ops generalizing s with
  | nil => exact h
  | cons op r ih => exact ih (inv_qstep h op)

/-- **close-once.**  After any sequence of operations: no close of a closed channel and no
    nil dereference happened (`panicked = false`), no channel has been closed twice, and an
    entry never keeps a closed channel (`done = nil` after closing). -/
theorem C10_close_once (ops : List QOp) :
    (qrun {} ops).panicked = false ∧
    (∀ c, closeCount (qrun {} ops) c ≤ 1) ∧
    (∀ i e c, find (qrun {} ops).pieces i = some e → e.done = some c →
      closeCount (qrun {} ops) c = 0) := by
  have h := inv_qrun ops inv_init
  refine ⟨h.np, ?_, ?_⟩
  · intro c
    unfold closeCount
    cases hc : (qrun {} ops).chans[c]? with
    | none => simp
    | some ch => exact h.once c ch hc
  · intro i e c he hd
    obtain ⟨ch, hc, _, h0⟩ := h.ref i e c he hd
    simp [closeCount, hc, h0]

/-- **woken when (structure).**  In every reachable state an open channel is still the
    `done` field of the entry of the piece it was created for: the next `Done` of that piece
    closes exactly it, nothing else can be waiting unnoticed. -/
theorem C10_open_channel_awaited (ops : List QOp) (c : Nat) (ch : Chan)
    (hc : (qrun {} ops).chans[c]? = some ch) (h0 : ch.closeCount = 0) :
    ∃ e, find (qrun {} ops).pieces ch.owner = some e ∧ e.done = some c :=
  (inv_qrun ops inv_init).openRef c ch hc h0

/-- `Done(i)` leaves no open channel in entry `i`: whoever waited on piece `i` is woken. -/
theorem C10_done_wakes (ops : List QOp) (i : Nat) (c : Nat) (ch : Chan)
    (hc : (done (qrun {} ops) i).chans[c]? = some ch) (ho : ch.owner = i) :
    ch.closeCount = 1 := by
  have h := inv_done (inv_qrun ops inv_init) i
  have h1 := h.once c ch hc
  by_cases h0 : ch.closeCount = 0
  · obtain ⟨e, he, hed⟩ := h.openRef c ch hc h0
    rw [ho] at he
    -- after Done(i) the entry of i has no channel
    exfalso
    have hs := inv_qrun ops inv_init
    revert he hed
    generalize qrun {} ops = s at *
    intro he hed
    unfold done at he
    cases hr : find s.pieces i with
    | none => rw [hr] at he; simp only [] at he; rw [hr] at he; simp at he
    | some r =>
      rw [hr] at he
      simp only [] at he
      cases hd : r.done with
      | none =>
        rw [hd] at he
        simp only [] at he
        rw [find_delIdlePiece] at he
        split at he
        · simp at he
        · rw [hr] at he; simp at he; subst he; rw [hd] at hed; simp at hed
      | some c' =>
        rw [hd] at he
        simp only [] at he
        rw [find_delIdlePiece] at he
        split at he
        · simp at he
        · simp [find_put] at he; subst he; simp at hed
  · omega

/-! ### priorities: each withdrawal removes exactly one matching priority -/

/-- the multiset of registrations the consumers hold, updated by what they asked for -/
def heldStep (held : List (Nat × Int)) : QOp → List (Nat × Int)
  | .add i p _ => if p > idlePriority then (i, p) :: held else held
  | .del i p => held.erase (i, p)
  | .rp nh c? i p rq _ =>
    if i > nh then held
    else if rq then (match c? with
      | none => held
      | some _ => if p > idlePriority then (i, p) :: held else held)
    else held.erase (i, p)
  | _ => held

def heldRun (held : List (Nat × Int)) (ops : List QOp) : List (Nat × Int) :=
  ops.foldl heldStep held

theorem count_erase_pair (l : List (Nat × Int)) (a b : Nat × Int) :
    (l.erase a).count b = l.count b - (if b = a then 1 else 0) := by
  by_cases h : b = a
  · subst h; simp [List.count_erase_self]
  · simp [h, List.count_erase_of_ne h]

theorem balance_step (s : RS) (held : List (Nat × Int))
    (h : ∀ j q, cnt s j q = held.count (j, q)) (op : QOp) :
    ∀ j q, cnt (qstep s op) j q = (heldStep held op).count (j, q) := by
  intro j q
  cases op with
  | add i p w =>
    simp only [qstep, heldStep]
    rw [cnt_add, h]
    by_cases hp : p > idlePriority
    · by_cases hji : j = i
      · by_cases hq : q = p
        · subst hji hq; simp [hp]
        · have : ¬ ((j, q) = (i, p)) := by simp [hq]
          have : ¬ ((i, p) = (j, q)) := fun h => this h.symm
          simp [hp, hq, List.count_cons, this]
      · have : ¬ ((i, p) = (j, q)) := by simp; intro h; exact absurd h.symm hji
        simp [hp, hji, List.count_cons, this]
    · simp [hp]
  | del i p =>
    simp only [qstep, heldStep]
    rw [cnt_del, h, count_erase_pair]
    simp
  | done i => simp only [qstep, heldStep]; rw [cnt_done, h]
  | delIdle => simp only [qstep, heldStep]; rw [cnt_delIdle, h]
  | delIdlePiece i =>
    simp only [qstep, heldStep]
    rw [← h]
    unfold cnt
    rw [find_delIdlePiece]
    by_cases hc : j = i ∧ ∃ r, find s.pieces i = some r ∧ r.prio = []
    · obtain ⟨hji, r, hr, hp⟩ := hc
      subst hji
      simp [hr, hp]
    · simp [hc]
  | rp nh c? i p rq w =>
    simp only [qstep, heldStep, requestPiece]
    by_cases hgt : i > nh
    · simp [hgt, h]
    · simp only [hgt, if_false]
      cases rq with
      | true =>
        simp only [if_true]
        cases c? with
        | none => simp [h]
        | some c =>
          simp only []
          rw [cnt_add, h]
          by_cases hp : p > idlePriority
          · by_cases hji : j = i
            · by_cases hq : q = p
              · subst hji hq; simp [hp]
              · have : ¬ ((i, p) = (j, q)) := by simp; intro _ h; exact hq h.symm
                simp [hp, hq, List.count_cons, this]
            · have : ¬ ((i, p) = (j, q)) := by simp; intro h; exact absurd h.symm hji
              simp [hp, hji, List.count_cons, this]
          · simp [hp]
      | false =>
        simp only [Bool.false_eq_true, if_false]
        rw [cnt_del, h, count_erase_pair]
        simp
  | torHave i b => simp only [qstep, heldStep]; rw [cnt_torHave, h]

/-- **priorities balance.**  After any sequence of operations by any number of consumers,
    for every piece and priority the number of registrations in `Requested` equals the number
    of registrations added and not yet withdrawn: every successful `Add` registers exactly
    one, every `Del` removes exactly one matching registration (none if there is none),
    completion, pruning and notifications remove none. -/
theorem C10_priorities_balance (ops : List QOp) (j : Nat) (q : Int) :
    cnt (qrun {} ops) j q = (heldRun [] ops).count (j, q) := by
  suffices H : ∀ (s : RS) (held : List (Nat × Int)),
      (∀ j q, cnt s j q = held.count (j, q)) →
      ∀ j q, cnt (qrun s ops) j q = (heldRun held ops).count (j, q) by
    exact H {} [] (by intro j q; simp [cnt, find]) j q
  induction ops with
  | nil => intro s held h; exact h
  | cons op r ih => intro s held h; exact ih _ _ (balance_step s held h op)

/-- a piece somebody holds a client priority on is requested -/
theorem C10_wanted_is_requested (ops : List QOp) (j : Nat) (q : Int)
    (h : (j, q) ∈ heldRun [] ops) : present (qrun {} ops) j = true := by
  have hb := C10_priorities_balance ops j q
  have : (heldRun [] ops).count (j, q) > 0 := List.count_pos_iff.2 h
  unfold present
  unfold cnt at hb
  cases hf : find (qrun {} ops).pieces j with
  | none => rw [hf] at hb; simp at hb; omega
  | some e => rfl

/-- a requested piece nobody holds a client priority on is an idle entry (no priority):
    exactly the entries `Done` and `DelIdle` prune -/
theorem C10_requested_unwanted_is_idle (ops : List QOp) (j : Nat) (e : Entry)
    (hf : find (qrun {} ops).pieces j = some e)
    (h : ∀ q, (j, q) ∉ heldRun [] ops) : e.prio = [] := by
  cases hp : e.prio with
  | nil => rfl
  | cons q r =>
    exfalso
    have hb := C10_priorities_balance ops j q
    unfold cnt at hb
    rw [hf] at hb
    simp only [hp] at hb
    have : (heldRun [] ops).count (j, q) = 0 := List.count_eq_zero_of_not_mem (h q)
    rw [this] at hb
    simp at hb


/-- **requested iff wanted.**  Right after `DelIdle` (configuration change, or any
    `periodicRequest` with a client priority pending) a piece is requested if and only if some
    consumer holds a priority on it; between two prunings the only other entries are the
    priority-less idle entries (`C10_requested_unwanted_is_idle`). -/
theorem C10_requested_iff_wanted (ops : List QOp) (j : Nat) :
    present (qrun {} (ops ++ [.delIdle])) j = true ↔ ∃ q, (j, q) ∈ heldRun [] (ops ++ [.delIdle]) := by
  constructor
  · intro hp
    unfold present at hp
    cases hf : find (qrun {} (ops ++ [.delIdle])).pieces j with
    | none => rw [hf] at hp; simp at hp
    | some e =>
      -- e survived DelIdle, so it has a priority, which somebody holds
      have hne : e.prio ≠ [] := by
        have hq : qrun {} (ops ++ [.delIdle]) = delIdle (qrun {} ops) := by
          simp [qrun, List.foldl_append, qstep]
        rw [hq, find_delIdle] at hf
        split at hf
        · simp at hf
        · rename_i hn
          intro hp'
          exact hn ⟨e, hf, hp'⟩
      cases hpr : e.prio with
      | nil => exact absurd hpr hne
      | cons q r =>
        refine ⟨q, ?_⟩
        have hb := C10_priorities_balance (ops ++ [.delIdle]) j q
        unfold cnt at hb
        rw [hf] at hb
        simp only [hpr] at hb
        apply List.count_pos_iff.1
        rw [← hb]; simp
  · intro ⟨q, hq⟩
    exact C10_wanted_is_requested _ j q hq

/-! ## (Sys) all interleavings with the store and the notifications in flight -/

theorem inv_sys_step {s : Sys} (h : ChanInv s.rs) (st : Step) : ChanInv (s.step st).rs := by
  cases st with
  | request i p want =>
    simp only [Sys.step]
    have := inv_requestPiece h s.numHashes s.complete[i]? i p true want
    split <;> simp_all
  | withdraw i p => exact inv_requestPiece h s.numHashes s.complete[i]? i p false false
  | finalise i => simp only [Sys.step]; split <;> exact h
  | hashFail i => exact h
  | evict i => simp only [Sys.step]; split <;> exact h
  | handleHave k =>
    simp only [Sys.step]
    split
    · exact h
    · exact inv_torHave h _ _
  | idleAdd i => exact inv_add h i idlePriority false
  | delIdle => exact inv_delIdle h

theorem inv_sys_run (steps : List Step) {s : Sys} (h : ChanInv s.rs) : ChanInv (s.run steps).rs := by
  induction steps generalizing s with
  | nil => exact h
  | cons st r ih => exact ih (inv_sys_step h st)

/-- **close-once, all interleavings.**  Whatever the order in which consumers request and
    withdraw, pieces are verified, fail, are evicted and re-fetched, notifications are
    handled, idle pieces are added and pruned: no channel is closed twice. -/
theorem C10_close_once_sys (nh : Nat) (complete : List Bool) (steps : List Step) :
    let s := (({ numHashes := nh, complete := complete } : Sys).run steps)
    s.rs.panicked = false ∧ ∀ c, closeCount s.rs c ≤ 1 := by
  intro s
  have h : ChanInv s.rs := inv_sys_run steps (s := { numHashes := nh, complete := complete }) inv_init
  refine ⟨h.np, ?_⟩
  intro c
  unfold closeCount
  cases hc : s.rs.chans[c]? with
  | none => simp
  | some ch => exact h.once c ch hc

/-- the no-lost-wake-up invariant: an entry holding a channel for a complete piece has a
    completion notification still in flight -/
def WInv (s : Sys) : Prop :=
  ∀ i e c, find s.rs.pieces i = some e → e.done = some c → s.complete[i]? = some true →
    (i, true) ∈ s.pending

theorem find_add_done (s : RS) (i : Nat) (p : Int) (want : Bool) (j : Nat) (e : Entry) (c : Nat)
    (h : find (add s i p want).1.pieces j = some e) (hd : e.done = some c) :
    (∃ r, find s.pieces j = some r ∧ r.done = some c) ∨ (j = i ∧ want = true) := by
  unfold add at h
  simp only [] at h
  split at h
  · rename_i hc
    simp only [find_put] at h
    by_cases hji : j = i
    · exact Or.inr ⟨hji, hc.1⟩
    · simp [hji] at h; exact Or.inl ⟨e, h, hd⟩
  · simp only [find_put] at h
    by_cases hji : j = i
    · subst hji
      simp at h; subst h
      rw [withPrio_done] at hd
      exact Or.inl ((baseEntry_done s j c).1 hd)
    · simp [hji] at h; exact Or.inl ⟨e, h, hd⟩

theorem find_del_done (s : RS) (i : Nat) (p : Int) (j : Nat) (e : Entry)
    (h : find (del s i p).1.pieces j = some e) :
    ∃ r, find s.pieces j = some r ∧ r.done = e.done := by
  unfold del at h
  cases hr : find s.pieces i with
  | none => rw [hr] at h; exact ⟨e, h, rfl⟩
  | some r =>
    rw [hr] at h
    simp only [] at h
    split at h
    · split at h
      · rw [find_delEntry s i r hr] at h
        split at h
        · simp at h
        · exact ⟨e, h, rfl⟩
      · simp only [find_put] at h
        by_cases hji : j = i
        · subst hji; simp at h; subst h; exact ⟨r, hr, rfl⟩
        · simp [hji] at h; exact ⟨e, h, rfl⟩
    · exact ⟨e, h, rfl⟩

theorem find_done_done (s : RS) (i j : Nat) (e : Entry) (c : Nat)
    (h : find (done s i).pieces j = some e) (hd : e.done = some c) :
    j ≠ i ∧ ∃ r, find s.pieces j = some r ∧ r.done = some c := by
  unfold done at h
  cases hr : find s.pieces i with
  | none =>
    rw [hr] at h; simp only [] at h
    refine ⟨?_, e, h, hd⟩
    intro hji; subst hji; rw [hr] at h; simp at h
  | some r =>
    rw [hr] at h
    simp only [] at h
    cases hdn : r.done with
    | none =>
      rw [hdn] at h; simp only [] at h
      rw [find_delIdlePiece] at h
      split at h
      · simp at h
      · refine ⟨?_, e, h, hd⟩
        intro hji; subst hji; rw [hr] at h; simp at h; subst h; rw [hdn] at hd; simp at hd
    | some c' =>
      rw [hdn] at h; simp only [] at h
      rw [find_delIdlePiece] at h
      split at h
      · simp at h
      · simp only [find_put, closeChan_pieces] at h
        by_cases hji : j = i
        · subst hji; simp at h; subst h; simp at hd
        · simp [hji] at h; exact ⟨hji, e, h, hd⟩

theorem mem_eraseIdx_of_ne {α : Type} (l : List α) (k : Nat) (x y : α)
    (hx : x ∈ l) (hk : l[k]? = some y) (hne : x ≠ y) : x ∈ l.eraseIdx k := by
  induction l generalizing k with
  | nil => simp at hx
  | cons a r ih =>
    cases k with
    | zero =>
      simp at hk; subst hk
      simp at hx ⊢
      rcases hx with h | h
      · exact absurd h hne
      · exact h
    | succ k =>
      simp at hk
      simp at hx ⊢
      rcases hx with h | h
      · exact Or.inl h
      · exact Or.inr (ih k h hk)

theorem winv_step {s : Sys} (h : WInv s) (st : Step) : WInv (s.step st) := by
  intro j e c hf hd hcomp
  cases st with
  | request i p want =>
    simp only [Sys.step, requestPiece] at hf hcomp ⊢
    by_cases hgt : i > s.numHashes
    · simp [hgt] at hf hcomp ⊢; exact h j e c hf hd hcomp
    · simp only [hgt, if_false, if_true] at hf hcomp ⊢
      cases hci : s.complete[i]? with
      | none => simp [hci] at hf hcomp ⊢; exact h j e c hf hd hcomp
      | some b =>
        simp only [hci] at hf hcomp ⊢
        rcases find_add_done s.rs i p _ j e c hf hd with ⟨r, hr, hrd⟩ | ⟨hji, hw⟩
        · exact h j r c hr hrd hcomp
        · subst hji
          rw [hci] at hcomp
          simp at hcomp; subst hcomp
          simp at hw
  | withdraw i p =>
    simp only [Sys.step, requestPiece] at hf hcomp ⊢
    by_cases hgt : i > s.numHashes
    · simp [hgt] at hf; exact h j e c hf hd hcomp
    · simp only [hgt, if_false, Bool.false_eq_true] at hf
      obtain ⟨r, hr, hrd⟩ := find_del_done s.rs i p j e hf
      exact h j r c hr (hrd.trans hd) hcomp
  | finalise i =>
    cases hci : s.complete[i]? with
    | none =>
      have hs : s.step (.finalise i) = s := by simp [Sys.step, hci]
      rw [hs] at hf hcomp ⊢; exact h j e c hf hd hcomp
    | some b =>
      cases b with
      | true =>
        have hs : s.step (.finalise i) = s := by simp [Sys.step, hci]
        rw [hs] at hf hcomp ⊢; exact h j e c hf hd hcomp
      | false =>
        have hs : s.step (.finalise i) = { s with complete := setComplete s.complete i true, pending := s.pending ++ [(i, true)], everVerified := i :: s.everVerified } := by
          simp [Sys.step, hci]
        rw [hs] at hf hcomp ⊢
        simp only [setComplete, List.getElem?_set] at hcomp
        by_cases hij : i = j
        · subst hij; simp
        · simp [hij] at hcomp
          simp only [List.mem_append]
          exact Or.inl (h j e c hf hd hcomp)
  | hashFail i => exact h j e c hf hd hcomp
  | evict i =>
    cases hci : s.complete[i]? with
    | none =>
      have hs : s.step (.evict i) = s := by simp [Sys.step, hci]
      rw [hs] at hf hcomp ⊢; exact h j e c hf hd hcomp
    | some b =>
      cases b with
      | false =>
        have hs : s.step (.evict i) = s := by simp [Sys.step, hci]
        rw [hs] at hf hcomp ⊢; exact h j e c hf hd hcomp
      | true =>
        have hs : s.step (.evict i) = { s with complete := setComplete s.complete i false, pending := s.pending ++ [(i, false)] } := by
          simp [Sys.step, hci]
        rw [hs] at hf hcomp ⊢
        simp only [setComplete, List.getElem?_set] at hcomp
        by_cases hij : i = j
        · subst hij; simp at hcomp
        · simp [hij] at hcomp
          simp only [List.mem_append]
          exact Or.inl (h j e c hf hd hcomp)
  | handleHave k =>
    simp only [Sys.step] at hf hcomp ⊢
    cases hk : s.pending[k]? with
    | none => simp only [hk] at hf hcomp ⊢; exact h j e c hf hd hcomp
    | some ib =>
      obtain ⟨i, b⟩ := ib
      simp only [hk] at hf hcomp ⊢
      cases b with
      | true =>
        simp only [torHave, if_true] at hf
        obtain ⟨hji, r, hr, hrd⟩ := find_done_done s.rs i j e c hf hd
        have := h j r c hr hrd hcomp
        exact mem_eraseIdx_of_ne _ k _ _ this hk (by simp [hji])
      | false =>
        simp only [torHave, Bool.false_eq_true, if_false] at hf
        have := h j e c hf hd hcomp
        exact mem_eraseIdx_of_ne _ k _ _ this hk (by simp)
  | idleAdd i =>
    simp only [Sys.step] at hf hcomp ⊢
    rcases find_add_done s.rs i idlePriority false j e c hf hd with ⟨r, hr, hrd⟩ | ⟨_, hw⟩
    · exact h j r c hr hrd hcomp
    · simp at hw
  | delIdle =>
    simp only [Sys.step] at hf hcomp ⊢
    rw [find_delIdle] at hf
    split at hf
    · simp at hf
    · exact h j e c hf hd hcomp

/-- **no lost wake-up, all interleavings.**  In every reachable state, a consumer waiting
    (an entry with a channel) for a piece that is complete has a `TorHave(i, true)` still in
    flight: it will be woken when the loop handles it (`C10_done_wakes`). -/
theorem C10_no_lost_wakeup (nh : Nat) (complete : List Bool) (steps : List Step) :
    WInv (({ numHashes := nh, complete := complete } : Sys).run steps) := by
  suffices H : ∀ s : Sys, WInv s → WInv (s.run steps) by
    apply H
    intro i e c hf; simp [find] at hf
  induction steps with
  | nil => intro s h; exact h
  | cons st r ih => intro s h; exact ih _ (winv_step h st)

/-- once the notifications have drained, nobody waits for a piece that is complete -/
theorem C10_drained_no_waiter (nh : Nat) (complete : List Bool) (steps : List Step)
    (hq : (({ numHashes := nh, complete := complete } : Sys).run steps).pending = [])
    (i : Nat) (e : Entry) (c : Nat)
    (hf : find (({ numHashes := nh, complete := complete } : Sys).run steps).rs.pieces i = some e)
    (hd : e.done = some c) :
    (({ numHashes := nh, complete := complete } : Sys).run steps).complete[i]? ≠ some true := by
  intro hc
  have := C10_no_lost_wakeup nh complete steps i e c hf hd hc
  rw [hq] at this
  simp at this

/-- a request for a piece that is already complete never creates a channel: the caller gets
    `nil`, or the channel of a consumer whose notification is still in flight -/
theorem C10_request_complete_no_new_channel (s : RS) (nh i : Nat) (p : Int) (want : Bool)
    (hle : ¬ i > nh) :
    (requestPiece s nh (some true) i p true want).1.chans = s.chans ∧
    ∀ ch a cn, (requestPiece s nh (some true) i p true want).2 = .ret ch a cn →
      ∀ c, ch = some c → ∃ r, find s.pieces i = some r ∧ r.done = some c := by
  unfold requestPiece
  simp only [hle, if_false, if_true]
  constructor
  · unfold add; simp
  · intro ch a cn h c hc
    simp at h
    obtain ⟨h1, _, _⟩ := h
    subst hc
    unfold add at h1
    simp at h1
    rw [withPrio_done] at h1
    exact (baseEntry_done s i c).1 h1

/-- **notify-once.**  A successful verification adds exactly one `TorHave(i, true)` to the
    notifications in flight; no other step adds a completion notification. -/
theorem C10_notify_once (s : Sys) (st : Step) (j : Nat) :
    ((s.step st).pending.count (j, true) ≤ s.pending.count (j, true) + 1) ∧
    ((s.step st).pending.count (j, true) = s.pending.count (j, true) + 1 →
      st = .finalise j ∧ s.complete[j]? = some false ∧ (s.step st).complete[j]? = some true) := by
  cases st with
  | finalise i =>
    simp only [Sys.step]
    split <;> rename_i hci
    · by_cases hij : i = j
      · subst hij
        simp [List.count_append, hci, setComplete, List.getElem?_set]
        have := List.getElem?_eq_some_iff.1 hci
        exact this.1
      · have : ¬ ((i, true) = (j, true)) := by simp [hij]
        simp [List.count_append, this]
    · simp
  | evict i =>
    simp only [Sys.step]
    split
    · have : ¬ ((i, false) = (j, true)) := by simp
      simp [List.count_append, this]
    · simp
  | handleHave k =>
    simp only [Sys.step]
    split
    · simp
    · have hle : ∀ (l : List (Nat × Bool)) (k : Nat) (x : Nat × Bool),
          (l.eraseIdx k).count x ≤ l.count x := by
        intro l k x
        exact (List.eraseIdx_sublist l k).count_le x
      have := hle s.pending k (j, true)
      constructor
      · simp only []; omega
      · intro h; simp only [] at h; omega
  | request i p want => simp only [Sys.step]; split <;> simp
  | withdraw i p => simp [Sys.step]
  | hashFail i => simp [Sys.step]
  | idleAdd i => simp [Sys.step]
  | delIdle => simp [Sys.step]


/-! ### woken only by a completion notification of that piece, or by abandonment -/

theorem find_done_other (s : RS) (i j : Nat) (hji : j ≠ i) :
    find (done s i).pieces j = find s.pieces j := by
  unfold done
  cases hr : find s.pieces i with
  | none => rfl
  | some r =>
    simp only []
    cases hd : r.done with
    | none => simp only []; rw [find_delIdlePiece]; simp [hji]
    | some c => simp only []; rw [find_delIdlePiece]; simp [hji, find_put, closeChan_pieces]

theorem add_keeps_done (s : RS) (i : Nat) (p : Int) (want : Bool) (j : Nat) (e : Entry) (c : Nat)
    (he : find s.pieces j = some e) (hd : e.done = some c) :
    ∃ e', find (add s i p want).1.pieces j = some e' ∧ e'.done = some c := by
  unfold add
  simp only []
  by_cases hji : j = i
  · subst hji
    have h1 : (withPrio (baseEntry s j).1 p).done = some c := by
      rw [withPrio_done]; exact (baseEntry_done s j c).2 ⟨e, he, hd⟩
    have : ¬ (want = true ∧ (withPrio (baseEntry s j).1 p).done = none) := by
      rw [h1]; simp
    rw [if_neg this]
    exact ⟨_, by simp [find_put], h1⟩
  · split
    · exact ⟨e, by simp [find_put, hji, he], hd⟩
    · exact ⟨e, by simp [find_put, hji, he], hd⟩

/-- an operation that is not the completion of piece `j` keeps the channel of entry `j`
    as long as the entry exists -/
theorem keeps_done (s : RS) (op : QOp) (j : Nat) (e e' : Entry) (c : Nat)
    (hop : op ≠ .done j ∧ op ≠ .torHave j true)
    (he : find s.pieces j = some e) (hd : e.done = some c)
    (he' : find (qstep s op).pieces j = some e') : e'.done = some c := by
  cases op with
  | add i p w =>
    obtain ⟨e'', h1, h2⟩ := add_keeps_done s i p w j e c he hd
    simp only [qstep] at he'
    rw [h1] at he'; simp at he'; subst he'; exact h2
  | del i p =>
    obtain ⟨r, hr, hrd⟩ := find_del_done s i p j e' he'
    rw [he] at hr; simp at hr; subst hr; rw [← hrd]; exact hd
  | done i =>
    have hji : j ≠ i := by intro h; subst h; exact hop.1 rfl
    simp only [qstep] at he'
    rw [find_done_other s i j hji, he] at he'
    simp at he'; subst he'; exact hd
  | delIdle =>
    simp only [qstep] at he'
    rw [find_delIdle] at he'
    split at he'
    · simp at he'
    · rw [he] at he'; simp at he'; subst he'; exact hd
  | delIdlePiece i =>
    simp only [qstep] at he'
    rw [find_delIdlePiece] at he'
    split at he'
    · simp at he'
    · rw [he] at he'; simp at he'; subst he'; exact hd
  | rp nh c? i p rq w =>
    simp only [qstep, requestPiece] at he'
    split at he'
    · rw [he] at he'; simp at he'; subst he'; exact hd
    · split at he'
      · cases c? with
        | none => simp only [] at he'; rw [he] at he'; simp at he'; subst he'; exact hd
        | some b =>
          simp only [] at he'
          obtain ⟨e'', h1, h2⟩ := add_keeps_done s i p (if b = true then false else w) j e c he hd
          rw [h1] at he'; simp at he'; subst he'; exact h2
      · simp only [] at he'
        obtain ⟨r, hr, hrd⟩ := find_del_done s i p j e' he'
        rw [he] at hr; simp at hr; subst hr; rw [← hrd]; exact hd
  | torHave i b =>
    simp only [qstep, torHave] at he'
    cases b with
    | false => simp at he'; rw [he] at he'; simp at he'; subst he'; exact hd
    | true =>
      have hji : j ≠ i := by intro h; subst h; exact hop.2 rfl
      simp at he'
      rw [find_done_other s i j hji, he] at he'
      simp at he'; subst he'; exact hd

/-- **woken only when.**  In any reachable state, if an operation closes an open channel then
    it is the handling of a completion of the piece the channel was created for (`Done`,
    i.e. `TorHave(i, true)`), or the wait was abandoned: the piece's entry is gone (last
    priority withdrawn, or idle entry pruned). -/
theorem C10_wake_only_on_completion (ops : List QOp) (op : QOp) (c : Nat) (ch : Chan)
    (hc : (qrun {} ops).chans[c]? = some ch) (h0 : ch.closeCount = 0)
    (hclosed : closeCount (qstep (qrun {} ops) op) c ≥ 1) :
    (op = .done ch.owner ∨ op = .torHave ch.owner true) ∨
    find (qstep (qrun {} ops) op).pieces ch.owner = none := by
  have hs := inv_qrun ops inv_init
  have hs' := inv_qstep hs op
  generalize qrun {} ops = s at *
  by_cases hop : op = .done ch.owner ∨ op = .torHave ch.owner true
  · exact Or.inl hop
  · right
    cases he' : find (qstep s op).pieces ch.owner with
    | none => rfl
    | some e' =>
      exfalso
      obtain ⟨e, he, hd⟩ := hs.openRef c ch hc h0
      have hk := keeps_done s op ch.owner e e' c
        ⟨fun h => hop (Or.inl h), fun h => hop (Or.inr h)⟩ he hd he'
      obtain ⟨ch', hc', _, h0'⟩ := hs'.ref ch.owner e' c he' hk
      simp [closeCount, hc', h0'] at hclosed

theorem notif_inv (steps : List Step) : ∀ s : Sys,
    (∀ i, (i, true) ∈ s.pending → i ∈ s.everVerified) →
    ∀ i, (i, true) ∈ (s.run steps).pending → i ∈ (s.run steps).everVerified := by
  induction steps with
  | nil => intro s hs; exact hs
  | cons st r ih =>
    intro s hs
    apply ih
    intro j hj
    cases st with
    | finalise i =>
      cases hci : s.complete[i]? with
      | none =>
        have hst : s.step (.finalise i) = s := by simp [Sys.step, hci]
        rw [hst] at hj ⊢; exact hs j hj
      | some b =>
        cases b with
        | true =>
          have hst : s.step (.finalise i) = s := by simp [Sys.step, hci]
          rw [hst] at hj ⊢; exact hs j hj
        | false =>
          have hst : s.step (.finalise i) = { s with complete := setComplete s.complete i true, pending := s.pending ++ [(i, true)], everVerified := i :: s.everVerified } := by
            simp [Sys.step, hci]
          rw [hst] at hj ⊢
          simp only [List.mem_append, List.mem_singleton, Prod.mk.injEq] at hj
          rcases hj with hj | hj
          · exact List.mem_cons_of_mem _ (hs j hj)
          · simp [hj.1]
    | evict i =>
      cases hci : s.complete[i]? with
      | none =>
        have hst : s.step (.evict i) = s := by simp [Sys.step, hci]
        rw [hst] at hj ⊢; exact hs j hj
      | some b =>
        cases b with
        | false =>
          have hst : s.step (.evict i) = s := by simp [Sys.step, hci]
          rw [hst] at hj ⊢; exact hs j hj
        | true =>
          have hst : s.step (.evict i) = { s with complete := setComplete s.complete i false, pending := s.pending ++ [(i, false)] } := by
            simp [Sys.step, hci]
          rw [hst] at hj ⊢
          simp only [List.mem_append, List.mem_singleton, Prod.mk.injEq] at hj
          rcases hj with hj | hj
          · exact hs j hj
          · simp at hj
    | handleHave k =>
      cases hk : s.pending[k]? with
      | none =>
        have hst : s.step (.handleHave k) = s := by simp [Sys.step, hk]
        rw [hst] at hj ⊢; exact hs j hj
      | some ib =>
        have hst : s.step (.handleHave k) = { s with rs := torHave s.rs ib.1 ib.2, pending := s.pending.eraseIdx k } := by
          simp [Sys.step, hk]
        rw [hst] at hj ⊢
        exact hs j ((List.eraseIdx_sublist s.pending k).subset hj)
    | request i p want =>
      have h1 : (s.step (.request i p want)).pending = s.pending := by
        simp only [Sys.step]; split <;> rfl
      have h2 : (s.step (.request i p want)).everVerified = s.everVerified := by
        simp only [Sys.step]; split <;> rfl
      rw [h1] at hj; rw [h2]; exact hs j hj
    | withdraw i p => exact hs j hj
    | hashFail i => exact hs j hj
    | idleAdd i => exact hs j hj
    | delIdle => exact hs j hj

/-- every completion notification in flight was produced by a successful verification of
    that piece (possibly before an eviction: the stale-notification case, after which the
    consumer re-checks through `ReadAt`, see C02) -/
theorem C10_notification_verified (nh : Nat) (complete : List Bool) (steps : List Step) (i : Nat)
    (h : (i, true) ∈ (({ numHashes := nh, complete := complete } : Sys).run steps).pending) :
    i ∈ (({ numHashes := nh, complete := complete } : Sys).run steps).everVerified :=
  notif_inv steps _ (by intro i hi; simp at hi) i h


/-! ## events that are none of the consumers' business -/

/-- **bystander events preserve the consumers' entries.**  Configuration changes (every
    field, every direction), availability changes (peers arriving, leaving, Have / DontHave /
    bitmaps, availability reaching 0), unchoke / interested notifications, announces, getters,
    peer drops and ticks: in every reachable state, every entry that holds a client priority
    is left exactly as it was (priorities and channel), its channel stays open, every
    priority count is unchanged, no channel is closed twice and the no-lost-wake-up invariant
    keeps holding.  Only priority-less idle entries may go.  (The `rdx bys …` stream applies
    the balance and wake-up oracles to the real handlers after each such event.) -/
theorem C10_bystander_events_preserve (nh : Nat) (complete : List Bool) (steps : List Step)
    (b : Bystander) :
    let s := (({ numHashes := nh, complete := complete } : Sys).run steps)
    (∀ i e, find s.rs.pieces i = some e → e.prio ≠ [] →
        find (s.bystander b).rs.pieces i = some e ∧
        ∀ c, e.done = some c → closeCount (s.bystander b).rs c = 0) ∧
    (∀ j q, cnt (s.bystander b).rs j q = cnt s.rs j q) ∧
    (s.bystander b).rs.panicked = false ∧
    WInv (s.bystander b) ∧
    (s.bystander b).complete = s.complete ∧ (s.bystander b).pending = s.pending := by
  intro s
  have hinv : ChanInv s.rs := inv_sys_run steps (s := { numHashes := nh, complete := complete }) inv_init
  have hw : WInv s := C10_no_lost_wakeup nh complete steps
  unfold Sys.bystander
  by_cases hp : b.prunes = true
  · rw [if_pos hp]
    have hinv' : ChanInv (s.step .delIdle).rs := inv_sys_step hinv .delIdle
    refine ⟨?_, ?_, hinv'.np, winv_step hw .delIdle, rfl, rfl⟩
    · intro i e he hne
      have hf : find (s.step .delIdle).rs.pieces i = some e := by
        show find (delIdle s.rs).pieces i = some e
        rw [find_delIdle]
        have : ¬ ∃ r, find s.rs.pieces i = some r ∧ r.prio = [] := by
          intro ⟨r, hr, hpr⟩
          rw [he] at hr; simp at hr; subst hr; exact hne hpr
        rw [if_neg this]; exact he
      refine ⟨hf, ?_⟩
      intro c hc
      obtain ⟨ch, h1, _, h3⟩ := hinv'.ref i e c hf hc
      simp [closeCount, h1, h3]
    · intro j q
      show cnt (delIdle s.rs) j q = cnt s.rs j q
      exact cnt_delIdle s.rs j q
  · rw [if_neg hp]
    refine ⟨?_, fun _ _ => rfl, hinv.np, hw, rfl, rfl⟩
    intro i e he _
    refine ⟨he, ?_⟩
    intro c hc
    obtain ⟨ch, h1, _, h3⟩ := hinv.ref i e c he hc
    simp [closeCount, h1, h3]

/-- non-vacuity: a configuration change prunes the idle entry of piece 1 and keeps the
    consumer's entry of piece 0 with its channel -/
example : ((({ numHashes := 2, complete := [false, false] } : Sys).run
    [.request 0 1 true, .idleAdd 1]).bystander (.setConf 0 false false)).rs.pieces =
    [(0, { prio := [1], done := some 0 })] := by decide

/-! ## the idle prefetcher as a requester -/

theorem idleAdd_empty (s : RS) (j i : Nat) (e : Entry)
    (h : find (add s j idlePriority false).1.pieces i = some e) (hp : e.prio = []) :
    (∃ e0, find s.pieces i = some e0 ∧ e0.prio = []) ∨ i = j := by
  obtain ⟨d, hd⟩ := find_add s j idlePriority false i
  rw [hd] at h
  by_cases hij : i = j
  · exact Or.inr hij
  · simp [hij] at h
    exact Or.inl ⟨e, h, hp⟩

theorem idlePick_complete (picked : List Nat) : ∀ s : Sys, (s.idlePick picked).complete = s.complete := by
  induction picked with
  | nil => intro s; rfl
  | cons j r ih =>
    intro s
    unfold Sys.idlePick
    simp only [List.foldl_cons]
    have := ih (if s.complete[j]? = some false then s.step (.idleAdd j) else s)
    unfold Sys.idlePick at this
    rw [this]
    split <;> rfl

/-- **the idle prefetcher only wants incomplete pieces.**  After a run of the idle picker —
    whatever pieces, in whatever order and number, the scheduler chose — every priority-less
    (idle) entry either was there before or names a piece that is NOT complete: the picker
    never enters a verified piece into the request set.  (An idle entry whose piece completes
    later is retired by the notification of that completion, `C10_idle_retired`; the `rdx idle`
    stream runs the real periodicRequest/pickIdlePieces on torrents in every completion state
    and checks the same on the real request set.) -/
theorem C10_idle_only_incomplete (picked : List Nat) : ∀ (s : Sys) (i : Nat) (e : Entry),
    find (s.idlePick picked).rs.pieces i = some e → e.prio = [] →
    (∃ e0, find s.rs.pieces i = some e0 ∧ e0.prio = []) ∨ s.complete[i]? = some false := by
  induction picked with
  | nil => intro s i e h hp; exact Or.inl ⟨e, h, hp⟩
  | cons j r ih =>
    intro s i e h hp
    unfold Sys.idlePick at h
    simp only [List.foldl_cons] at h
    by_cases hg : s.complete[j]? = some false
    · rw [if_pos hg] at h
      have hc : (s.step (.idleAdd j)).complete = s.complete := rfl
      rcases ih (s.step (.idleAdd j)) i e (by unfold Sys.idlePick; exact h) hp with ⟨e0, h0, hp0⟩ | h1
      · rcases idleAdd_empty s.rs j i e0 h0 hp0 with h2 | h2
        · exact Or.inl h2
        · subst h2; exact Or.inr hg
      · rw [hc] at h1; exact Or.inr h1
    · rw [if_neg hg] at h
      exact ih s i e (by unfold Sys.idlePick; exact h) hp

/-- an idle entry is retired by the completion notification of its piece -/
theorem C10_idle_retired (s : RS) (i : Nat) (r : Entry) (h : find s.pieces i = some r)
    (hp : r.prio = []) : find (torHave s i true).pieces i = none := by
  have := find_done s i i
  rw [if_pos ⟨rfl, r, h, hp⟩] at this
  simp only [torHave, if_true]
  cases hf : find (done s i).pieces i with
  | none => rfl
  | some e => rw [hf] at this; simp at this

example : ((({ numHashes := 3, complete := [true, false, false] } : Sys).idlePick [0, 1, 5]).rs.pieces) =
    [(1, { prio := [], done := none })] := by decide

/-! ## the reader as a consumer (tor/reader.go, repaired) -/
open Storrent.Reader in
/-- **reader balance — withdrawal.**  `request(-1, -1)` (what `Close`, EOF, cancellation and a
    dead torrent run) on a live torrent withdraws, through the event loop, exactly the
    registrations listed in `r.requested` — each exactly once — and the reader ends holding
    nothing.  (`C02_withdraw`: every such exit of `Read`, and `Close`, goes through it.) -/
theorem C10_reader_withdraw_exact (cfg : Cfg) (w : World) (r : Rd) (ha : Alive w)
    (hl : ∀ c ∈ r.requested, c.1 < w.numHashes) :
    (request cfg w r (-1) (-1)).panic = false ∧
    (request cfg w r (-1) (-1)).r.requested = [] ∧
    ∀ j p, cnt (request cfg w r (-1) (-1)).w.rs j p = cnt w.rs j p - r.requested.count (j, p) := by
  obtain ⟨h1, _, _, h4⟩ := request_withdraw cfg w r
  obtain ⟨d1, _, d3⟩ := delOld_cnt r.requested w ha hl
  refine ⟨?_, h1, ?_⟩
  · have hc : chunks cfg w.ps (-1) (-1) = some [] := by simp [chunks]
    unfold request
    have : ¬ (r.requestedIndex ≥ 0 ∧ (-1 : Int) ≥ 0) := by omega
    rw [if_neg this]
    unfold requestSlow
    rw [hc]
    simp [d1]
  · intro j p; rw [h4]; exact d3 j p

open Storrent.Reader in
/-- the statement "after `request(-1,-1)` the reader holds nothing" for the ORIGINAL
    `Reader.request` (no `pos >= 0` before the cache test) -/
def C10_reader_balance_orig : Prop :=
  ∀ (cfg : Cfg) (w : World) (r : Rd), (requestOrig cfg w r (-1) (-1)).r.requested = []

open Storrent.Reader in
/-- … is false: `uint32(-1 / ps) = 0`, so a reader whose cached request is piece 0 returns
    early and keeps (leaks) every priority it holds.  Replayed on the real code by the
    harness (`leak:after-close`, `leak:after-eof`, `leak:after-ctx` on the unrepaired tree);
    repaired by fix 01. -/
theorem C10_reader_balance_orig_refuted : ¬ C10_reader_balance_orig := by
  intro h
  have ci : cacheIndex 4 (-1) = 0 := by
    unfold cacheIndex
    have : Int.tdiv (-1) ((4 : Nat) : Int) = 0 := by decide
    rw [this]; rfl
  let cfg0 : Cfg := { pf := fun _ => 1, aggr := fun _ => false }
  let w0 : World := { ps := 4, total := 10, numHashes := 3, data := [none, none, none] }
  let r1 : Rd := { offset := 0, length := 5, requested := [(0, 1)], requestedIndex := 0 }
  have := h cfg0 w0 r1
  unfold requestOrig at this
  have h1 : r1.requestedIndex ≥ 0 := by decide
  have h2 : ¬ (w0.ps = 0) := by decide
  have h3 : r1.requestedIndex = ((cacheIndex w0.ps (-1) : Nat) : Int) := by
    show (0 : Int) = ((cacheIndex 4 (-1) : Nat) : Int); rw [ci]; rfl
  rw [if_pos h1, if_neg h2, if_pos h3] at this
  simp [r1] at this

/-! non-vacuity: the hypotheses above are satisfiable on non-trivial states -/
example : ∃ s : RS, ChanInv s ∧ s.chans.length = 1 ∧ (find s.pieces 3).isSome :=
  ⟨(add {} 3 1 true).1, inv_add inv_init 3 1 true, by decide, by decide⟩
example : (heldRun [] [.add 3 1 true, .add 3 0 false, .del 3 1]).count (3, 0) = 1 := by decide
example : cnt (qrun {} [.add 3 1 true, .add 3 0 false, .del 3 1]) 3 0 = 1 := by decide
example : closeCount (qrun {} [.add 3 1 true, .done 3]) 0 = 1 := by decide

end Storrent.Props.C10
