import Storrent.Model.Privacy
import Storrent.Gen.PrivacyGates
/-
C18 — Privacy switches are honoured.
-/
namespace Storrent.Privacy
open Storrent

/-! ## the regenerated table -/

/-- each outbound call site of the source, with the conditions that dominate it, is what
    the proofs below assume; a new or differently gated call site changes the table -/
theorem C18_gates_table : Gen.privacyGates = expectedGates := by decide

theorem C18_gate_predicates :
    Gen.hasWebseedsDef = expectedHasWebseeds ∧ Gen.hasProxyDef = expectedHasProxy ∧
    Gen.peerHasProxyDef = expectedPeerHasProxy := by decide

/-! ## what the gates evaluate to -/
section gates
variable (e : Env)

theorem gate_dht : gate expectedGates e "tor.Torrent.announce" "dht.Announce" "t.Hash, ipv6, port"
    = (e.conf.dht != .none) := by
  simp [gate, expectedGates, evalCond]

theorem gate_dht_port : gate expectedGates e "tor.Torrent.announce" "config.ExternalPort" "false, ipv6"
    = (e.conf.dht != .none && (!e.fx.proxy && e.conf.dht == .normal)) := by
  simp [gate, expectedGates, evalCond]

theorem gate_setconf_t : gate expectedGates e "tor.handleEvent" "t.announce" "true" = e.announce := by
  simp [gate, expectedGates, evalCond]
theorem gate_setconf_f : gate expectedGates e "tor.handleEvent" "t.announce" "false" = e.announce := by
  simp [gate, expectedGates, evalCond]
theorem gate_tick_t : gate expectedGates e "tor.Torrent.run" "t.announce" "true" = e.stale := by
  simp [gate, expectedGates, evalCond]
theorem gate_tick_f : gate expectedGates e "tor.Torrent.run" "t.announce" "false" = e.stale := by
  simp [gate, expectedGates, evalCond]
theorem gate_tracker : gate expectedGates e "tor.Torrent.run" "trackerAnnounce" "ctx, t" = e.conf.useTrackers := by
  simp [gate, expectedGates, evalCond]
theorem gate_tr_p4 : gate expectedGates e "tor.trackerAnnounceSingle" "config.ExternalPort" "true, false"
    = !e.fx.proxy := by
  simp [gate, expectedGates, evalCond]
theorem gate_tr_p6 : gate expectedGates e "tor.trackerAnnounceSingle" "config.ExternalPort" "true, true"
    = !e.fx.proxy := by
  simp [gate, expectedGates, evalCond]
theorem gate_wsGR : gate expectedGates e "tor.maybeWebseed" "webseedGR" "ctx, ws, t, index, o, l"
    = hasWebseeds e := by
  simp [gate, expectedGates, evalCond]
theorem gate_wsH : gate expectedGates e "tor.maybeWebseed" "webseedH" "ctx, ws, t, index, o, l"
    = hasWebseeds e := by
  simp [gate, expectedGates, evalCond]
theorem gate_port : gate expectedGates e "peer.Run" "protocol.Port" "" = (e.canDHT && !e.fx.proxy) := by
  simp [gate, expectedGates, evalCond]
theorem gate_port_val : gate expectedGates e "peer.Run" "config.ExternalPort" "false, peer.IP.Is6()"
    = (e.canDHT && !e.fx.proxy) := by
  simp [gate, expectedGates, evalCond]
theorem gate_ext0 : gate expectedGates e "peer.Run" "protocol.Extended0" "Version=version, Port=port, IPv6=ipv6"
    = e.canExt := by
  simp [gate, expectedGates, evalCond]
theorem gate_version : gate expectedGates e "peer.Run" "version-string" "\"STorrent 0.0\""
    = (e.canExt && !e.fx.proxy) := by
  simp [gate, expectedGates, evalCond]
theorem gate_ext_port : gate expectedGates e "peer.Run" "config.ExternalPort" "true, peer.IP.Is6()"
    = (e.canExt && !e.fx.proxy) := by
  simp [gate, expectedGates, evalCond]
theorem gate_ipv6 : gate expectedGates e "peer.Run" "getIPv6" "" = (e.canExt && !e.fx.proxy) := by
  simp [gate, expectedGates, evalCond]
theorem gate_offer : gate expectedGates e "tor.infoHashes" "append" "pairs, hash.HashPair{h, t.MyId}"
    = (e.all || !e.fx.proxy) := by
  simp [gate, expectedGates, evalCond]
theorem gate_accept : gate expectedGates e "tor.Server" "t.NewPeer"
    "t.proxy, conn, netip.AddrPortFrom(ipp, 0), true, result, init" = !e.fx.proxy := by
  simp [gate, expectedGates, evalCond]
end gates

/-! ## the building blocks -/

theorem announce_permitted (g : Ports) (e : Env) (v6 : Bool) :
    ∀ o ∈ announceObs expectedGates g e v6, permitted e.fx e.conf o := by
  intro o ho
  simp only [announceObs, gate_dht, gate_dht_port] at ho
  split at ho
  · rename_i h
    simp only [List.mem_singleton] at ho
    subst ho
    simp only [permitted]
    refine ⟨by simpa using h, ?_⟩
    intro hp
    split at hp
    · rename_i h2
      simp only [Bool.and_eq_true, Bool.not_eq_true', beq_iff_eq] at h2
      exact ⟨h2.2.2, h2.2.1⟩
    · exact absurd rfl hp
  · simp at ho

theorem fetch_permitted (e : Env) (k : Nat) :
    ∀ o ∈ fetchObs expectedGates e k, permitted e.fx e.conf o := by
  intro o ho
  simp only [fetchObs, gate_wsGR, gate_wsH] at ho
  split at ho
  · rename_i h
    have := List.eq_of_mem_replicate ho
    subst this
    simp only [permitted]
    simpa [hasWebseeds] using h
  · simp at ho

theorem tracker_permitted (g : Ports) (e : Env) (ready : Bool) :
    ∀ o ∈ trackerObs expectedGates g e ready, permitted e.fx e.conf o := by
  intro o ho
  simp only [trackerObs, gate_tracker, gate_tr_p4, gate_tr_p6] at ho
  split at ho
  · rename_i h
    simp only [List.mem_singleton] at ho
    subst ho
    simp only [permitted]
    simp only [Bool.and_eq_true] at h
    refine ⟨h.1, ?_⟩
    intro hp
    simp [hp]
  · simp at ho

/-- every observation of one step is permitted by the settings it is tagged with (the
    settings in force when the action started), and the tag is the new settings for SetConf
    and the current ones otherwise -/
theorem step_permitted (g : Ports) (fx : Fixed) (c : Conf) (st : Step) :
    ∀ x ∈ (step expectedGates g fx c st).2, permitted fx x.1 x.2 := by
  intro x hx
  cases st with
  | add =>
    simp only [step, List.mem_map, List.mem_append] at hx
    obtain ⟨o, ho, rfl⟩ := hx
    rcases ho with ho | ho
    · exact announce_permitted g { conf := c, fx := fx } true o ho
    · exact announce_permitted g { conf := c, fx := fx } false o ho
  | announce v6 =>
    simp only [step, List.mem_map] at hx
    obtain ⟨o, ho, rfl⟩ := hx
    exact announce_permitted g { conf := c, fx := fx } v6 o ho
  | setConf nc k =>
    simp only [step, List.mem_map, List.mem_append, gate_setconf_t, gate_setconf_f] at hx
    obtain ⟨o, ho, rfl⟩ := hx
    rcases ho with (ho | ho) | ho
    · split at ho
      · exact announce_permitted g _ true o ho
      · simp at ho
    · split at ho
      · exact announce_permitted g _ false o ho
      · simp at ho
    · exact fetch_permitted _ k o ho
  | slowTick stale ready =>
    simp only [step, List.mem_map, List.mem_append, gate_tick_t, gate_tick_f] at hx
    obtain ⟨o, ho, rfl⟩ := hx
    rcases ho with (ho | ho) | ho
    · split at ho
      · exact announce_permitted g _ true o ho
      · simp at ho
    · split at ho
      · exact announce_permitted g _ false o ho
      · simp at ho
    · exact tracker_permitted g _ ready o ho
  | reqTick k =>
    simp only [step, List.mem_map] at hx
    obtain ⟨o, ho, rfl⟩ := hx
    exact fetch_permitted { conf := c, fx := fx } k o ho
  | peerStart dht ext v6 =>
    simp only [step, List.mem_map, List.mem_append, gate_port, gate_port_val, gate_ext0, gate_version,
      gate_ext_port, gate_ipv6] at hx
    obtain ⟨o, ho, rfl⟩ := hx
    rcases ho with ho | ho
    · split at ho
      · rename_i h
        simp only [List.mem_singleton] at ho
        subst ho
        simp only [permitted]
        simp only [Bool.and_eq_true, Bool.not_eq_true'] at h
        exact h.1.2
      · simp at ho
    · split at ho
      · simp only [List.mem_singleton] at ho
        subst ho
        simp only [permitted]
        intro hp
        simp [hp]
      · simp at ho
  | incoming =>
    simp only [step, List.mem_map, List.mem_append, gate_offer, gate_accept] at hx
    obtain ⟨o, ho, rfl⟩ := hx
    rcases ho with ho | ho
    · split at ho
      · rename_i h
        simp only [List.mem_singleton] at ho
        subst ho
        simpa [permitted] using h
      · simp at ho
    · split at ho
      · rename_i h
        simp only [List.mem_singleton] at ho
        subst ho
        simp only [Bool.and_eq_true] at h
        simpa [permitted] using h.2
      · simp at ho

/-! ## the property theorems: all settings, all global defaults (= all initial settings),
    all sequences of steps (any number of SetConf with any values, in any order) -/

theorem trace_permitted (g : Ports) (fx : Fixed) (steps : List Step) :
    ∀ (c : Conf), ∀ x ∈ trace expectedGates g fx c steps, permitted fx x.1 x.2 := by
  induction steps with
  | nil => intro c x hx; simp [trace] at hx
  | cons s ss ih =>
    intro c x hx
    simp only [trace, List.mem_append] at hx
    rcases hx with hx | hx
    · exact step_permitted g fx c s x hx
    · exact ih _ x hx

/-- Every outbound action of every run is permitted by the settings in force when it started
    (stated over the table regenerated from the source). -/
theorem C18_all_permitted (g : Ports) (fx : Fixed) (c : Conf) (steps : List Step) :
    ∀ x ∈ trace Gen.privacyGates g fx c steps, permitted fx x.1 x.2 := by
  rw [C18_gates_table]; exact trace_permitted g fx steps c

/-- trackers are contacted only while `useTrackers`; the ports are 0,0 whenever proxied -/
theorem C18_trackers (g : Ports) (fx : Fixed) (c : Conf) (steps : List Step) (c' : Conf) (p4 p6 : Nat)
    (h : (c', Obs.tracker p4 p6) ∈ trace Gen.privacyGates g fx c steps) :
    c'.useTrackers = true ∧ (fx.proxy = true → p4 = 0 ∧ p6 = 0) :=
  C18_all_permitted g fx c steps _ h

/-- a web-seed fetch is started only while `useWebseeds` and web seeds exist -/
theorem C18_webseeds (g : Ports) (fx : Fixed) (c : Conf) (steps : List Step) (c' : Conf)
    (h : (c', Obs.fetch) ∈ trace Gen.privacyGates g fx c steps) :
    c'.useWebseeds = true ∧ fx.hasWs = true :=
  C18_all_permitted g fx c steps _ h

/-- a DHT announce happens only when the mode is not none; a port is advertised only in
    normal mode without a proxy -/
theorem C18_dht (g : Ports) (fx : Fixed) (c : Conf) (steps : List Step) (c' : Conf) (v6 : Bool) (port : Nat)
    (h : (c', Obs.dht v6 port) ∈ trace Gen.privacyGates g fx c steps) :
    c'.dht ≠ .none ∧ (port ≠ 0 → c'.dht = .normal ∧ fx.proxy = false) :=
  C18_all_permitted g fx c steps _ h

/-- proxied: no Port message; the extended handshake has empty version, port 0, no IPv6 -/
theorem C18_proxy_handshake (g : Ports) (c : Conf) (hasWs : Bool) (steps : List Step) (c' : Conf) :
    (∀ n, (c', Obs.portMsg n) ∉ trace Gen.privacyGates g ⟨true, hasWs⟩ c steps) ∧
    (∀ v p i, (c', Obs.ext0 v p i) ∈ trace Gen.privacyGates g ⟨true, hasWs⟩ c steps →
      v = false ∧ p = 0 ∧ i = false) := by
  constructor
  · intro n h
    have := C18_all_permitted g ⟨true, hasWs⟩ c steps _ h
    simp [permitted] at this
  · intro v p i h
    exact C18_all_permitted g ⟨true, hasWs⟩ c steps _ h rfl

/-- proxied: the hash is never offered to ServerHandshake and an incoming connection is
    never handed to NewPeer -/
theorem C18_proxy_incoming (g : Ports) (c : Conf) (hasWs : Bool) (steps : List Step) (c' : Conf) :
    (c', Obs.offer) ∉ trace Gen.privacyGates g ⟨true, hasWs⟩ c steps ∧
    (c', Obs.accept) ∉ trace Gen.privacyGates g ⟨true, hasWs⟩ c steps := by
  constructor <;> intro h <;>
    (have := C18_all_permitted g ⟨true, hasWs⟩ c steps _ h; simp [permitted] at this)

/-- Server refuses a proxied torrent even if the handshake matched: the call of NewPeer in
    tor.Server is dominated by `!(t.hasProxy())`, independently of what was offered -/
theorem C18_server_refuses_proxied (e : Env) (h : e.fx.proxy = true) :
    gate Gen.privacyGates e "tor.Server" "t.NewPeer"
      "t.proxy, conn, netip.AddrPortFrom(ipp, 0), true, result, init" = false := by
  rw [C18_gates_table, gate_accept]; simp [h]

/-- SetConf takes effect at once: the settings observations are tagged with after a SetConf
    are the new ones, and announces triggered by it obey them -/
theorem C18_setconf_effect (g : Ports) (fx : Fixed) (c nc : Conf) (k : Nat) :
    (step Gen.privacyGates g fx c (.setConf nc k)).1 = nc ∧
    ∀ x ∈ (step Gen.privacyGates g fx c (.setConf nc k)).2, x.1 = nc := by
  constructor
  · rfl
  · intro x hx
    simp only [step, List.mem_map] at hx
    obtain ⟨o, _, rfl⟩ := hx
    rfl

/-- table part: every place of the scanned sources where the listening port, the client
    version or the IPv6 address is read, and every Port message, is dominated by a
    "no proxy" condition; every web-seed start by hasWebseeds; the tracker announce by
    useTrackers; the DHT announce by the mode test -/
def sensitive (s : String) : Bool :=
  s == "config.ExternalPort" || s == "getIPv6" || s == "version-string" || s == "protocol.Port"

def mentionsNoProxy (c : String) : Bool :=
  c == "!t.hasProxy()" || c == "!hasProxy(peer)" || c == "peer.canDHT && !hasProxy(peer)"
  || c == "!t.hasProxy() && t.dhtMode >= config.DhtNormal"

theorem C18_sites_gated :
    (∀ r ∈ Gen.privacyGates, sensitive r.site = true → r.conds.any mentionsNoProxy = true) ∧
    (∀ r ∈ Gen.privacyGates, (r.site = "webseedGR" ∨ r.site = "webseedH") →
        r.conds.contains "hasWebseeds(t)" = true) ∧
    (∀ r ∈ Gen.privacyGates, r.site = "trackerAnnounce" → r.conds.contains "t.useTrackers" = true) ∧
    (∀ r ∈ Gen.privacyGates, r.site = "dht.Announce" →
        r.conds.contains "!(t.dhtMode <= config.DhtNone)" = true) ∧
    (∀ r ∈ Gen.privacyGates, r.site = "infoHashes" → r.args = "false") := by decide

/-! ## malformed proxy settings fail closed -/

theorem C18_proxy_routes_table : Gen.proxyRoutes = expectedProxyRoutes := by decide

/-- **Fail closed.**  Whatever the proxy setting is — well-formed or not — as long as it is not
    the empty string, no site that connects without the proxy is reachable: every direct dial
    (tor.DialClient, the UDP tracker) and the `return nil, nil` of the HTTP transport's Proxy
    function is dominated by `proxy == ""` on the SETTING; no direct site depends on the result
    of parsing it (such a site would be a row without that condition and refute this).  Every
    HTTP client (trackers, web seeds, GetTorrent) is built with the torrent's proxy setting. -/
theorem C18_proxy_fail_closed :
    (∀ p : ProxySetting, p ≠ .empty → directReachable Gen.proxyRoutes p = false) ∧
    (∀ r ∈ Gen.proxyRoutes, r.site = "httpclient.Get" →
      (r.args = "\"\", proxy" ∨ r.args = "protocol, proxy")) ∧
    directReachable Gen.proxyRoutes .empty = true := by
  refine ⟨?_, by decide, by decide⟩
  intro p hp
  cases p
  · exact absurd rfl hp
  · decide
  · decide

-- what seeded C18-8 did (Proxy function chosen from the parse result): a direct site without
-- the condition on the setting is reachable with a malformed proxy
example : directReachable
    [⟨"httpclient.Get", "Transport.Proxy", "not a function literal: proxyFunc", []⟩] .malformed = true := by
  decide

/-! ## histories: any interleaving of steps with the deliveries of what they decided -/

theorem history_permitted_aux (g : Ports) (fx : Fixed) (hs : List HStep) :
    ∀ (h : HSt), (∀ p ∈ h.pending, permitted fx p.1 p.2) →
      ∀ e ∈ history expectedGates g fx h hs, permitted fx e.decided e.obs := by
  induction hs with
  | nil => intro h _ e he; simp [history] at he
  | cons s ss ih =>
    intro h hp e he
    simp only [history, List.mem_append] at he
    cases s with
    | act st =>
      rcases he with he | he
      · simp only [hstep, List.mem_map, List.mem_filter] at he
        obtain ⟨x, ⟨hx, _⟩, rfl⟩ := he
        exact step_permitted g fx h.conf st x hx
      · refine ih _ ?_ e he
        intro p hpm
        simp only [hstep, List.mem_append, List.mem_filter] at hpm
        rcases hpm with hpm | ⟨hpm, _⟩
        · exact hp p hpm
        · exact step_permitted g fx h.conf st p hpm
    | deliver i =>
      simp only [hstep] at he
      split at he
      · rename_i p hpi
        have hmem : p ∈ h.pending := List.mem_of_getElem? hpi
        rcases he with he | he
        · simp only [List.mem_singleton] at he
          subst he
          exact hp p hmem
        · refine ih _ ?_ e he
          intro q hq
          exact hp q (List.mem_of_mem_eraseIdx hq)
      · rcases he with he | he
        · simp at he
        · exact ih h hp e he

/-- **Histories.**  For any initial settings (global defaults), proxy state and ports, and
    any history — steps (torrent addition, TorAnnounce, slow ticks, scheduler passes, peer
    starts, incoming handshakes, SetConf with any values) interleaved in any way with the
    deliveries of the tracker announces and web-seed fetches those steps decided on — every
    outbound action was permitted by the settings in force WHEN IT WAS DECIDED.
    Interval covered: decision time (the evaluation of the gate that dominates the `go`
    statement / the call).  The interval between decision and arrival is not covered by this
    theorem (see `C18_arrival_window_open`); the harness covers it by observing ARRIVAL at the
    fake trackers / the web-seed server and requiring every arrival to fall into the step that
    decided on it (seeded C18-6, which parked requests inside the HTTP transport, is reported
    there, not here). -/
theorem C18_history_permitted (g : Ports) (fx : Fixed) (c : Conf) (hs : List HStep) :
    ∀ e ∈ history Gen.privacyGates g fx ⟨c, []⟩ hs, permitted fx e.decided e.obs := by
  rw [C18_gates_table]
  exact history_permitted_aux g fx hs ⟨c, []⟩ (by simp)

theorem permitted_fixed (fx : Fixed) (c : Conf) (o : Obs) (h : permitted fx c o) :
    permittedFixed fx o := by
  cases o <;> simp only [permitted, permittedFixed] at h ⊢
  · intro hp; exact (h.2 hp).2
  · exact h.2
  · exact h.2
  · exact h
  · exact h
  · exact h
  · exact h

/-- The proxy guarantees do not depend on the changeable settings, so they hold for every
    action of every history at ARRIVAL time as well, however long the window: a proxied
    torrent never reveals a port to the DHT or a tracker, never sends a Port message or a
    version/port/IPv6 in an extended handshake, is never offered to or accepted from an
    incoming handshake. -/
theorem C18_history_proxy_always (g : Ports) (fx : Fixed) (c : Conf) (hs : List HStep) :
    ∀ e ∈ history Gen.privacyGates g fx ⟨c, []⟩ hs, permittedFixed fx e.obs :=
  fun e he => permitted_fixed fx e.decided e.obs (C18_history_permitted g fx c hs e he)

theorem history_sync_aux (tbl : List Gate) (g : Ports) (fx : Fixed) (hs : List HStep) :
    ∀ (h : HSt), (∀ p ∈ h.pending, p.2.async = true) →
      ∀ e ∈ history tbl g fx h hs, e.obs.async = false → e.arrived = e.decided := by
  induction hs with
  | nil => intro h _ e he; simp [history] at he
  | cons s ss ih =>
    intro h hp e he hasync
    simp only [history, List.mem_append] at he
    cases s with
    | act st =>
      rcases he with he | he
      · simp only [hstep, List.mem_map] at he
        obtain ⟨x, _, rfl⟩ := he
        rfl
      · refine ih _ ?_ e he hasync
        intro p hpm
        simp only [hstep, List.mem_append, List.mem_filter] at hpm
        rcases hpm with hpm | ⟨_, hpm⟩
        · exact hp p hpm
        · exact hpm
    | deliver i =>
      simp only [hstep] at he
      split at he
      · rename_i p hpi
        have hmem : p ∈ h.pending := List.mem_of_getElem? hpi
        rcases he with he | he
        · simp only [List.mem_singleton] at he
          subst he
          have := hp p hmem
          simp [this] at hasync
        · exact ih _ (fun q hq => hp q (List.mem_of_mem_eraseIdx hq)) e he hasync
      · rcases he with he | he
        · simp at he
        · exact ih h hp e he hasync

/-- DHT announces and handshake messages are synchronous with their decision (the DHT call is
    made by the loop itself, the handshake fields are fixed when the message is built): for
    them decision time = arrival time, so `C18_history_permitted` covers arrival too.  Only
    tracker announces and web-seed fetches have a window. -/
theorem C18_history_sync_at_arrival (g : Ports) (fx : Fixed) (c : Conf) (hs : List HStep) :
    ∀ e ∈ history Gen.privacyGates g fx ⟨c, []⟩ hs, e.obs.async = false →
      permitted fx e.arrived e.obs := by
  intro e he ha
  rw [history_sync_aux Gen.privacyGates g fx hs ⟨c, []⟩ (by simp) e he ha]
  exact C18_history_permitted g fx c hs e he

/-- The window is really open in the model (and in the code: an announce or fetch in flight
    when its switch is turned off runs to completion): a fetch decided while web seeds were
    enabled can arrive after they were disabled.  This is why "only while enabled" is proved at
    decision time and observed at arrival time by the harness. -/
theorem C18_arrival_window_open :
    ∃ e ∈ history Gen.privacyGates ⟨6883, 6882, 6881⟩ ⟨false, true⟩ ⟨⟨false, true, .none⟩, []⟩
        [.act (.reqTick 1), .act (.setConf ⟨false, false, .none⟩ 0), .deliver 0],
      e.obs = .fetch ∧ e.decided.useWebseeds = true ∧ e.arrived.useWebseeds = false := by
  decide

/-! ## non-vacuity: the actions do happen when permitted -/
example : trace Gen.privacyGates ⟨6883, 6882, 6881⟩ ⟨false, true⟩ ⟨true, true, .normal⟩
    [.add, .slowTick false true, .reqTick 1, .peerStart true true true, .incoming]
    = [(⟨true, true, .normal⟩, .dht true 6881), (⟨true, true, .normal⟩, .dht false 6883),
       (⟨true, true, .normal⟩, .tracker 6882 6881), (⟨true, true, .normal⟩, .fetch),
       (⟨true, true, .normal⟩, .portMsg 6883), (⟨true, true, .normal⟩, .ext0 true 6882 true),
       (⟨true, true, .normal⟩, .offer), (⟨true, true, .normal⟩, .accept)] := by decide
example : trace Gen.privacyGates ⟨6883, 6882, 6881⟩ ⟨true, true⟩ ⟨false, false, .none⟩
    [.add, .setConf ⟨true, false, .normal⟩ 1, .slowTick false true, .peerStart true true true, .incoming]
    = [(⟨true, false, .normal⟩, .dht true 0), (⟨true, false, .normal⟩, .dht false 0),
       (⟨true, false, .normal⟩, .tracker 0 0), (⟨true, false, .normal⟩, .ext0 false 0 false)] := by decide

-- a history with deliveries out of order and a SetConf in between: all events, with both tags
example : history Gen.privacyGates ⟨6883, 6882, 6881⟩ ⟨true, true⟩ ⟨⟨true, true, .normal⟩, []⟩
    [.act (.slowTick false true), .act (.reqTick 1), .act (.setConf ⟨false, false, .none⟩ 0),
     .deliver 1, .deliver 0, .act (.slowTick true true)]
    = [⟨⟨true, true, .normal⟩, ⟨false, false, .none⟩, .fetch⟩,
       ⟨⟨true, true, .normal⟩, ⟨false, false, .none⟩, .tracker 0 0⟩] := by decide

end Storrent.Privacy
