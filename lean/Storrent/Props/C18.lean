import Storrent.Model.Privacy
import Storrent.Gen.PrivacyGates
/-
C18 — Privacy switches are honoured.
-/
namespace Storrent.Privacy
open Storrent

/-! ## the regenerated table -/

/-- each outbound call site of the source, with the conditions that dominate it, is what
    the proofs below assume; a new or differently gated call site changes the table -/
theorem C18_gates_table : Gen.privacyGates = expectedGates := by decide

theorem C18_gate_predicates :
    Gen.hasWebseedsDef = expectedHasWebseeds ∧ Gen.hasProxyDef = expectedHasProxy ∧
    Gen.peerHasProxyDef = expectedPeerHasProxy := by decide

/-! ## what the gates evaluate to -/
section gates
variable (e : Env)

theorem gate_dht : gate expectedGates e "tor.Torrent.announce" "dht.Announce" "t.Hash, ipv6, port"
    = (e.conf.dht != .none) := by
  simp [gate, expectedGates, evalCond]

theorem gate_dht_port : gate expectedGates e "tor.Torrent.announce" "config.ExternalPort" "false, ipv6"
    = (e.conf.dht != .none && (!e.fx.proxy && e.conf.dht == .normal)) := by
  simp [gate, expectedGates, evalCond]

theorem gate_setconf_t : gate expectedGates e "tor.handleEvent" "t.announce" "true" = e.announce := by
  simp [gate, expectedGates, evalCond]
theorem gate_setconf_f : gate expectedGates e "tor.handleEvent" "t.announce" "false" = e.announce := by
  simp [gate, expectedGates, evalCond]
theorem gate_tick_t : gate expectedGates e "tor.Torrent.run" "t.announce" "true" = e.stale := by
  simp [gate, expectedGates, evalCond]
theorem gate_tick_f : gate expectedGates e "tor.Torrent.run" "t.announce" "false" = e.stale := by
  simp [gate, expectedGates, evalCond]
theorem gate_tracker : gate expectedGates e "tor.Torrent.run" "trackerAnnounce" "ctx, t" = e.conf.useTrackers := by
  simp [gate, expectedGates, evalCond]
theorem gate_tr_p4 : gate expectedGates e "tor.trackerAnnounceSingle" "config.ExternalPort" "true, false"
    = !e.fx.proxy := by
  simp [gate, expectedGates, evalCond]
theorem gate_tr_p6 : gate expectedGates e "tor.trackerAnnounceSingle" "config.ExternalPort" "true, true"
    = !e.fx.proxy := by
  simp [gate, expectedGates, evalCond]
theorem gate_wsGR : gate expectedGates e "tor.maybeWebseed" "webseedGR" "ctx, ws, t, index, o, l"
    = hasWebseeds e := by
  simp [gate, expectedGates, evalCond]
theorem gate_wsH : gate expectedGates e "tor.maybeWebseed" "webseedH" "ctx, ws, t, index, o, l"
    = hasWebseeds e := by
  simp [gate, expectedGates, evalCond]
theorem gate_port : gate expectedGates e "peer.Run" "protocol.Port" "" = (e.canDHT && !e.fx.proxy) := by
  simp [gate, expectedGates, evalCond]
theorem gate_port_val : gate expectedGates e "peer.Run" "config.ExternalPort" "false, peer.IP.Is6()"
    = (e.canDHT && !e.fx.proxy) := by
  simp [gate, expectedGates, evalCond]
theorem gate_ext0 : gate expectedGates e "peer.Run" "protocol.Extended0" "Version=version, Port=port, IPv6=ipv6"
    = e.canExt := by
  simp [gate, expectedGates, evalCond]
theorem gate_version : gate expectedGates e "peer.Run" "version-string" "\"STorrent 0.0\""
    = (e.canExt && !e.fx.proxy) := by
  simp [gate, expectedGates, evalCond]
theorem gate_ext_port : gate expectedGates e "peer.Run" "config.ExternalPort" "true, peer.IP.Is6()"
    = (e.canExt && !e.fx.proxy) := by
  simp [gate, expectedGates, evalCond]
theorem gate_ipv6 : gate expectedGates e "peer.Run" "getIPv6" "" = (e.canExt && !e.fx.proxy) := by
  simp [gate, expectedGates, evalCond]
theorem gate_offer : gate expectedGates e "tor.infoHashes" "append" "pairs, hash.HashPair{h, t.MyId}"
    = (e.all || !e.fx.proxy) := by
  simp [gate, expectedGates, evalCond]
theorem gate_accept : gate expectedGates e "tor.Server" "t.NewPeer"
    "t.proxy, conn, netip.AddrPortFrom(ipp, 0), true, result, init" = !e.fx.proxy := by
  simp [gate, expectedGates, evalCond]
end gates

/-! ## the building blocks -/

theorem announce_permitted (g : Ports) (e : Env) (v6 : Bool) :
    ∀ o ∈ announceObs expectedGates g e v6, permitted e.fx e.conf o := by
  intro o ho
  simp only [announceObs, gate_dht, gate_dht_port] at ho
  split at ho
  · rename_i h
    simp only [List.mem_singleton] at ho
    subst ho
    simp only [permitted]
    refine ⟨by simpa using h, ?_⟩
    intro hp
    split at hp
    · rename_i h2
      simp only [Bool.and_eq_true, Bool.not_eq_true', beq_iff_eq] at h2
      exact ⟨h2.2.2, h2.2.1⟩
    · exact absurd rfl hp
  · simp at ho

theorem fetch_permitted (e : Env) (k : Nat) :
    ∀ o ∈ fetchObs expectedGates e k, permitted e.fx e.conf o := by
  intro o ho
  simp only [fetchObs, gate_wsGR, gate_wsH] at ho
  split at ho
  · rename_i h
    have := List.eq_of_mem_replicate ho
    subst this
    simp only [permitted]
    simpa [hasWebseeds] using h
  · simp at ho

theorem tracker_permitted (g : Ports) (e : Env) (ready : Bool) :
    ∀ o ∈ trackerObs expectedGates g e ready, permitted e.fx e.conf o := by
  intro o ho
  simp only [trackerObs, gate_tracker, gate_tr_p4, gate_tr_p6] at ho
  split at ho
  · rename_i h
    simp only [List.mem_singleton] at ho
    subst ho
    simp only [permitted]
    simp only [Bool.and_eq_true] at h
    refine ⟨h.1, ?_⟩
    intro hp
    simp [hp]
  · simp at ho

/-- every observation of one step is permitted by the settings it is tagged with (the
    settings in force when the action started), and the tag is the new settings for SetConf
    and the current ones otherwise -/
theorem step_permitted (g : Ports) (fx : Fixed) (c : Conf) (st : Step) :
    ∀ x ∈ (step expectedGates g fx c st).2, permitted fx x.1 x.2 := by
  intro x hx
  cases st with
  | add =>
    simp only [step, List.mem_map, List.mem_append] at hx
    obtain ⟨o, ho, rfl⟩ := hx
    rcases ho with ho | ho
    · exact announce_permitted g { conf := c, fx := fx } true o ho
    · exact announce_permitted g { conf := c, fx := fx } false o ho
  | announce v6 =>
    simp only [step, List.mem_map] at hx
    obtain ⟨o, ho, rfl⟩ := hx
    exact announce_permitted g { conf := c, fx := fx } v6 o ho
  | setConf nc k =>
    simp only [step, List.mem_map, List.mem_append, gate_setconf_t, gate_setconf_f] at hx
    obtain ⟨o, ho, rfl⟩ := hx
    rcases ho with (ho | ho) | ho
    · split at ho
      · exact announce_permitted g _ true o ho
      · simp at ho
    · split at ho
      · exact announce_permitted g _ false o ho
      · simp at ho
    · exact fetch_permitted _ k o ho
  | slowTick stale ready =>
    simp only [step, List.mem_map, List.mem_append, gate_tick_t, gate_tick_f] at hx
    obtain ⟨o, ho, rfl⟩ := hx
    rcases ho with (ho | ho) | ho
    · split at ho
      · exact announce_permitted g _ true o ho
      · simp at ho
    · split at ho
      · exact announce_permitted g _ false o ho
      · simp at ho
    · exact tracker_permitted g _ ready o ho
  | reqTick k =>
    simp only [step, List.mem_map] at hx
    obtain ⟨o, ho, rfl⟩ := hx
    exact fetch_permitted { conf := c, fx := fx } k o ho
  | peerStart dht ext v6 =>
    simp only [step, List.mem_map, List.mem_append, gate_port, gate_port_val, gate_ext0, gate_version,
      gate_ext_port, gate_ipv6] at hx
    obtain ⟨o, ho, rfl⟩ := hx
    rcases ho with ho | ho
    · split at ho
      · rename_i h
        simp only [List.mem_singleton] at ho
        subst ho
        simp only [permitted]
        simp only [Bool.and_eq_true, Bool.not_eq_true'] at h
        exact h.1.2
      · simp at ho
    · split at ho
      · simp only [List.mem_singleton] at ho
        subst ho
        simp only [permitted]
        intro hp
        simp [hp]
      · simp at ho
  | incoming =>
    simp only [step, List.mem_map, List.mem_append, gate_offer, gate_accept] at hx
    obtain ⟨o, ho, rfl⟩ := hx
    rcases ho with ho | ho
    · split at ho
      · rename_i h
        simp only [List.mem_singleton] at ho
        subst ho
        simpa [permitted] using h
      · simp at ho
    · split at ho
      · rename_i h
        simp only [List.mem_singleton] at ho
        subst ho
        simp only [Bool.and_eq_true] at h
        simpa [permitted] using h.2
      · simp at ho

/-! ## the property theorems: all settings, all global defaults (= all initial settings),
    all sequences of steps (any number of SetConf with any values, in any order) -/

theorem trace_permitted (g : Ports) (fx : Fixed) (steps : List Step) :
    ∀ (c : Conf), ∀ x ∈ trace expectedGates g fx c steps, permitted fx x.1 x.2 := by
  induction steps with
  | nil => intro c x hx; simp [trace] at hx
  | cons s ss ih =>
    intro c x hx
    simp only [trace, List.mem_append] at hx
    rcases hx with hx | hx
    · exact step_permitted g fx c s x hx
    · exact ih _ x hx

/-- Every outbound action of every run is permitted by the settings in force when it started
    (stated over the table regenerated from the source). -/
theorem C18_all_permitted (g : Ports) (fx : Fixed) (c : Conf) (steps : List Step) :
    ∀ x ∈ trace Gen.privacyGates g fx c steps, permitted fx x.1 x.2 := by
  rw [C18_gates_table]; exact trace_permitted g fx steps c

/-- trackers are contacted only while `useTrackers`; the ports are 0,0 whenever proxied -/
theorem C18_trackers (g : Ports) (fx : Fixed) (c : Conf) (steps : List Step) (c' : Conf) (p4 p6 : Nat)
    (h : (c', Obs.tracker p4 p6) ∈ trace Gen.privacyGates g fx c steps) :
    c'.useTrackers = true ∧ (fx.proxy = true → p4 = 0 ∧ p6 = 0) :=
  C18_all_permitted g fx c steps _ h

/-- a web-seed fetch is started only while `useWebseeds` and web seeds exist -/
theorem C18_webseeds (g : Ports) (fx : Fixed) (c : Conf) (steps : List Step) (c' : Conf)
    (h : (c', Obs.fetch) ∈ trace Gen.privacyGates g fx c steps) :
    c'.useWebseeds = true ∧ fx.hasWs = true :=
  C18_all_permitted g fx c steps _ h

/-- a DHT announce happens only when the mode is not none; a port is advertised only in
    normal mode without a proxy -/
theorem C18_dht (g : Ports) (fx : Fixed) (c : Conf) (steps : List Step) (c' : Conf) (v6 : Bool) (port : Nat)
    (h : (c', Obs.dht v6 port) ∈ trace Gen.privacyGates g fx c steps) :
    c'.dht ≠ .none ∧ (port ≠ 0 → c'.dht = .normal ∧ fx.proxy = false) :=
  C18_all_permitted g fx c steps _ h

/-- proxied: no Port message; the extended handshake has empty version, port 0, no IPv6 -/
theorem C18_proxy_handshake (g : Ports) (c : Conf) (hasWs : Bool) (steps : List Step) (c' : Conf) :
    (∀ n, (c', Obs.portMsg n) ∉ trace Gen.privacyGates g ⟨true, hasWs⟩ c steps) ∧
    (∀ v p i, (c', Obs.ext0 v p i) ∈ trace Gen.privacyGates g ⟨true, hasWs⟩ c steps →
      v = false ∧ p = 0 ∧ i = false) := by
  constructor
  · intro n h
    have := C18_all_permitted g ⟨true, hasWs⟩ c steps _ h
    simp [permitted] at this
  · intro v p i h
    exact C18_all_permitted g ⟨true, hasWs⟩ c steps _ h rfl

/-- proxied: the hash is never offered to ServerHandshake and an incoming connection is
    never handed to NewPeer -/
theorem C18_proxy_incoming (g : Ports) (c : Conf) (hasWs : Bool) (steps : List Step) (c' : Conf) :
    (c', Obs.offer) ∉ trace Gen.privacyGates g ⟨true, hasWs⟩ c steps ∧
    (c', Obs.accept) ∉ trace Gen.privacyGates g ⟨true, hasWs⟩ c steps := by
  constructor <;> intro h <;>
    (have := C18_all_permitted g ⟨true, hasWs⟩ c steps _ h; simp [permitted] at this)

/-- Server refuses a proxied torrent even if the handshake matched: the call of NewPeer in
    tor.Server is dominated by `!(t.hasProxy())`, independently of what was offered -/
theorem C18_server_refuses_proxied (e : Env) (h : e.fx.proxy = true) :
    gate Gen.privacyGates e "tor.Server" "t.NewPeer"
      "t.proxy, conn, netip.AddrPortFrom(ipp, 0), true, result, init" = false := by
  rw [C18_gates_table, gate_accept]; simp [h]

/-- SetConf takes effect at once: the settings observations are tagged with after a SetConf
    are the new ones, and announces triggered by it obey them -/
theorem C18_setconf_effect (g : Ports) (fx : Fixed) (c nc : Conf) (k : Nat) :
    (step Gen.privacyGates g fx c (.setConf nc k)).1 = nc ∧
    ∀ x ∈ (step Gen.privacyGates g fx c (.setConf nc k)).2, x.1 = nc := by
  constructor
  · rfl
  · intro x hx
    simp only [step, List.mem_map] at hx
    obtain ⟨o, _, rfl⟩ := hx
    rfl

/-- table part: every place of the scanned sources where the listening port, the client
    version or the IPv6 address is read, and every Port message, is dominated by a
    "no proxy" condition; every web-seed start by hasWebseeds; the tracker announce by
    useTrackers; the DHT announce by the mode test -/
def sensitive (s : String) : Bool :=
  s == "config.ExternalPort" || s == "getIPv6" || s == "version-string" || s == "protocol.Port"

def mentionsNoProxy (c : String) : Bool :=
  c == "!t.hasProxy()" || c == "!hasProxy(peer)" || c == "peer.canDHT && !hasProxy(peer)"
  || c == "!t.hasProxy() && t.dhtMode >= config.DhtNormal"

theorem C18_sites_gated :
    (∀ r ∈ Gen.privacyGates, sensitive r.site = true → r.conds.any mentionsNoProxy = true) ∧
    (∀ r ∈ Gen.privacyGates, (r.site = "webseedGR" ∨ r.site = "webseedH") →
        r.conds.contains "!(!hasWebseeds(t))" = true) ∧
    (∀ r ∈ Gen.privacyGates, r.site = "trackerAnnounce" → r.conds.contains "t.useTrackers" = true) ∧
    (∀ r ∈ Gen.privacyGates, r.site = "dht.Announce" →
        r.conds.contains "!(t.dhtMode <= config.DhtNone)" = true) ∧
    (∀ r ∈ Gen.privacyGates, r.site = "infoHashes" → r.args = "false") := by decide

/-! ## non-vacuity: the actions do happen when permitted -/
example : trace Gen.privacyGates ⟨6883, 6882, 6881⟩ ⟨false, true⟩ ⟨true, true, .normal⟩
    [.add, .slowTick false true, .reqTick 1, .peerStart true true true, .incoming]
    = [(⟨true, true, .normal⟩, .dht true 6881), (⟨true, true, .normal⟩, .dht false 6883),
       (⟨true, true, .normal⟩, .tracker 6882 6881), (⟨true, true, .normal⟩, .fetch),
       (⟨true, true, .normal⟩, .portMsg 6883), (⟨true, true, .normal⟩, .ext0 true 6882 true),
       (⟨true, true, .normal⟩, .offer), (⟨true, true, .normal⟩, .accept)] := by decide
example : trace Gen.privacyGates ⟨6883, 6882, 6881⟩ ⟨true, true⟩ ⟨false, false, .none⟩
    [.add, .setConf ⟨true, false, .normal⟩ 1, .slowTick false true, .peerStart true true true, .incoming]
    = [(⟨true, false, .normal⟩, .dht true 0), (⟨true, false, .normal⟩, .dht false 0),
       (⟨true, false, .normal⟩, .tracker 0 0), (⟨true, false, .normal⟩, .ext0 false 0 false)] := by decide

end Storrent.Privacy
