import Storrent.Model.Metadata
import Storrent.Props.C13
/-
C12 — Magnet metadata is accepted only if authentic, whatever peers send.
Theorems about `Metadata.gotMetadata` (tor/metadata.go with the repaired guard
`int(index) >= chunks`) and the operations around it, for every hash function `sha1`
and every MetadataComplete `mc` (parameters), every state, every message.
-/
namespace Storrent.Metadata
open Storrent

/-- what holds of the metadata state of a torrent created by ReadMagnet, always -/
def WF (s : MState) : Prop :=
  s.hash.length = 20 ∧
  (s.complete = false → s.info.length ≤ maxSize ∧ s.requested.length = nChunks s.info.length)

/-! ### helpers -/

theorem copyAt_length (dst data : Bytes) (off : Nat) (h : off ≤ dst.length) :
    (copyAt dst off data).length = dst.length := by
  unfold copyAt
  simp only [List.length_append, List.length_take, List.length_drop]
  omega

theorem copyAt_get (dst data : Bytes) (off : Nat) (h : off ≤ dst.length) (j : Nat) :
    (copyAt dst off data)[j]? =
      if off ≤ j ∧ j < off + min data.length (dst.length - off) then data[j - off]? else dst[j]? := by
  unfold copyAt
  rw [List.append_assoc, List.getElem?_append]
  simp only [List.length_take]
  by_cases h1 : j < off
  · have : j < min off dst.length := by omega
    simp only [this, if_true, List.getElem?_take, h1]
    have : ¬ (off ≤ j ∧ j < off + min data.length (dst.length - off)) := by omega
    simp [this]
  · have : ¬ j < min off dst.length := by omega
    simp only [this, if_false]
    rw [List.getElem?_append]
    simp only [List.length_take]
    have hmin : min off dst.length = off := by omega
    rw [hmin]
    by_cases h2 : j - off < min (dst.length - off) data.length
    · simp only [h2, if_true, List.getElem?_take]
      have h3 : j - off < dst.length - off := by omega
      have : off ≤ j ∧ j < off + min data.length (dst.length - off) := by omega
      simp [this, h3]
    · simp only [h2, if_false, List.getElem?_drop]
      have : ¬ (off ≤ j ∧ j < off + min data.length (dst.length - off)) := by omega
      simp only [this, if_false]
      congr 1
      omega

theorem allSet_iff (bm : List Nat) : ∀ n, allSet bm n = true ↔ ∀ i, i < n → i ∈ bm
  | 0 => by simp [allSet]
  | n+1 => by
    simp only [allSet, Bool.and_eq_true, List.contains_iff_mem, allSet_iff bm n]
    constructor
    · intro ⟨h1, h2⟩ i hi
      by_cases h : i = n
      · subst h; exact h1
      · exact h2 i (by omega)
    · intro h
      exact ⟨h n (by omega), fun i hi => h i (by omega)⟩

theorem bumpReq_length : ∀ (l : List UInt8) (i : Nat), (bumpReq l i).length = l.length
  | [], _ => by simp [bumpReq]
  | _ :: _, 0 => by simp [bumpReq]
  | _ :: rest, i+1 => by simp [bumpReq, bumpReq_length rest i]

theorem foldl_bumpReq_length : ∀ (picks : List Nat) (l : List UInt8),
    (picks.foldl bumpReq l).length = l.length
  | [], _ => rfl
  | p :: rest, l => by
    simp only [List.foldl]
    rw [foldl_bumpReq_length rest, bumpReq_length]

/-- `index*16*1024` does not wrap for an index that passed the (repaired) guard -/
theorem off_eq {index : UInt32} {chunks : Nat} (h : index.toNat < chunks) (hc : chunks ≤ 8192) :
    (index * 16 * 1024).toNat = index.toNat * 16384 := by
  have : index.toNat < 2 ^ 32 := UInt32.toNat_lt index
  simp only [UInt32.toNat_mul]
  have e16 : (16 : UInt32).toNat = 16 := rfl
  have e1024 : (1024 : UInt32).toNat = 1024 := rfl
  rw [e16, e1024]
  omega

theorem nChunks_le {n : Nat} (h : n ≤ maxSize) : nChunks n ≤ 8192 := by
  unfold nChunks chunk; unfold maxSize at h; omega

theorem resize_requested (size : UInt32) (h : size.toNat ≤ maxSize) :
    ((size + 16 * 1024 - 1) / (16 * 1024)).toNat = nChunks size.toNat := by
  unfold maxSize at h
  have e : (16 * 1024 : UInt32) = 16384 := by decide
  rw [e]
  have h1 : (size + 16384).toNat = size.toNat + 16384 := by
    rw [UInt32.toNat_add]; have : (16384 : UInt32).toNat = 16384 := rfl; rw [this]; omega
  have h2 : (size + 16384 - 1).toNat = size.toNat + 16383 := by
    rw [UInt32.toNat_sub_of_le]
    · rw [h1]; rfl
    · rw [UInt32.le_iff_toNat_le, h1]; have : (1 : UInt32).toNat = 1 := rfl; omega
  rw [UInt32.toNat_div, h2]
  have : (16384 : UInt32).toNat = 16384 := rfl
  rw [this]
  unfold nChunks chunk
  omega

/-! ### the state invariant is preserved by every operation -/

theorem wf_init (h : Bytes) (hh : h.length = 20) : WF (init h) := by
  refine ⟨hh, fun _ => ?_⟩
  simp [init, nChunks, chunk, maxSize]

theorem wf_reset {s : MState} (h : WF s) : WF (reset s) := by
  refine ⟨h.1, fun _ => ?_⟩
  simp [reset, nChunks, chunk, maxSize]

theorem wf_vote {s : MState} (h : WF s) (size : UInt32) : WF (metadataVote s size).1 := by
  unfold metadataVote
  split
  · exact h
  · split
    · exact h
    · exact ⟨h.1, h.2⟩

theorem wf_resize {s : MState} (h : WF s) (size : UInt32) : WF (resizeMetadata s size).1 := by
  unfold resizeMetadata
  split
  · exact h
  · split
    · exact h
    · rename_i hsz
      split
      · refine ⟨h.1, fun hc => ?_⟩
        have hsz' : size.toNat ≤ maxSize := by omega
        simp only [List.length_replicate]
        exact ⟨hsz', resize_requested size hsz'⟩
      · exact h

theorem wf_request {s : MState} (h : WF s) (guess : Nat) (picks : List Nat) :
    WF (requestMetadata s guess picks).1 := by
  unfold requestMetadata
  split
  · exact h
  · split
    · exact h
    · have hw : WF (if s.info.length % 4294967296 ≠ guess then resizeMetadata s (UInt32.ofNat guess)
                    else (s, Tag.ok)).1 := by
        split
        · exact wf_resize h _
        · exact h
      generalize (if s.info.length % 4294967296 ≠ guess then resizeMetadata s (UInt32.ofNat guess)
                    else (s, Tag.ok)) = r at hw ⊢
      obtain ⟨s1, t1⟩ := r
      simp only
      split
      · exact hw
      · refine ⟨hw.1, fun hc => ?_⟩
        have := hw.2 hc
        simp only [foldl_bumpReq_length]
        exact this

/-- everything one call of gotMetadata can do, by return statement -/
theorem got_cases (sha1 : Bytes → Bytes) (mc : Bytes → McRes) (s : MState) (hs : WF s)
    (hsha : ∀ x, (sha1 x).length = 20) (index size : UInt32) (data : Bytes) :
    let r := gotMetadata sha1 mc s index size data
    let info' := copyAt s.info (index.toNat * 16384) data
    let valid := s.complete = false ∧ size.toNat = s.info.length ∧ index.toNat < s.requested.length ∧
      (data.length = 16384 ∨ index.toNat * 16384 + data.length = s.info.length) ∧
      index.toNat ∉ s.bitmap ∧ index.toNat * 16384 ≤ s.info.length
    (r.2 = .eComplete ∧ r.1 = s ∧ s.complete = true) ∨
    (r.2 = .eSize ∧ r.1 = s ∧ s.complete = false ∧ size.toNat ≠ s.info.length) ∨
    (r.2 = .eBeyond ∧ r.1 = s ∧ s.complete = false ∧ index.toNat ≥ s.requested.length) ∨
    (r.2 = .eLength ∧ r.1 = s ∧ s.complete = false ∧
       data.length ≠ 16384 ∧ index.toNat * 16384 + data.length ≠ s.info.length) ∨
    (r.2 = .dup ∧ r.1 = s ∧ s.complete = false ∧ index.toNat ∈ s.bitmap) ∨
    (r.2 = .stored ∧ valid ∧ r.1 = { s with info := info', bitmap := index.toNat :: s.bitmap } ∧
       allSet (index.toNat :: s.bitmap) s.requested.length = false) ∨
    (r.2 = .eMismatch ∧ valid ∧ r.1 = reset { s with info := info', bitmap := index.toNat :: s.bitmap } ∧
       allSet (index.toNat :: s.bitmap) s.requested.length = true ∧ sha1 info' ≠ s.hash) ∨
    (r.2 = .eParse ∧ valid ∧ r.1 = reset { s with info := info', bitmap := index.toNat :: s.bitmap } ∧
       allSet (index.toNat :: s.bitmap) s.requested.length = true ∧ sha1 info' = s.hash ∧ mc info' = .err) ∨
    (r.2 = .panic ∧ valid ∧ r.1 = { s with info := info', bitmap := index.toNat :: s.bitmap } ∧
       allSet (index.toNat :: s.bitmap) s.requested.length = true ∧
       sha1 info' = s.hash ∧ mc info' = .panic) ∨
    (r.2 = .done ∧ valid ∧
       r.1 = { s with info := info', bitmap := [], votes := [], requested := [], complete := true } ∧
       allSet (index.toNat :: s.bitmap) s.requested.length = true ∧ sha1 info' = s.hash ∧ mc info' = .ok) := by
  intro r info' valid
  have hr : r = gotMetadata sha1 mc s index size data := rfl
  unfold gotMetadata gotMetadataG at hr
  by_cases hc : s.complete = true
  · rw [if_pos hc] at hr
    exact Or.inl ⟨by rw [hr], by rw [hr], hc⟩
  · have hc' : s.complete = false := by simpa using hc
    obtain ⟨hmax, hreq⟩ := hs.2 hc'
    have hmod : s.info.length % 4294967296 = s.info.length := by unfold maxSize at hmax; omega
    rw [if_neg hc, hmod] at hr
    by_cases h1 : size.toNat ≠ s.info.length
    · rw [if_pos h1] at hr
      exact Or.inr (Or.inl ⟨by rw [hr], by rw [hr], hc', h1⟩)
    · rw [if_neg h1] at hr
      simp only [if_true] at hr
      by_cases h2 : index.toNat ≥ s.requested.length
      · rw [if_pos h2] at hr
        exact Or.inr (Or.inr (Or.inl ⟨by rw [hr], by rw [hr], hc', h2⟩))
      · rw [if_neg h2] at hr
        by_cases h3 : data.length ≠ 16 * 1024 ∧ index.toNat * 16 * 1024 + data.length ≠ s.info.length
        · rw [if_pos h3] at hr
          exact Or.inr (Or.inr (Or.inr (Or.inl ⟨by rw [hr], by rw [hr], hc', by omega, by omega⟩)))
        · rw [if_neg h3] at hr
          by_cases h4 : s.bitmap.contains index.toNat = true
          · rw [if_pos h4] at hr
            exact Or.inr (Or.inr (Or.inr (Or.inr (Or.inl
              ⟨by rw [hr], by rw [hr], hc', by simpa using h4⟩))))
          · rw [if_neg h4] at hr
            have hidx : index.toNat < s.requested.length := by omega
            have hch : s.requested.length ≤ 8192 := by rw [hreq]; exact nChunks_le hmax
            have hoff : (index * 16 * 1024).toNat = index.toNat * 16384 := off_eq hidx hch
            have hle : index.toNat * 16384 ≤ s.info.length := by
              rw [hreq] at hidx; unfold nChunks chunk at hidx; omega
            have hv : valid := by
              refine ⟨hc', by omega, hidx, by omega, by simpa using h4, hle⟩
            have hngt : ¬ (index.toNat * 16384 > s.info.length) := by omega
            rw [hoff, if_neg hngt] at hr
            by_cases h5 : allSet (index.toNat :: s.bitmap) s.requested.length = true
            · rw [if_neg (by simp [h5])] at hr
              have h20 : ¬ ((sha1 info').length ≠ 20 ∨ s.hash.length ≠ 20) := by
                have := hsha info'; have := hs.1; omega
              rw [if_neg h20] at hr
              by_cases h6 : sha1 info' ≠ s.hash
              · rw [if_pos h6] at hr
                exact Or.inr (Or.inr (Or.inr (Or.inr (Or.inr (Or.inr (Or.inl
                  ⟨by rw [hr], hv, by rw [hr], h5, h6⟩))))))
              · rw [if_neg h6] at hr
                have h6' : sha1 info' = s.hash := by simpa using h6
                cases hm : mc info' with
                | ok =>
                  have hm' : mc (copyAt s.info (index.toNat * 16384) data) = .ok := hm
                  rw [hm'] at hr
                  dsimp only at hr
                  exact Or.inr (Or.inr (Or.inr (Or.inr (Or.inr (Or.inr (Or.inr (Or.inr (Or.inr
                    ⟨by rw [hr], hv, by rw [hr], h5, h6', rfl⟩))))))))
                | err =>
                  have hm' : mc (copyAt s.info (index.toNat * 16384) data) = .err := hm
                  rw [hm'] at hr
                  dsimp only at hr
                  exact Or.inr (Or.inr (Or.inr (Or.inr (Or.inr (Or.inr (Or.inr (Or.inl
                    ⟨by rw [hr], hv, by rw [hr], h5, h6', rfl⟩)))))))
                | panic =>
                  have hm' : mc (copyAt s.info (index.toNat * 16384) data) = .panic := hm
                  rw [hm'] at hr
                  dsimp only at hr
                  exact Or.inr (Or.inr (Or.inr (Or.inr (Or.inr (Or.inr (Or.inr (Or.inr (Or.inl
                    ⟨by rw [hr], hv, by rw [hr], h5, h6', rfl⟩))))))))
            · have h5' : allSet (index.toNat :: s.bitmap) s.requested.length = false := by
                simpa using h5
              rw [if_pos (by simp [h5'])] at hr
              exact Or.inr (Or.inr (Or.inr (Or.inr (Or.inr (Or.inl
                ⟨by rw [hr], hv, by rw [hr], h5'⟩)))))

/-! ### the property theorems -/

/-- gotMetadata never panics: no slice out of range in `copy(t.Info[index*16*1024:], data)`,
    no Hash.Equal on a short hash, in every reachable state, for every (index, size, data) -/
theorem C12_no_panic (sha1 : Bytes → Bytes) (mc : Bytes → McRes) (s : MState) (hs : WF s)
    (hsha : ∀ x, (sha1 x).length = 20) (hmc : ∀ x, mc x ≠ .panic)
    (index size : UInt32) (data : Bytes) :
    (gotMetadata sha1 mc s index size data).2 ≠ .panic := by
  have := got_cases sha1 mc s hs hsha index size data
  simp only at this
  rcases this with h | h | h | h | h | h | h | h | h | h
  all_goals first
    | (rw [h.1]; decide)
    | exact absurd h.2.2.2.2.2 (hmc _)

/-- with MetadataComplete as modelled for C13 behind any decoder, end to end -/
theorem C12_no_panic_e2e (sha1 : Bytes → Bytes) (bdec : Bytes → Option Meta.BInfo) (s : MState)
    (hs : WF s) (hsha : ∀ x, (sha1 x).length = 20) (index size : UInt32) (data : Bytes) :
    (gotMetadata sha1 (fun info => match bdec info with
        | none => .err
        | some bi => match Meta.metadataComplete 0 bi with
          | .ok _ => .ok | .err _ => .err | .panic _ => .panic) s index size data).2 ≠ .panic := by
  apply C12_no_panic _ _ s hs hsha
  intro x
  split
  · simp
  · rename_i bi _
    split
    · simp
    · simp
    · rename_i w hw
      exact absurd hw (Meta.C13_no_panic 0 (by omega) bi w)

theorem wf_got (sha1 : Bytes → Bytes) (mc : Bytes → McRes) (s : MState) (hs : WF s)
    (hsha : ∀ x, (sha1 x).length = 20) (index size : UInt32) (data : Bytes) :
    WF (gotMetadata sha1 mc s index size data).1 := by
  have := got_cases sha1 mc s hs hsha index size data
  simp only at this
  have hst : ∀ (v : s.complete = false ∧ size.toNat = s.info.length ∧ index.toNat < s.requested.length ∧
      (data.length = 16384 ∨ index.toNat * 16384 + data.length = s.info.length) ∧
      index.toNat ∉ s.bitmap ∧ index.toNat * 16384 ≤ s.info.length),
      WF { s with info := copyAt s.info (index.toNat * 16384) data, bitmap := index.toNat :: s.bitmap } := by
    intro v
    refine ⟨hs.1, fun hc => ?_⟩
    have := hs.2 v.1
    simp only [copyAt_length _ _ _ v.2.2.2.2.2]
    exact this
  rcases this with h | h | h | h | h | h | h | h | h | h
  · rw [h.2.1]; exact hs
  · rw [h.2.1]; exact hs
  · rw [h.2.1]; exact hs
  · rw [h.2.1]; exact hs
  · rw [h.2.1]; exact hs
  · rw [h.2.2.1]; exact hst h.2.1
  · rw [h.2.2.1]; exact wf_reset (hst h.2.1)
  · rw [h.2.2.1]; exact wf_reset (hst h.2.1)
  · rw [h.2.2.1]; exact hst h.2.1
  · rw [h.2.2.1]; exact ⟨hs.1, fun hc => by simp at hc⟩

/-- `infoComplete` is set only by a block that completes a buffer whose SHA-1 is the
    torrent's hash and which MetadataComplete accepts -/
theorem C12_authentic (sha1 : Bytes → Bytes) (mc : Bytes → McRes) (s : MState) (hs : WF s)
    (hsha : ∀ x, (sha1 x).length = 20) (index size : UInt32) (data : Bytes)
    (hnc : s.complete = false)
    (hc : (gotMetadata sha1 mc s index size data).1.complete = true) :
    (gotMetadata sha1 mc s index size data).2 = .done ∧
    sha1 (gotMetadata sha1 mc s index size data).1.info = s.hash ∧
    mc (gotMetadata sha1 mc s index size data).1.info = .ok ∧
    (gotMetadata sha1 mc s index size data).1.hash = s.hash := by
  have := got_cases sha1 mc s hs hsha index size data
  simp only at this
  rcases this with h | h | h | h | h | h | h | h | h | h
  · rw [h.2.1, hnc] at hc; simp at hc
  · rw [h.2.1, hnc] at hc; simp at hc
  · rw [h.2.1, hnc] at hc; simp at hc
  · rw [h.2.1, hnc] at hc; simp at hc
  · rw [h.2.1, hnc] at hc; simp at hc
  · rw [h.2.2.1] at hc; simp only at hc; rw [hnc] at hc; simp at hc
  · rw [h.2.2.1] at hc; simp only [reset] at hc; rw [hnc] at hc; simp at hc
  · rw [h.2.2.1] at hc; simp only [reset] at hc; rw [hnc] at hc; simp at hc
  · rw [h.2.2.1] at hc; simp only at hc; rw [hnc] at hc; simp at hc
  · refine ⟨h.1, ?_, ?_, ?_⟩
    · rw [h.2.2.1]; exact h.2.2.2.2.1
    · rw [h.2.2.1]; exact h.2.2.2.2.2
    · rw [h.2.2.1]

/-- once complete, every operation is refused and leaves the whole state (Info included)
    unchanged: later metadata messages are ignored -/
theorem C12_complete_frozen (sha1 : Bytes → Bytes) (mc : Bytes → McRes) (s : MState)
    (hc : s.complete = true) (op : Op) : step sha1 mc s op = (s, .eComplete) := by
  cases op with
  | vote sz => simp [step, metadataVote, hc]
  | resize sz => simp [step, resizeMetadata, hc]
  | request g ps => simp [step, requestMetadata, hc]
  | got i sz d => simp [step, gotMetadata, gotMetadataG, hc]

theorem vote_keeps (s : MState) (sz : UInt32) :
    (metadataVote s sz).1.complete = s.complete ∧ (metadataVote s sz).1.hash = s.hash ∧
    (metadataVote s sz).1.info = s.info ∧ (metadataVote s sz).2 ≠ .panic := by
  unfold metadataVote
  split
  · simp
  · split <;> simp

theorem resize_keeps (s : MState) (sz : UInt32) :
    (resizeMetadata s sz).1.complete = s.complete ∧ (resizeMetadata s sz).1.hash = s.hash ∧
    (resizeMetadata s sz).2 ≠ .panic := by
  unfold resizeMetadata
  split
  · simp
  · split
    · simp
    · split <;> simp

theorem request_keeps (s : MState) (g : Nat) (ps : List Nat) :
    (requestMetadata s g ps).1.complete = s.complete ∧ (requestMetadata s g ps).1.hash = s.hash ∧
    (requestMetadata s g ps).2 ≠ .panic := by
  unfold requestMetadata
  split
  · simp
  · split
    · simp
    · have hk : ∀ r : MState × Tag,
          r = (if s.info.length % 4294967296 ≠ g then resizeMetadata s (UInt32.ofNat g) else (s, Tag.ok)) →
          r.1.complete = s.complete ∧ r.1.hash = s.hash ∧ r.2 ≠ .panic := by
        intro r hr
        split at hr
        · rw [hr]; exact resize_keeps s _
        · rw [hr]; simp
      generalize (if s.info.length % 4294967296 ≠ g then resizeMetadata s (UInt32.ofNat g)
                    else (s, Tag.ok)) = r at hk ⊢
      obtain ⟨s1, t1⟩ := r
      have := hk (s1, t1) rfl
      simp only at this ⊢
      split
      · exact this
      · exact ⟨this.1, this.2.1, by simp⟩

/-- invariant of every run from ReadMagnet's torrent -/
def Inv (sha1 : Bytes → Bytes) (mc : Bytes → McRes) (h : Bytes) (s : MState) : Prop :=
  WF s ∧ s.hash = h ∧ (s.complete = true → sha1 s.info = h ∧ mc s.info = .ok)

theorem inv_step (sha1 : Bytes → Bytes) (mc : Bytes → McRes) (hsha : ∀ x, (sha1 x).length = 20)
    (h : Bytes) (s : MState) (hi : Inv sha1 mc h s) (op : Op) : Inv sha1 mc h (step sha1 mc s op).1 := by
  by_cases hc : s.complete = true
  · rw [C12_complete_frozen sha1 mc s hc op]; exact hi
  · have hc' : s.complete = false := by simpa using hc
    obtain ⟨hw, hh, _⟩ := hi
    cases op with
    | vote sz =>
      have := vote_keeps s sz
      refine ⟨wf_vote hw sz, by simp only [step]; rw [this.2.1, hh], fun hx => ?_⟩
      simp only [step] at hx; rw [this.1, hc'] at hx; simp at hx
    | resize sz =>
      have := resize_keeps s sz
      refine ⟨wf_resize hw sz, by simp only [step]; rw [this.2.1, hh], fun hx => ?_⟩
      simp only [step] at hx; rw [this.1, hc'] at hx; simp at hx
    | request g ps =>
      have := request_keeps s g ps
      refine ⟨wf_request hw g ps, by simp only [step]; rw [this.2.1, hh], fun hx => ?_⟩
      simp only [step] at hx; rw [this.1, hc'] at hx; simp at hx
    | got i sz d =>
      simp only [step]
      have hhash : (gotMetadata sha1 mc s i sz d).1.hash = s.hash := by
        have := got_cases sha1 mc s hw hsha i sz d
        simp only at this
        rcases this with c | c | c | c | c | c | c | c | c | c
        · rw [c.2.1]
        · rw [c.2.1]
        · rw [c.2.1]
        · rw [c.2.1]
        · rw [c.2.1]
        · rw [c.2.2.1]
        · rw [c.2.2.1]; rfl
        · rw [c.2.2.1]; rfl
        · rw [c.2.2.1]
        · rw [c.2.2.1]
      refine ⟨wf_got sha1 mc s hw hsha i sz d, by rw [hhash, hh], fun hx => ?_⟩
      have := C12_authentic sha1 mc s hw hsha i sz d hc' hx
      exact ⟨by rw [this.2.1, hh], this.2.2.1⟩

theorem inv_run (sha1 : Bytes → Bytes) (mc : Bytes → McRes) (hsha : ∀ x, (sha1 x).length = 20)
    (h : Bytes) : ∀ (ops : List Op) (s : MState), Inv sha1 mc h s → Inv sha1 mc h (run sha1 mc s ops)
  | [], _, hi => hi
  | op :: rest, s, hi => by
    simp only [run, List.foldl]
    exact inv_run sha1 mc hsha h rest _ (inv_step sha1 mc hsha h s hi op)

theorem inv_init (sha1 : Bytes → Bytes) (mc : Bytes → McRes) (h : Bytes) (hh : h.length = 20) :
    Inv sha1 mc h (init h) :=
  ⟨wf_init h hh, rfl, fun hc => by simp [init] at hc⟩

/-- for EVERY sequence of votes, resizes, requests and metadata blocks (any order,
    duplication, sizes, indexes, contents) applied to a torrent added by info-hash `h`:
    if the torrent is complete, SHA-1 of its Info is `h` and MetadataComplete accepted it -/
theorem C12_authentic_run (sha1 : Bytes → Bytes) (mc : Bytes → McRes)
    (hsha : ∀ x, (sha1 x).length = 20) (h : Bytes) (hh : h.length = 20) (ops : List Op) :
    (run sha1 mc (init h) ops).complete = true →
    sha1 (run sha1 mc (init h) ops).info = h ∧ mc (run sha1 mc (init h) ops).info = .ok :=
  (inv_run sha1 mc hsha h ops _ (inv_init sha1 mc h hh)).2.2

/-- and no operation of any such sequence panics -/
theorem C12_no_panic_run (sha1 : Bytes → Bytes) (mc : Bytes → McRes)
    (hsha : ∀ x, (sha1 x).length = 20) (hmc : ∀ x, mc x ≠ .panic) (h : Bytes) (hh : h.length = 20)
    (ops : List Op) (op : Op) :
    (step sha1 mc (run sha1 mc (init h) ops) op).2 ≠ .panic := by
  have hw := (inv_run sha1 mc hsha h ops _ (inv_init sha1 mc h hh)).1
  cases op with
  | vote sz => exact (vote_keeps _ sz).2.2.2
  | resize sz => exact (resize_keeps _ sz).2.2
  | request g ps => exact (request_keeps _ g ps).2.2
  | got i sz d => exact C12_no_panic sha1 mc _ hw hsha hmc i sz d

/-- a block is copied only if `size = |Info|`, `index < chunks` and
    `|data| = 16384 ∨ index·16384 + |data| = |Info|`; the copy keeps `|Info|` and touches
    nothing outside `[index·16384, index·16384 + |data|)`; a refused block changes nothing -/
theorem C12_block_valid (sha1 : Bytes → Bytes) (mc : Bytes → McRes) (s : MState) (hs : WF s)
    (hsha : ∀ x, (sha1 x).length = 20) (index size : UInt32) (data : Bytes) :
    let r := gotMetadata sha1 mc s index size data
    ((r.2 = .stored ∨ r.2 = .eMismatch ∨ r.2 = .eParse ∨ r.2 = .done ∨ r.2 = .panic) →
        size.toNat = s.info.length ∧ index.toNat < s.requested.length ∧
        (data.length = 16384 ∨ index.toNat * 16384 + data.length = s.info.length)) ∧
    ((r.2 = .stored ∨ r.2 = .done) →
        r.1.info.length = s.info.length ∧
        ∀ j, (j < index.toNat * 16384 ∨ index.toNat * 16384 + data.length ≤ j) →
          r.1.info[j]? = s.info[j]?) ∧
    ((r.2 = .eComplete ∨ r.2 = .eSize ∨ r.2 = .eBeyond ∨ r.2 = .eLength ∨ r.2 = .dup) → r.1 = s) := by
  intro r
  have := got_cases sha1 mc s hs hsha index size data
  simp only at this
  have hcopy : ∀ (hle : index.toNat * 16384 ≤ s.info.length),
      (copyAt s.info (index.toNat * 16384) data).length = s.info.length ∧
      ∀ j, (j < index.toNat * 16384 ∨ index.toNat * 16384 + data.length ≤ j) →
        (copyAt s.info (index.toNat * 16384) data)[j]? = s.info[j]? := by
    intro hle
    refine ⟨copyAt_length _ _ _ hle, fun j hj => ?_⟩
    rw [copyAt_get _ _ _ hle]
    have : ¬ (index.toNat * 16384 ≤ j ∧
        j < index.toNat * 16384 + min data.length (s.info.length - index.toNat * 16384)) := by omega
    simp [this]
  rcases this with h | h | h | h | h | h | h | h | h | h
  all_goals (
    have h1 := h.1
    refine ⟨?_, ?_, ?_⟩
    · intro ht
      first
        | exact ⟨h.2.1.2.1, h.2.1.2.2.1, h.2.1.2.2.2.1⟩
        | (exfalso; rw [show r.2 = _ from h1] at ht; simp at ht)
    · intro ht
      first
        | (rw [show r.1 = _ from h.2.2.1]; exact hcopy h.2.1.2.2.2.2.2)
        | (exfalso; rw [show r.2 = _ from h1] at ht; simp at ht)
    · intro ht
      first
        | exact h.2.1
        | (exfalso; rw [show r.2 = _ from h1] at ht; simp at ht))

/-- on hash or parse failure the buffer, the bitmap and the request table are reset
    together; only the votes (and the hash) survive a poisoned round -/
theorem C12_reset_on_mismatch (sha1 : Bytes → Bytes) (mc : Bytes → McRes) (s : MState) (hs : WF s)
    (hsha : ∀ x, (sha1 x).length = 20) (index size : UInt32) (data : Bytes) :
    let r := gotMetadata sha1 mc s index size data
    (r.2 = .eMismatch ∨ r.2 = .eParse) →
      r.1.info = [] ∧ r.1.bitmap = [] ∧ r.1.requested = [] ∧ r.1.complete = false ∧
      r.1.votes = s.votes ∧ r.1.hash = s.hash := by
  intro r ht
  have := got_cases sha1 mc s hs hsha index size data
  simp only at this
  rcases this with h | h | h | h | h | h | h | h | h | h
  all_goals first
    | (exfalso; rw [show r.2 = _ from h.1] at ht; simp at ht; done)
    | (rw [show r.1 = _ from h.2.2.1]; simp [reset, h.2.1.1])

/-- the guard as originally written (`int(index) > chunks`) lets `index == chunks` through:
    with a 16 KiB payload and a size that is not a multiple of 16 KiB the slice expression
    `t.Info[index*16*1024:]` is out of range (a panic in the torrent's event loop) -/
theorem C12_unrepaired_guard_panics :
    let s : MState := { hash := List.replicate 20 0, info := [0], bitmap := [], requested := [0],
                        votes := [(1, 1)], complete := false }
    WF s ∧ (gotMetadataG false (fun _ => List.replicate 20 0) (fun _ => .ok) s 1 1
              (List.replicate 16384 0)).2 = .panic := by
  refine ⟨⟨by decide, fun _ => by decide⟩, ?_⟩
  decide +kernel

/-! ### completion -/

/-- the buffer agrees with the authentic dictionary `ti` on every block whose bit is set -/
def Agree (ti info : Bytes) (bm : List Nat) : Prop :=
  ∀ j, j < ti.length → (j / 16384) ∈ bm → info[j]? = ti[j]?

/-- an honest round in progress: right size, only authentic blocks in the buffer, and
    at least one block still missing -/
def Round (sha1 : Bytes → Bytes) (ti : Bytes) (s : MState) : Prop :=
  s.complete = false ∧ s.hash = sha1 ti ∧ s.info.length = ti.length ∧
  s.requested.length = nChunks ti.length ∧ Agree ti s.info s.bitmap ∧
  ∃ i, i < nChunks ti.length ∧ i ∉ s.bitmap

def Finished (ti : Bytes) (s : MState) : Prop := s.complete = true ∧ s.info = ti

theorem agree_full {ti info : Bytes} {bm : List Nat} (ha : Agree ti info bm)
    (hl : info.length = ti.length) (hall : allSet bm (nChunks ti.length) = true) : info = ti := by
  apply List.ext_getElem?
  intro j
  by_cases hj : j < ti.length
  · apply ha j hj
    rw [allSet_iff] at hall
    apply hall
    unfold nChunks chunk
    omega
  · rw [List.getElem?_eq_none (by omega), List.getElem?_eq_none (by omega)]

theorem agree_copy {ti info : Bytes} {bm : List Nat} {i : Nat} (ha : Agree ti info bm)
    (hl : info.length = ti.length) (hi : i * 16384 ≤ ti.length) :
    Agree ti (copyAt info (i * 16384) ((ti.drop (i * 16384)).take 16384)) (i :: bm) := by
  intro j hj hm
  rw [copyAt_get _ _ _ (by omega)]
  simp only [List.length_take, List.length_drop]
  by_cases hb : j / 16384 = i
  · have : i * 16384 ≤ j ∧
        j < i * 16384 + min (min 16384 (ti.length - i * 16384)) (info.length - i * 16384) := by omega
    simp only [this, and_self, if_true, List.getElem?_take, List.getElem?_drop]
    have h1 : j - i * 16384 < 16384 := by omega
    simp only [h1, if_true]
    congr 1
    omega
  · have hm' : j / 16384 ∈ bm := by
      simp only [List.mem_cons] at hm
      rcases hm with h | h
      · exact absurd h hb
      · exact h
    have : ¬ (i * 16384 ≤ j ∧
        j < i * 16384 + min (min 16384 (ti.length - i * 16384)) (info.length - i * 16384)) := by omega
    simp only [this, if_false]
    exact ha j hj hm'

theorem ofNat_toNat {n : Nat} (h : n ≤ maxSize) : (UInt32.ofNat n).toNat = n := by
  rw [UInt32.toNat_ofNat']; unfold maxSize at h; omega

/-- one honest block in an honest round: the round ends in completion, or goes on with
    that block (and everything that was there) present -/
theorem honest_step (sha1 : Bytes → Bytes) (mc : Bytes → McRes) (ti : Bytes)
    (hsha : ∀ x, (sha1 x).length = 20) (hmc : mc ti = .ok) (hmax : ti.length ≤ maxSize)
    (s : MState) (hr : Round sha1 ti s) (i : Nat) (hi : i < nChunks ti.length) :
    Finished ti (step sha1 mc s (honest ti i)).1 ∨
    (Round sha1 ti (step sha1 mc s (honest ti i)).1 ∧
      ∀ k, k ∉ (step sha1 mc s (honest ti i)).1.bitmap → k ∉ s.bitmap ∧ k ≠ i) := by
  obtain ⟨hc, hh, hl, hq, ha, hmiss⟩ := hr
  have hw : WF s := ⟨by rw [hh]; exact hsha ti, fun _ => ⟨by omega, by rw [hq, hl]⟩⟩
  have hi8 : i ≤ maxSize := by have := nChunks_le hmax; unfold maxSize; omega
  have hile : i * 16384 ≤ ti.length := by unfold nChunks chunk at hi; omega
  simp only [step, honest]
  have hcases := got_cases sha1 mc s hw hsha (UInt32.ofNat i) (UInt32.ofNat ti.length)
    ((ti.drop (i * chunk)).take chunk)
  simp only [ofNat_toNat hi8, ofNat_toNat hmax, chunk] at hcases
  simp only [chunk]
  have hdl : ((ti.drop (i * 16384)).take 16384).length = min 16384 (ti.length - i * 16384) := by
    simp [List.length_take, List.length_drop]
  rcases hcases with c | c | c | c | c | c | c | c | c | c
  · rw [c.2.2] at hc; simp at hc
  · exact absurd hl.symm c.2.2.2
  · have := c.2.2.2; omega
  · have := c.2.2.2; rw [hdl] at this; omega
  · right
    rw [c.2.1]
    refine ⟨⟨hc, hh, hl, hq, ha, hmiss⟩, fun k hk => ⟨hk, ?_⟩⟩
    intro hki; subst hki; exact hk c.2.2.2
  · right
    rw [c.2.2.1]
    refine ⟨⟨hc, hh, ?_, hq, agree_copy ha hl hile, ?_⟩, ?_⟩
    · simp only [copyAt_length _ _ _ (show i * 16384 ≤ s.info.length by omega)]; exact hl
    · have hns := c.2.2.2
      rw [hq] at hns
      apply Classical.byContradiction
      intro hne
      have : allSet (i :: s.bitmap) (nChunks ti.length) = true := by
        rw [allSet_iff]
        intro k hk
        apply Classical.byContradiction
        intro hk'
        exact hne ⟨k, hk, hk'⟩
      rw [this] at hns; simp at hns
    · intro k hk
      simp only [List.mem_cons, not_or] at hk
      exact ⟨hk.2, hk.1⟩
  · exfalso
    have hall := c.2.2.2.1
    rw [hq] at hall
    have hlen : (copyAt s.info (i * 16384) ((ti.drop (i * 16384)).take 16384)).length = ti.length := by
      rw [copyAt_length _ _ _ (by omega)]; exact hl
    have := agree_full (agree_copy ha hl hile) hlen hall
    exact c.2.2.2.2 (by rw [this, hh])
  · exfalso
    have hall := c.2.2.2.1
    rw [hq] at hall
    have hlen : (copyAt s.info (i * 16384) ((ti.drop (i * 16384)).take 16384)).length = ti.length := by
      rw [copyAt_length _ _ _ (by omega)]; exact hl
    have := agree_full (agree_copy ha hl hile) hlen hall
    have h2 := c.2.2.2.2.2
    rw [this, hmc] at h2; simp at h2
  · exfalso
    have hall := c.2.2.2.1
    rw [hq] at hall
    have hlen : (copyAt s.info (i * 16384) ((ti.drop (i * 16384)).take 16384)).length = ti.length := by
      rw [copyAt_length _ _ _ (by omega)]; exact hl
    have := agree_full (agree_copy ha hl hile) hlen hall
    have h2 := c.2.2.2.2.2
    rw [this, hmc] at h2; simp at h2
  · left
    have hall := c.2.2.2.1
    rw [hq] at hall
    have hlen : (copyAt s.info (i * 16384) ((ti.drop (i * 16384)).take 16384)).length = ti.length := by
      rw [copyAt_length _ _ _ (by omega)]; exact hl
    have := agree_full (agree_copy ha hl hile) hlen hall
    rw [c.2.2.1]
    exact ⟨rfl, this⟩

theorem honest_run (sha1 : Bytes → Bytes) (mc : Bytes → McRes) (ti : Bytes)
    (hsha : ∀ x, (sha1 x).length = 20) (hmc : mc ti = .ok) (hmax : ti.length ≤ maxSize) :
    ∀ (idxs : List Nat) (s : MState), (∀ i ∈ idxs, i < nChunks ti.length) →
      (Finished ti s ∨ (Round sha1 ti s ∧ ∀ k, k < nChunks ti.length → k ∉ s.bitmap → k ∈ idxs)) →
      Finished ti (run sha1 mc s (idxs.map (honest ti)))
  | [], s, _, hp => by
    rcases hp with hf | ⟨hr, hcov⟩
    · exact hf
    · obtain ⟨k, hk, hk'⟩ := hr.2.2.2.2.2
      exact absurd (hcov k hk hk') (by simp)
  | i :: rest, s, hrange, hp => by
    simp only [List.map, run, List.foldl]
    apply honest_run sha1 mc ti hsha hmc hmax rest _ (fun j hj => hrange j (by simp [hj]))
    rcases hp with hf | ⟨hr, hcov⟩
    · left
      rw [C12_complete_frozen sha1 mc s hf.1]; exact hf
    · rcases honest_step sha1 mc ti hsha hmc hmax s hr i (hrange i (by simp)) with hf | ⟨hr', hsub⟩
      · exact Or.inl hf
      · right
        refine ⟨hr', fun k hk hk' => ?_⟩
        obtain ⟨h1, h2⟩ := hsub k hk'
        have := hcov k hk h1
        simp only [List.mem_cons] at this
        rcases this with h | h
        · exact absurd h h2
        · exact h

/-- if the buffer holds only authentic blocks (in particular: if it is empty), one honest
    block for every missing index — in any order, with any duplicates — completes the torrent
    with exactly the authentic dictionary -/
theorem C12_completes_honest_buffer (sha1 : Bytes → Bytes) (mc : Bytes → McRes) (ti : Bytes)
    (hsha : ∀ x, (sha1 x).length = 20) (hmc : mc ti = .ok) (hmax : ti.length ≤ maxSize)
    (s : MState) (hr : Round sha1 ti s) (idxs : List Nat)
    (hrange : ∀ i ∈ idxs, i < nChunks ti.length)
    (hcov : ∀ k, k < nChunks ti.length → k ∉ s.bitmap → k ∈ idxs) :
    Finished ti (run sha1 mc s (idxs.map (honest ti))) :=
  honest_run sha1 mc ti hsha hmc hmax idxs s hrange (Or.inr ⟨hr, hcov⟩)

/-- the partial completion theorem: the size guess equals the true size and the honest
    blocks — one for every index, any order, any duplicates — are delivered in a round
    that starts with an EMPTY buffer (what a reset followed by requestMetadata leaves) -/
theorem C12_completes_partial (sha1 : Bytes → Bytes) (mc : Bytes → McRes) (ti : Bytes)
    (hsha : ∀ x, (sha1 x).length = 20) (hmc : mc ti = .ok)
    (hpos : 0 < ti.length) (hmax : ti.length ≤ maxSize) (s : MState)
    (hc : s.complete = false) (hh : s.hash = sha1 ti) (hl : s.info.length = ti.length)
    (hq : s.requested.length = nChunks ti.length) (hempty : s.bitmap = [])
    (idxs : List Nat) (hrange : ∀ i ∈ idxs, i < nChunks ti.length)
    (hcov : ∀ k, k < nChunks ti.length → k ∈ idxs) :
    Finished ti (run sha1 mc s (idxs.map (honest ti))) := by
  apply C12_completes_honest_buffer sha1 mc ti hsha hmc hmax s ?_ idxs hrange (fun k hk _ => hcov k hk)
  refine ⟨hc, hh, hl, hq, ?_, ⟨0, ?_, ?_⟩⟩
  · intro j _ hm; rw [hempty] at hm; simp at hm
  · unfold nChunks chunk; omega
  · rw [hempty]; simp

/-! ### the exact conditions of completion (the two recorded findings are the complement) -/

/-- a forged byte survives in the buffer: some held block differs from the authentic one -/
def Poisoned (ti info : Bytes) (bm : List Nat) : Prop :=
  ∃ j, j < ti.length ∧ (j / 16384) ∈ bm ∧ info[j]? ≠ ti[j]?

/-- an honest round over a poisoned buffer of the right size -/
def PRound (sha1 : Bytes → Bytes) (ti : Bytes) (s : MState) : Prop :=
  s.complete = false ∧ s.hash = sha1 ti ∧ s.info.length = ti.length ∧
  s.requested.length = nChunks ti.length ∧ Poisoned ti s.info s.bitmap ∧
  ∃ i, i < nChunks ti.length ∧ i ∉ s.bitmap

/-- what a failed round leaves: everything reset, not complete -/
def Dead (sha1 : Bytes → Bytes) (ti : Bytes) (s : MState) : Prop :=
  s.complete = false ∧ s.hash = sha1 ti ∧ s.info = [] ∧ s.bitmap = [] ∧ s.requested = []

theorem dead_step (sha1 : Bytes → Bytes) (mc : Bytes → McRes) (ti : Bytes)
    (hpos : 0 < ti.length) (hmax : ti.length ≤ maxSize) (s : MState) (hd : Dead sha1 ti s) (i : Nat) :
    (step sha1 mc s (honest ti i)).1 = s := by
  obtain ⟨hc, -, hi, -, -⟩ := hd
  simp only [step, honest, gotMetadata, gotMetadataG, hc, hi, ofNat_toNat hmax]
  have : ¬ ti.length = 0 := by omega
  simp [this]

theorem poisoned_step (sha1 : Bytes → Bytes) (mc : Bytes → McRes) (ti : Bytes)
    (hsha : ∀ x, (sha1 x).length = 20) (hinj : ∀ x, sha1 x = sha1 ti → x = ti)
    (hmax : ti.length ≤ maxSize) (s : MState) (hr : PRound sha1 ti s) (i : Nat)
    (hi : i < nChunks ti.length) :
    Dead sha1 ti (step sha1 mc s (honest ti i)).1 ∨
    (PRound sha1 ti (step sha1 mc s (honest ti i)).1 ∧
      ∀ k, k ∉ (step sha1 mc s (honest ti i)).1.bitmap → k ∉ s.bitmap ∧ k ≠ i) := by
  obtain ⟨hc, hh, hl, hq, hp, hmiss⟩ := hr
  have hw : WF s := ⟨by rw [hh]; exact hsha ti, fun _ => ⟨by omega, by rw [hq, hl]⟩⟩
  have hi8 : i ≤ maxSize := by have := nChunks_le hmax; unfold maxSize; omega
  have hile : i * 16384 ≤ ti.length := by unfold nChunks chunk at hi; omega
  simp only [step, honest]
  have hcases := got_cases sha1 mc s hw hsha (UInt32.ofNat i) (UInt32.ofNat ti.length)
    ((ti.drop (i * chunk)).take chunk)
  simp only [ofNat_toNat hi8, ofNat_toNat hmax, chunk] at hcases
  simp only [chunk]
  -- a surviving forged byte is untouched by a block stored elsewhere
  have hkeep : i ∉ s.bitmap →
      Poisoned ti (copyAt s.info (i * 16384) ((ti.drop (i * 16384)).take 16384)) (i :: s.bitmap) := by
    intro hni
    obtain ⟨j, hj, hjm, hjne⟩ := hp
    refine ⟨j, hj, by simp [hjm], ?_⟩
    rw [copyAt_get _ _ _ (by omega)]
    have hji : j / 16384 ≠ i := fun h => hni (h ▸ hjm)
    have : ¬ (i * 16384 ≤ j ∧ j < i * 16384 +
        min ((ti.drop (i * 16384)).take 16384).length (s.info.length - i * 16384)) := by
      simp only [List.length_take, List.length_drop]; omega
    simp only [this, if_false]
    exact hjne
  have hstill : PRound sha1 ti s := ⟨hc, hh, hl, hq, hp, hmiss⟩
  have hsame : ∀ k, k ∉ s.bitmap → i ∈ s.bitmap → k ∉ s.bitmap ∧ k ≠ i :=
    fun k hk hin => ⟨hk, fun h => hk (h ▸ hin)⟩
  have hnew : ∀ (hni : i ∉ s.bitmap)
      (hns : allSet (i :: s.bitmap) s.requested.length = false),
      PRound sha1 ti { s with info := copyAt s.info (i * 16384) ((ti.drop (i * 16384)).take 16384),
                              bitmap := i :: s.bitmap } := by
    intro hni hns
    refine ⟨hc, hh, ?_, hq, hkeep hni, ?_⟩
    · simp only [copyAt_length _ _ _ (show i * 16384 ≤ s.info.length by omega)]; exact hl
    · rw [hq] at hns
      apply Classical.byContradiction
      intro hne
      have : allSet (i :: s.bitmap) (nChunks ti.length) = true := by
        rw [allSet_iff]
        intro k hk
        apply Classical.byContradiction
        intro hk'
        exact hne ⟨k, hk, hk'⟩
      rw [this] at hns; simp at hns
  have hdead : Dead sha1 ti (reset { s with info := copyAt s.info (i * 16384) ((ti.drop (i * 16384)).take 16384),
                                            bitmap := i :: s.bitmap }) :=
    ⟨hc, hh, rfl, rfl, rfl⟩
  rcases hcases with c | c | c | c | c | c | c | c | c | c
  · rw [c.2.2] at hc; simp at hc
  · exact absurd hl.symm c.2.2.2
  · have := c.2.2.2; omega
  · have := c.2.2.2
    have hdl : ((ti.drop (i * 16384)).take 16384).length = min 16384 (ti.length - i * 16384) := by
      simp [List.length_take, List.length_drop]
    rw [hdl] at this; omega
  · right; rw [c.2.1]; exact ⟨hstill, fun k hk => hsame k hk c.2.2.2⟩
  · right; rw [c.2.2.1]
    refine ⟨hnew c.2.1.2.2.2.2.1 c.2.2.2, fun k hk => ?_⟩
    simp only [List.mem_cons, not_or] at hk
    exact ⟨hk.2, hk.1⟩
  · left; rw [c.2.2.1]; exact hdead
  · left; rw [c.2.2.1]; exact hdead
  · -- MetadataComplete panicked: the poisoned buffer is still there (the hash matched: impossible)
    exfalso
    have h6 := c.2.2.2.2.1
    rw [hh] at h6
    have heq := hinj _ h6
    obtain ⟨j, hj, hjm, hjne⟩ := hkeep c.2.1.2.2.2.2.1
    exact hjne (by rw [heq])
  · exfalso
    have h6 := c.2.2.2.2.1
    rw [hh] at h6
    have heq := hinj _ h6
    obtain ⟨j, hj, hjm, hjne⟩ := hkeep c.2.1.2.2.2.2.1
    exact hjne (by rw [heq])

theorem poisoned_run (sha1 : Bytes → Bytes) (mc : Bytes → McRes) (ti : Bytes)
    (hsha : ∀ x, (sha1 x).length = 20) (hinj : ∀ x, sha1 x = sha1 ti → x = ti)
    (hpos : 0 < ti.length) (hmax : ti.length ≤ maxSize) :
    ∀ (idxs : List Nat) (s : MState), (∀ i ∈ idxs, i < nChunks ti.length) →
      (Dead sha1 ti s ∨ (PRound sha1 ti s ∧ ∀ k, k < nChunks ti.length → k ∉ s.bitmap → k ∈ idxs)) →
      Dead sha1 ti (run sha1 mc s (idxs.map (honest ti)))
  | [], s, _, hp => by
    rcases hp with hd | ⟨hr, hcov⟩
    · exact hd
    · obtain ⟨k, hk, hk'⟩ := hr.2.2.2.2.2
      exact absurd (hcov k hk hk') (by simp)
  | i :: rest, s, hrange, hp => by
    simp only [List.map, run, List.foldl]
    apply poisoned_run sha1 mc ti hsha hinj hpos hmax rest _ (fun j hj => hrange j (by simp [hj]))
    rcases hp with hd | ⟨hr, hcov⟩
    · left; rw [dead_step sha1 mc ti hpos hmax s hd i]; exact hd
    · rcases poisoned_step sha1 mc ti hsha hinj hmax s hr i (hrange i (by simp)) with hd | ⟨hr', hsub⟩
      · exact Or.inl hd
      · right
        refine ⟨hr', fun k hk hk' => ?_⟩
        obtain ⟨h1, h2⟩ := hsub k hk'
        have := hcov k hk h1
        simp only [List.mem_cons] at this
        rcases this with h | h
        · exact absurd h h2
        · exact h

/-- COMPLETION, EXACTLY.  In a state whose buffer has the honest size (the honest size is the
    guess and the buffer was allocated), one honest round — an honest block for every index,
    any order, any duplicates — completes the download IF AND ONLY IF no forged block
    survives in the buffer at the start of the round (every held block is authentic).
    Hypothesis on the hash: nothing but the authentic dictionary hashes to the info-hash. -/
theorem C12_completes_iff (sha1 : Bytes → Bytes) (mc : Bytes → McRes) (ti : Bytes)
    (hsha : ∀ x, (sha1 x).length = 20) (hinj : ∀ x, sha1 x = sha1 ti → x = ti) (hmc : mc ti = .ok)
    (hpos : 0 < ti.length) (hmax : ti.length ≤ maxSize) (s : MState)
    (hc : s.complete = false) (hh : s.hash = sha1 ti) (hl : s.info.length = ti.length)
    (hq : s.requested.length = nChunks ti.length)
    (hmiss : ∃ i, i < nChunks ti.length ∧ i ∉ s.bitmap)
    (idxs : List Nat) (hrange : ∀ i ∈ idxs, i < nChunks ti.length)
    (hcov : ∀ k, k < nChunks ti.length → k ∈ idxs) :
    Finished ti (run sha1 mc s (idxs.map (honest ti))) ↔ Agree ti s.info s.bitmap := by
  constructor
  · intro hf
    apply Classical.byContradiction
    intro hna
    have hp : Poisoned ti s.info s.bitmap := by
      apply Classical.byContradiction
      intro hnp
      apply hna
      intro j hj hm
      apply Classical.byContradiction
      intro hne
      exact hnp ⟨j, hj, hm, hne⟩
    have hd := poisoned_run sha1 mc ti hsha hinj hpos hmax idxs s hrange
      (Or.inr ⟨⟨hc, hh, hl, hq, hp, hmiss⟩, fun k hk _ => hcov k hk⟩)
    have hfc := hf.1
    rw [hd.1] at hfc
    simp at hfc
  · intro ha
    exact C12_completes_honest_buffer sha1 mc ti hsha hmc hmax s ⟨hc, hh, hl, hq, ha, hmiss⟩ idxs
      hrange (fun k hk _ => hcov k hk)

/-- … and when a forged block did survive, the round ends in a reset, and a SECOND honest
    round after the next requestMetadata (honest size = guess) completes -/
theorem C12_second_round_completes (sha1 : Bytes → Bytes) (mc : Bytes → McRes) (ti : Bytes)
    (hsha : ∀ x, (sha1 x).length = 20) (hinj : ∀ x, sha1 x = sha1 ti → x = ti) (hmc : mc ti = .ok)
    (hpos : 0 < ti.length) (hmax : ti.length ≤ maxSize) (s : MState)
    (hr : PRound sha1 ti s)
    (idxs : List Nat) (hrange : ∀ i ∈ idxs, i < nChunks ti.length)
    (hcov : ∀ k, k < nChunks ti.length → k ∈ idxs)
    (picks : List Nat) (idxs2 : List Nat) (hrange2 : ∀ i ∈ idxs2, i < nChunks ti.length)
    (hcov2 : ∀ k, k < nChunks ti.length → k ∈ idxs2) :
    let s1 := run sha1 mc s (idxs.map (honest ti))
    Dead sha1 ti s1 ∧
    Finished ti (run sha1 mc (requestMetadata s1 ti.length picks).1 (idxs2.map (honest ti))) := by
  intro s1
  have hd : Dead sha1 ti s1 := poisoned_run sha1 mc ti hsha hinj hpos hmax idxs s hrange
    (Or.inr ⟨hr, fun k hk _ => hcov k hk⟩)
  refine ⟨hd, ?_⟩
  obtain ⟨dc, dh, di, db, dq⟩ := hd
  have hn0 : ¬ ti.length = 0 := by omega
  have hsz : (UInt32.ofNat ti.length).toNat = ti.length := ofNat_toNat hmax
  have hres : resizeMetadata s1 (UInt32.ofNat ti.length) =
      ({ s1 with info := List.replicate ti.length 0, bitmap := [],
                 requested := List.replicate (nChunks ti.length) 0 }, .ok) := by
    unfold resizeMetadata
    rw [if_neg (by rw [dc]; simp), if_neg (by rw [hsz]; omega), if_pos (by rw [di, hsz]; simpa using Ne.symm hn0),
        resize_requested (UInt32.ofNat ti.length) (by rw [hsz]; exact hmax), hsz]
  have hreq : requestMetadata s1 ti.length picks =
      ({ s1 with info := List.replicate ti.length 0, bitmap := [],
                 requested := picks.foldl bumpReq (List.replicate (nChunks ti.length) 0) }, .ok) := by
    unfold requestMetadata
    rw [if_neg (by rw [dc]; simp), if_neg hn0, if_pos (by rw [di]; simpa using Ne.symm hn0), hres]
    simp
  rw [hreq]
  exact C12_completes_partial sha1 mc ti hsha hmc hpos hmax
    { s1 with info := List.replicate ti.length 0, bitmap := [],
              requested := picks.foldl bumpReq (List.replicate (nChunks ti.length) 0) }
    dc dh (by simp) (by simp [foldl_bumpReq_length]) rfl idxs2 hrange2 hcov2

/-- … and when the buffer does NOT have the honest size (a hostile size is the guess, or
    nothing was requested since a reset), every honest block is refused and nothing changes -/
theorem C12_wrong_size_refuses (sha1 : Bytes → Bytes) (mc : Bytes → McRes) (ti : Bytes)
    (hmax : ti.length ≤ maxSize) (s : MState) (hc : s.complete = false)
    (hsmax : s.info.length ≤ maxSize) (hne : s.info.length ≠ ti.length) :
    ∀ (idxs : List Nat), run sha1 mc s (idxs.map (honest ti)) = s
  | [] => rfl
  | i :: rest => by
    simp only [List.map, run, List.foldl]
    have h1 : (step sha1 mc s (honest ti i)).1 = s := by
      simp only [step, honest, gotMetadata, gotMetadataG, hc, ofNat_toNat hmax]
      have : s.info.length % 4294967296 = s.info.length := by unfold maxSize at hsmax; omega
      simp [this, Ne.symm hne]
    rw [h1]
    exact C12_wrong_size_refuses sha1 mc ti hmax s hc hsmax hne rest

/-- the full statement of the property's last clause: one honest delivery per index after
    the last corruption, WHATEVER the buffer holds when the honest blocks start -/
def C12_completes_full : Prop :=
  ∀ (sha1 : Bytes → Bytes) (mc : Bytes → McRes) (ti : Bytes),
    (∀ x, (sha1 x).length = 20) → mc ti = .ok → 0 < ti.length → ti.length ≤ maxSize →
    ∀ (s : MState), s.complete = false → s.hash = sha1 ti → s.info.length = ti.length →
      s.requested.length = nChunks ti.length → (∀ i ∈ s.bitmap, i < nChunks ti.length) →
      ¬ allSet s.bitmap (nChunks ti.length) = true →
      ∀ (idxs : List Nat), (∀ i ∈ idxs, i < nChunks ti.length) →
        (∀ k, k < nChunks ti.length → k ∈ idxs) →
        Finished ti (run sha1 mc s (idxs.map (honest ti)))

def wTi : Bytes := List.replicate 16385 1
def wSha (x : Bytes) : Bytes := List.replicate 20 (x.headD 0)
def wS : MState :=
  { hash := List.replicate 20 1, info := List.replicate 16385 0, bitmap := [0],
    requested := [0, 0], votes := [(16385, 1)], complete := false }

theorem wTi_len : wTi.length = 16385 := List.length_replicate ..
theorem wTi_chunks : nChunks wTi.length = 2 := by rw [wTi_len]; rfl

theorem witness_not_finished :
    ¬ Finished wTi (run wSha (fun _ => .ok) wS ([0, 1].map (honest wTi))) := by
  unfold Finished
  decide +kernel

/-- refutation.  Witness: a 16385-byte dictionary (two blocks); a forged block 0 is already
    in the buffer (bit 0 set).  The honest block 0 is then a "duplicate" and is dropped,
    the honest block 1 completes the bitmap, the hash does not match, everything is reset:
    one honest delivery per index after the last corruption does not complete. -/
theorem C12_completes_full_refuted : ¬ C12_completes_full := by
  intro h
  apply witness_not_finished
  apply h wSha (fun _ => .ok) wTi (fun x => List.length_replicate ..) rfl
    (by rw [wTi_len]; omega) (by rw [wTi_len]; unfold maxSize; omega) wS rfl
    (by decide +kernel) (by rw [wTi_len]; exact List.length_replicate ..)
    (by rw [wTi_chunks]; rfl) (by rw [wTi_chunks]; decide) (by rw [wTi_chunks]; decide)
    [0, 1] (by rw [wTi_chunks]; decide)
  rw [wTi_chunks]
  intro k hk
  have : k = 0 ∨ k = 1 := by omega
  rcases this with h | h <;> subst h <;> simp

-- non-vacuity of the completion theorems: the same dictionary, from an empty buffer
example : (run wSha (fun _ => .ok)
    { wS with info := List.replicate 16385 0, bitmap := [] } ([1, 0, 1].map (honest wTi))).complete
      = true := by
  decide +kernel

/-! ### byte level: the completed buffer is what ReadTorrent's info decoder consumes -/

/-- Torrent.MetadataComplete over the assembled BYTES: `Meta.decodeBInfo` (the decoder
    `Meta.readTorrentBytes` applies to a file's raw info value) then `Meta.metadataComplete` -/
def mcBytes (info : Bytes) : McRes :=
  match Meta.metadataCompleteBytes info with
  | .ok _ => .ok
  | .err _ => .err
  | .panic _ => .panic

theorem mcBytes_no_panic (info : Bytes) : mcBytes info ≠ .panic := by
  unfold mcBytes
  split
  · simp
  · simp
  · rename_i w h; exact absurd h (Meta.C13_metadataCompleteBytes_total info w)

theorem mcBytes_ok {x : Bytes} (h : mcBytes x = .ok) :
    ∃ bi g, Meta.decodeBInfo x = some bi ∧ Meta.metadataComplete 0 bi = .ok g := by
  unfold mcBytes Meta.metadataCompleteBytes at h
  cases hd : Meta.decodeBInfo x with
  | none => rw [hd] at h; simp at h
  | some bi =>
    rw [hd] at h
    simp only at h
    cases hm : Meta.metadataComplete 0 bi with
    | ok g => exact ⟨bi, g, rfl, hm⟩
    | err e => rw [hm] at h; simp at h
    | panic w => rw [hm] at h; simp at h

/-- no message sequence makes the exchange fault, MetadataComplete over bytes included -/
theorem C12_no_panic_bytes (sha1 : Bytes → Bytes) (hsha : ∀ x, (sha1 x).length = 20)
    (h : Bytes) (hh : h.length = 20) (ops : List Op) (op : Op) :
    (step sha1 mcBytes (run sha1 mcBytes (init h) ops) op).2 ≠ .panic :=
  C12_no_panic_run sha1 mcBytes hsha mcBytes_no_panic h hh ops op

/-- AUTHENTICITY AT BYTE LEVEL.  After ANY sequence of votes, requests and blocks, a torrent
    added by info-hash `h` that is complete holds a buffer whose SHA-1 is `h` — the identity
    of the resulting torrent is the magnet's hash — and that very byte string decodes
    (`decodeBInfo`, the decoder ReadTorrent-over-bytes applies to a file's info value) to a
    dictionary MetadataComplete accepts, with a self-consistent geometry and usable
    file names -/
theorem C12_authentic_bytes (sha1 : Bytes → Bytes) (hsha : ∀ x, (sha1 x).length = 20)
    (h : Bytes) (hh : h.length = 20) (ops : List Op)
    (hc : (run sha1 mcBytes (init h) ops).complete = true) :
    sha1 (run sha1 mcBytes (init h) ops).info = h ∧
    ∃ bi g, Meta.decodeBInfo (run sha1 mcBytes (init h) ops).info = some bi ∧
      Meta.metadataComplete 0 bi = .ok g ∧ g.Valid ∧ g.PathsNonEmpty ∧
      Meta.validComponent g.name = true := by
  obtain ⟨h1, h2⟩ := C12_authentic_run sha1 mcBytes hsha h hh ops hc
  obtain ⟨bi, g, hd, hm⟩ := mcBytes_ok h2
  exact ⟨h1, bi, g, hd, hm, Meta.C13_geometry hm, Meta.C13_paths_nonempty hm,
    (Meta.C13_paths_wellformed hm).1⟩

end Storrent.Metadata
