import Storrent.Lemmas.Handshake
/-
C07 — Handshakes agree and do not depend on TCP segmentation.

Model: Model/Chunked.lean (what a TCP read guarantees), Model/Handshake.lean (the four
handshake functions as programs over the buffer idioms of the Go code, interpreted over
a chunked connection `run` and over the flat stream `runF`).  `run true` is the REPAIRED
code (crypto.readMore truncates to the bytes read); `run false` the code as found.

Observable of a run (`ResF HsResult`): success/failure and its error, info-hash, peer id,
Dht/Fast/Extended, cipher mode, the bytes written, and `rest` = `init ++ unread bytes` of
the connection (per epoch) — what the message layer will read.
-/
namespace Storrent.Props.C07
open Storrent Storrent.Chunked Storrent.Handshake Storrent.Policy

/-- a connection: epochs (causality, see Model/Handshake) of chunk lists -/
abbrev Conn := List Src

/-- its byte streams -/
def flat (c : Conn) : List Bytes := c.map List.flatten

def startSt (c : Conn) : St := ⟨[], c.headD [], c.tail, []⟩
def startF (s : List Bytes) : StF := ⟨s.headD [], s.tail, []⟩

theorem startSt_abs (c : Conn) : (startSt c).abs = startF (flat c) := by
  cases c <;> simp [startSt, startF, flat, St.abs]

/-- the repaired code on a chunked connection; the result is abstracted to the observable -/
def exec (p : Prog HsResult) (c : Conn) : ResF HsResult := (run true p (startSt c)).abs

/-- the flat-stream specification -/
def spec (p : Prog HsResult) (s : List Bytes) : ResF HsResult := runF p (startF s)

/-- the outcome is a function of the byte stream (see `ResF.ambiguous`) -/
def Determinate (p : Prog HsResult) (s : List Bytes) : Prop := spec p s ≠ .ambiguous

/-- every segmentation computes the flat specification -/
theorem C07_refines_flat (p : Prog HsResult) (c : Conn) (h : Determinate p (flat c)) :
    exec p c = spec p (flat c) := by
  unfold exec spec
  rw [← startSt_abs]
  exact run_refines p (startSt c) (by rw [startSt_abs]; exact h)

/-- **Segmentation independence, generic**: two segmentations of the same byte streams give
    the same outcome, values, written bytes and the same `init ++ unread rest`. -/
theorem C07_seg_independent (p : Prog HsResult) (c₁ c₂ : Conn) (hs : flat c₁ = flat c₂)
    (h : Determinate p (flat c₁)) : exec p c₁ = exec p c₂ := by
  rw [C07_refines_flat p c₁ h, C07_refines_flat p c₂ (hs ▸ h), hs]

/-! ### programs that never test `len(buf)` nor search a marker are always determinate -/

inductive NoAmb {α : Type} : Prog α → Prop where
  | ret (a : α) : NoAmb (.ret a)
  | fail (e : HsErr) : NoAmb (.fail e)
  | peek (rm n m) (k : Bytes → Prog α) (h : ∀ b, NoAmb (k b)) : NoAmb (.peek rm n m k)
  | take (rm n m) (k : Bytes → Prog α) (h : ∀ b, NoAmb (k b)) : NoAmb (.take rm n m k)
  | xorAll (ks) (k : Prog α) (h : NoAmb k) : NoAmb (.xorAll ks k)
  | unread (b) (k : Prog α) (h : NoAmb k) : NoAmb (.unread b k)
  | write (b) (k : Prog α) (h : NoAmb k) : NoAmb (.write b k)

theorem runF_noAmb {α : Type} (p : Prog α) (h : NoAmb p) (st : StF) : runF p st ≠ .ambiguous := by
  induction h generalizing st with
  | ret a => simp [runF]
  | fail e => simp [runF]
  | peek rm n m k _ ih => unfold runF; split; exact ih _ _; simp
  | take rm n m k _ ih => unfold runF; split; exact ih _ _; simp
  | xorAll ks k _ ih => unfold runF; exact ih _
  | unread b k _ ih => unfold runF; exact ih _
  | write b k _ ih => unfold runF; exact ih _

theorem clientTail_noAmb (ih : Bytes) (rc4 : Bool) : NoAmb (clientTail ih rc4) := by
  unfold clientTail
  refine .take _ _ _ _ (fun b => ?_)
  split
  · exact .fail _
  · dsimp only
    split
    · exact .fail _
    · exact .ret _

theorem serverTail_noAmb (hashes : List (Bytes × Bytes)) (skey : Option Bytes) (rc4 : Bool)
    (enc : Bytes → Bytes) : NoAmb (serverTail hashes skey rc4 enc) := by
  unfold serverTail
  refine .take _ _ _ _ (fun r => ?_)
  simp only
  split
  · exact .fail _
  · exact .fail _
  · split
    · exact .fail _
    · exact .fail _
    · exact .write _ _ (.take _ _ _ _ (fun _ => .ret _))

theorem plainClient_noAmb (v : Variant) (o : Options) (ih id : Bytes) :
    NoAmb (plainClient v o ih id) := by
  unfold plainClient
  split
  · exact .fail _
  · exact .write _ _ (clientTail_noAmb _ _)

/-- **Plain client**: for all streams and all segmentations, unconditionally. -/
theorem C07_plain_client_seg (v : Variant) (o : Options) (infoHash myid : Bytes)
    (c₁ c₂ : Conn) (hs : flat c₁ = flat c₂) :
    exec (plainClient v o infoHash myid) c₁ = exec (plainClient v o infoHash myid) c₂ :=
  C07_seg_independent _ c₁ c₂ hs (runF_noAmb _ (plainClient_noAmb v o infoHash myid) _)

/-- protocol.ServerHandshake stays out of the MSE code when the stream starts with the
    BitTorrent header, or is too short to tell, or the crypto handshake is not allowed -/
def PlainPath (o : Options) (s : List Bytes) : Prop :=
  (s.headD []).take 20 = header ∨ (s.headD []).length < 20 ∨ o.allowCH = false

theorem serverK_noAmb (v : Variant) (cr : MseCrypto) (o : Options) (x pad : Bytes)
    (hashes : List (Bytes × Bytes)) (b : Bytes) (h : b = header ∨ o.allowCH = false) :
    NoAmb (serverK v cr o x pad hashes b) := by
  unfold serverK
  by_cases hb : b = header
  · simp only [hb, if_true]
    split
    · exact .fail _
    · exact .take _ _ _ _ (fun _ => serverTail_noAmb _ _ _ _)
  · have ha : o.allowCH = false := by
      rcases h with h | h
      · exact absurd h hb
      · exact h
    simp only [hb, if_false, ha, Bool.false_eq_true]
    exact .fail _

theorem server_plain_determinate (v : Variant) (cr : MseCrypto) (o : Options) (x pad : Bytes)
    (hashes : List (Bytes × Bytes)) (s : List Bytes) (hp : PlainPath o s) :
    Determinate (server v cr o x pad hashes) s := by
  unfold Determinate spec server
  unfold runF
  by_cases hlen : 20 ≤ (startF s).rest.length
  · simp only [hlen, if_true]
    apply runF_noAmb
    apply serverK_noAmb
    rcases hp with hp | hp | hp
    · exact Or.inl hp
    · exact absurd hlen (by simp only [startF]; omega)
    · exact Or.inr hp
  · simp only [hlen, if_false]
    intro h; cases h

/-- **Plain server**: for all streams on which protocol.ServerHandshake performs the plain
    handshake and all segmentations. -/
theorem C07_plain_server_seg (v : Variant) (cr : MseCrypto) (o : Options) (x pad : Bytes)
    (hashes : List (Bytes × Bytes)) (c₁ c₂ : Conn) (hs : flat c₁ = flat c₂)
    (hp : PlainPath o (flat c₁)) :
    exec (server v cr o x pad hashes) c₁ = exec (server v cr o x pad hashes) c₂ :=
  C07_seg_independent _ c₁ c₂ hs (server_plain_determinate v cr o x pad hashes _ hp)

/-- **MSE client** (protocol.ClientHandshake with the crypto handshake), for every
    cryptographic instantiation, secret, pad, option set: all segmentations of a stream
    agree provided the stream is determinate, i.e. the encrypted VC does not first occur
    more than 512 bytes after Yb (the MSE bound on PadB). -/
theorem C07_mse_client_seg (cr : MseCrypto) (o : Options) (x pad infoHash myid : Bytes)
    (c₁ c₂ : Conn) (hs : flat c₁ = flat c₂)
    (hd : Determinate (cryptoClient cr o x pad infoHash myid) (flat c₁)) :
    exec (cryptoClient cr o x pad infoHash myid) c₁ = exec (cryptoClient cr o x pad infoHash myid) c₂ :=
  C07_seg_independent _ c₁ c₂ hs hd

/-- **MSE server** (protocol.ServerHandshake on a stream that is not a BitTorrent header):
    all segmentations agree provided the stream is determinate, i.e. HASH('req1', S) does
    not first occur more than 592 bytes after Ya (PadA ≤ 512) and the client sends nothing
    behind IA before the server's answer (same epoch). -/
theorem C07_mse_server_seg (v : Variant) (cr : MseCrypto) (o : Options) (x pad : Bytes)
    (hashes : List (Bytes × Bytes)) (c₁ c₂ : Conn) (hs : flat c₁ = flat c₂)
    (hd : Determinate (server v cr o x pad hashes) (flat c₁)) :
    exec (server v cr o x pad hashes) c₁ = exec (server v cr o x pad hashes) c₂ :=
  C07_seg_independent _ c₁ c₂ hs hd

/-! ### what the hypotheses exclude, and what the repair repaired -/

/-- a degenerate cryptography for witnesses: every hash is 20 sevens, the keystream is 0 -/
def witnessCrypto : MseCrypto where
  pub := fun _ => []
  dh := fun _ _ => []
  trivial := fun _ => false
  hash := fun _ => List.replicate 20 7
  ks := fun _ => #[]

def wHash : Bytes := List.replicate 20 1
def wId : Bytes := List.replicate 20 2
def wOpts : Options := ⟨true, false, false, true, false, false⟩
/-- Ya, HASH('req1',S), HASH('req2',SKEY) xor HASH('req3',S), ENCRYPT(VC, provide = RC4,
    len(PadC) = 0, len(IA) = 68), ENCRYPT(IA = BitTorrent handshake) -/
def wStream : Bytes :=
  List.replicate 96 9 ++ List.replicate 20 7 ++ List.replicate 20 0 ++ vc ++ [0, 0, 0, 2] ++ [0, 0]
    ++ [0, 68] ++ handshakeMsg wHash wId

def isAmb {α : Type} : ResF α → Bool
  | .ambiguous => true
  | _ => false

theorem ne_amb {α : Type} (r : ResF α) (h : isAmb r = false) : r ≠ .ambiguous := by
  intro e; subst e; simp [isAmb] at h

def okOf {α : Type} : Res α → Bool
  | .ok _ _ => true
  | .err _ _ => false

def errOf {α : Type} : Res α → Option HsErr
  | .ok _ _ => none
  | .err e _ => some e

/-- the full statement for the code AS FOUND (`run false`: crypto.readMore leaves the
    unread part of its over-allocated buffer in `buf`) -/
def C07_asfound_full : Prop :=
  ∀ (cr : MseCrypto) (o : Options) (x pad : Bytes) (hashes : List (Bytes × Bytes)) (c₁ c₂ : Conn),
    flat c₁ = flat c₂ → Determinate (server asFound cr o x pad hashes) (flat c₁) →
    okOf (run false (server asFound cr o x pad hashes) (startSt c₁))
      = okOf (run false (server asFound cr o x pad hashes) (startSt c₂))

set_option maxRecDepth 100000 in
/-- … is false: the same client stream succeeds in one piece and fails when it is cut
    after 130 bytes (the zero bytes left in `buf` are taken for data). -/
theorem C07_asfound_refuted : ¬ C07_asfound_full := by
  intro h
  have := h witnessCrypto wOpts [] [] [(wHash, wId)] [[wStream]] [[wStream.take 130, wStream.drop 130]]
    (by decide +kernel) (ne_amb _ (by decide +kernel))
  revert this
  decide +kernel

set_option maxRecDepth 100000 in
/-- the repaired code on the same two segmentations: both succeed -/
example : okOf (run true (server repaired witnessCrypto wOpts [] [] [(wHash, wId)]) (startSt [[wStream]])) = true ∧
    okOf (run true (server repaired witnessCrypto wOpts [] [] [(wHash, wId)])
      (startSt [[wStream.take 130, wStream.drop 130]])) = true := by decide +kernel

/-- the statement of `C07_mse_server_seg` without the determinacy hypothesis -/
def C07_mse_server_full : Prop :=
  ∀ (cr : MseCrypto) (o : Options) (x pad : Bytes) (hashes : List (Bytes × Bytes)) (c₁ c₂ : Conn),
    flat c₁ = flat c₂ →
    exec (server repaired cr o x pad hashes) c₁ = exec (server repaired cr o x pad hashes) c₂

def isOkF {α : Type} : ResF α → Bool
  | .ok _ _ => true
  | _ => false

set_option maxRecDepth 100000 in
/-- … is false also for the repaired code: a client that pipelines one byte behind IA
    without waiting for the server's answer is refused ("extra data after handshake") when
    the byte arrives glued to IA and accepted when it arrives in a read of its own. -/
theorem C07_mse_server_full_refuted : ¬ C07_mse_server_full := by
  intro h
  have := h witnessCrypto wOpts [] [] [(wHash, wId)] [[wStream ++ [5]]] [[wStream, [5]]] (by decide +kernel)
  have h2 := congrArg isOkF this
  revert h2
  decide +kernel

/-! ### non-vacuity: honest streams are determinate -/

set_option maxRecDepth 100000 in
example : Determinate (server repaired witnessCrypto wOpts [] [] [(wHash, wId)]) [wStream] :=
  ne_amb _ (by decide +kernel)

/-! ### delivered exactly once -/

/-- protocol.Reader reads from `io.MultiReader(bytes.NewReader(init), conn)` (or from
    `conn` when `init` is empty): as a chunked source, `init` is one more chunk in front. -/
def multiReader (init : Bytes) (conn : Src) : Src := if init.isEmpty then conn else init :: conn

/-- **Init exactly once**: after a successful handshake — any of the four programs, any
    segmentation — the message layer's reader sees the byte string `init ++ unread rest`,
    and that string does not depend on the segmentation: every byte glued to the handshake
    is delivered exactly once and in order. -/
theorem C07_init_once (p : Prog HsResult) (c₁ c₂ : Conn) (hs : flat c₁ = flat c₂)
    (hd : Determinate p (flat c₁)) (a₁ a₂ : HsResult) (st₁ st₂ : St)
    (h₁ : run true p (startSt c₁) = .ok a₁ st₁) (h₂ : run true p (startSt c₂) = .ok a₂ st₂) :
    a₁ = a₂ ∧
    (multiReader st₁.buf st₁.cur).flatten = (multiReader st₂.buf st₂.cur).flatten ∧
    (multiReader st₁.buf st₁.cur).flatten = st₁.buf ++ st₁.cur.flatten ∧
    st₁.later.map List.flatten = st₂.later.map List.flatten ∧ st₁.out = st₂.out := by
  have := C07_seg_independent p c₁ c₂ hs hd
  unfold exec at this
  rw [h₁, h₂] at this
  simp only [Res.abs, ResF.ok.injEq, St.abs, StF.mk.injEq] at this
  obtain ⟨ha, hr, hl, ho⟩ := this
  have hm : ∀ (b : Bytes) (s : Src), (multiReader b s).flatten = b ++ s.flatten := by
    intro b s
    unfold multiReader
    split
    · rename_i he; simp only [List.isEmpty_iff] at he; simp [he]
    · simp
  exact ⟨ha, by rw [hm, hm]; exact hr, hm _ _, hl, ho⟩

/-! ### agreement (plain handshake) -/

theorem header_length : header.length = 20 := rfl
theorem reserved_length : reserved.length = 8 := rfl

/-- the capability bits storrent announces: DHT, Fast, Extended -/
theorem caps_reserved (t : Bytes) :
    capDht (reserved ++ t) = true ∧ capFast (reserved ++ t) = true ∧ capExt (reserved ++ t) = true := by
  simp [capDht, capFast, capExt, reserved]
  decide


/-- shape facts about `handshakeMsg h id ++ t` with 20-byte `h`, `id` -/
theorem hs_facts (h id t : Bytes) (hh : h.length = 20) (hid : id.length = 20) :
    68 ≤ (handshakeMsg h id ++ t).length ∧
    (handshakeMsg h id ++ t).take 68 = handshakeMsg h id ∧
    (handshakeMsg h id ++ t).drop 68 = t ∧
    (handshakeMsg h id).take 20 = header ∧
    (handshakeMsg h id).drop 20 = reserved ++ (h ++ id) ∧
    (reserved ++ (h ++ id)).drop 8 = h ++ id ∧
    (reserved ++ (h ++ id)).drop 28 = id ∧
    (h ++ id).take 20 = h := by
  have hlen : (handshakeMsg h id).length = 68 := by
    simp [handshakeMsg, header_length, reserved_length, hh, hid]
  refine ⟨by rw [List.length_append]; omega, ?_, ?_, ?_, ?_, ?_, ?_, ?_⟩
  · rw [List.take_append_of_le_length (by omega), List.take_of_length_le (by omega)]
  · rw [← hlen, List.drop_left]
  · simp only [handshakeMsg, List.append_assoc]
    rw [List.take_append_of_le_length (by simp [header_length]),
      List.take_of_length_le (by simp [header_length])]
  · simp only [handshakeMsg, List.append_assoc]
    rw [← header_length, List.drop_left]
  · rw [← reserved_length, List.drop_left]
  · have : 28 = (reserved ++ h).length := by simp [reserved_length, hh]
    rw [this, ← List.append_assoc, List.drop_left]
  · rw [← hh, List.take_left]

/-- the flat run of the plain client: whatever the server's stream is cut into epochs, if
    what arrives up to the client's write is the server's handshake followed by `early` -/
theorem plainClient_spec (v : Variant) (o : Options) (ih idc ids early : Bytes) (s : List Bytes)
    (hih : ih.length = 20) (hids : ids.length = 20) (hpol : (v.policy && o.forceE) = false)
    (hs : s.headD [] ++ s.tail.headD [] = handshakeMsg ih ids ++ early) :
    spec (plainClient v o ih idc) s
      = .ok { hash := ih, id := ids, dht := true, fast := true, ext := true, rc4 := false }
          ⟨early, s.tail.tail, [handshakeMsg ih idc]⟩ := by
  obtain ⟨c1, c2, c3⟩ := caps_reserved (ih ++ ids)
  obtain ⟨f0, f1, f2, f3, f4, f5, f6, f7⟩ := hs_facts ih ids early hih hids
  unfold spec plainClient
  simp only [hpol, Bool.false_eq_true, if_false]
  rw [runF_write]
  simp only [startF, hs]
  unfold clientTail
  rw [runF_take _ _ _ _ _ f0]
  simp only [f1, f2, f3, f4, f5, f6, f7, c1, c2, c3, ne_eq, not_true_eq_false, if_false,
    List.nil_append]
  rw [runF_ret]

/-- the flat run of protocol.ServerHandshake on a plain client's stream: the handshake
    (followed by anything the client pipelines) in the first epoch -/
theorem plainServer_spec (v : Variant) (cr : MseCrypto) (o : Options) (x pad : Bytes)
    (hashes : List (Bytes × Bytes)) (ih idc ids early : Bytes) (s : List Bytes)
    (hih : ih.length = 20) (hidc : idc.length = 20)
    (hfind : findHash ih hashes = .found (ih, ids))
    (hpol : (o.forceCH || (v.policy && o.forceE)) = false)
    (hs : s.headD [] = handshakeMsg ih idc ++ early) :
    spec (server v cr o x pad hashes) s
      = .ok { hash := ih, id := idc, dht := true, fast := true, ext := true, rc4 := false }
          ⟨early ++ s.tail.headD [], s.tail.tail, [handshakeMsg ih ids]⟩ := by
  obtain ⟨c1, c2, c3⟩ := caps_reserved (ih ++ idc)
  obtain ⟨f0, f1, f2, f3, f4, f5, f6, f7⟩ := hs_facts ih idc early hih hidc
  have hlen : (handshakeMsg ih idc).length = 68 := by
    simp [handshakeMsg, header_length, reserved_length, hih, hidc]
  have t20 : (handshakeMsg ih idc ++ early).take 20 = header := by
    rw [List.take_append_of_le_length (by omega), f3]
  have d20 : (handshakeMsg ih idc ++ early).drop 20 = reserved ++ (ih ++ (idc ++ early)) := by
    simp only [handshakeMsg, List.append_assoc]
    rw [← header_length, List.drop_left]
  have t28 : (reserved ++ (ih ++ (idc ++ early))).take 28 = reserved ++ ih := by
    have : 28 = (reserved ++ ih).length := by simp [reserved_length, hih]
    rw [this, ← List.append_assoc, List.take_left]
  have d28 : (reserved ++ (ih ++ (idc ++ early))).drop 28 = idc ++ early := by
    have : 28 = (reserved ++ ih).length := by simp [reserved_length, hih]
    rw [this, ← List.append_assoc, List.drop_left]
  have d8 : (reserved ++ ih).drop 8 = ih := by rw [← reserved_length, List.drop_left]
  have capsr : capDht (reserved ++ ih) = true ∧ capFast (reserved ++ ih) = true ∧ capExt (reserved ++ ih) = true :=
    caps_reserved ih
  unfold spec server
  rw [runF_peek _ _ _ _ _ (by simp only [startF, hs]; omega)]
  simp only [startF, hs, t20]
  unfold serverK
  simp only [if_true, hpol, Bool.false_eq_true, if_false]
  rw [runF_take _ _ _ _ _ (by simp only; omega)]
  simp only [d20]
  unfold serverTail
  rw [runF_take _ _ _ _ _ (by simp only [List.length_append, reserved_length, hih, hidc]; omega)]
  simp only [t28, d28, d8, hfind]
  rw [runF_write]
  simp only
  rw [runF_take _ _ _ _ _ (by simp [hidc])]
  have t20' : (idc ++ early ++ s.tail.headD []).take 20 = idc := by
    rw [List.append_assoc, ← hidc, List.take_left]
  have d20' : (idc ++ early ++ s.tail.headD []).drop 20 = early ++ s.tail.headD [] := by
    rw [List.append_assoc, ← hidc, List.drop_left]
  simp only [t20', d20', capsr.1, capsr.2.1, capsr.2.2, List.nil_append]
  rw [runF_ret]
  rfl

/-- **Agreement (plain handshake)**: a client and a server connected by two byte pipes, each
    direction cut into reads in an arbitrary way (`cc` is what the client reads, `cs` what
    the server reads).  If the pipes carry what the two ends write — the client's handshake
    followed by its early data, the server's handshake followed by its early data — then for
    EVERY segmentation both succeed and agree: same info-hash, each reports the other's id,
    the capability bits are those sent (DHT, Fast, Extended), both are in plaintext mode,
    each wrote exactly its handshake, and each side's `init ++ unread rest` is exactly the
    other side's early data. -/
theorem C07_agree_plain (v : Variant) (cr : MseCrypto) (oc os : Options) (x pad : Bytes)
    (hashes : List (Bytes × Bytes)) (ih idc ids earlyC earlyS : Bytes) (cc cs : Conn)
    (hih : ih.length = 20) (hidc : idc.length = 20) (hids : ids.length = 20)
    (hfind : findHash ih hashes = .found (ih, ids))
    (hpc : (v.policy && oc.forceE) = false)
    (hps : (os.forceCH || (v.policy && os.forceE)) = false)
    (hcs : (flat cs).headD [] = handshakeMsg ih idc ++ earlyC)
    (hcc : (flat cc).headD [] ++ (flat cc).tail.headD [] = handshakeMsg ih ids ++ earlyS) :
    exec (plainClient v oc ih idc) cc
      = .ok { hash := ih, id := ids, dht := true, fast := true, ext := true, rc4 := false }
          ⟨earlyS, (flat cc).tail.tail, [handshakeMsg ih idc]⟩ ∧
    exec (server v cr os x pad hashes) cs
      = .ok { hash := ih, id := idc, dht := true, fast := true, ext := true, rc4 := false }
          ⟨earlyC ++ (flat cs).tail.headD [], (flat cs).tail.tail, [handshakeMsg ih ids]⟩ := by
  constructor
  · rw [C07_refines_flat _ _ (runF_noAmb _ (plainClient_noAmb _ _ _ _) _)]
    exact plainClient_spec v oc ih idc ids earlyS _ hih hids hpc hcc
  · have hp : PlainPath os (flat cs) := by
      left
      rw [hcs]
      have hlen : (handshakeMsg ih idc).length = 68 := by
        simp [handshakeMsg, header_length, reserved_length, hih, hidc]
      rw [List.take_append_of_le_length (by omega)]
      exact (hs_facts ih idc [] hih hidc).2.2.2.1
    rw [C07_refines_flat _ _ (server_plain_determinate v cr os x pad hashes _ hp)]
    exact plainServer_spec v cr os x pad hashes ih idc ids earlyC _ hih hidc hfind hps hcs

-- non-vacuity of the agreement hypotheses
example : findHash wHash [(wHash, wId)] = .found (wHash, wId) := by
  simp [findHash, wHash]

end Storrent.Props.C07
