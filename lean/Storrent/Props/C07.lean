import Storrent.Lemmas.Handshake
import Storrent.Lemmas.MseFlat
import Storrent.Model.MseCrypto
/-
C07 — Handshakes agree and do not depend on TCP segmentation.

Model: Model/Chunked.lean (what a TCP read guarantees), Model/Handshake.lean (the four
handshake functions as programs over the buffer idioms of the Go code, interpreted over
a chunked connection `run` and over the flat stream `runF`).  `run true` is the REPAIRED
code (crypto.readMore truncates to the bytes read); `run false` the code as found.

Observable of a run (`ResF HsResult`): success/failure and its error, info-hash, peer id,
Dht/Fast/Extended, cipher mode, the bytes written, and `rest` = `init ++ unread bytes` of
the connection (per epoch) — what the message layer will read.
-/
namespace Storrent.Props.C07
open Storrent Storrent.Chunked Storrent.Handshake Storrent.Policy

/-- a connection: epochs (causality, see Model/Handshake) of chunk lists -/
abbrev Conn := List Src

/-- its byte streams -/
def flat (c : Conn) : List Bytes := c.map List.flatten

def startSt (c : Conn) : St := ⟨[], c.headD [], c.tail, []⟩
def startF (s : List Bytes) : StF := ⟨s.headD [], s.tail, []⟩

theorem startSt_abs (c : Conn) : (startSt c).abs = startF (flat c) := by
  cases c <;> simp [startSt, startF, flat, St.abs]

/-- the repaired code on a chunked connection; the result is abstracted to the observable -/
def exec (p : Prog HsResult) (c : Conn) : ResF HsResult := (run true p (startSt c)).abs

/-- the flat-stream specification -/
def spec (p : Prog HsResult) (s : List Bytes) : ResF HsResult := runF p (startF s)

/-- the outcome is a function of the byte stream (see `ResF.ambiguous`) -/
def Determinate (p : Prog HsResult) (s : List Bytes) : Prop := (spec p s).isAmb = false

instance (p : Prog HsResult) (s : List Bytes) : Decidable (Determinate p s) := by
  unfold Determinate; infer_instance

/-- every segmentation computes the flat specification -/
theorem C07_refines_flat (p : Prog HsResult) (c : Conn) (h : Determinate p (flat c)) :
    exec p c = spec p (flat c) := by
  unfold exec spec
  rw [← startSt_abs]
  exact run_refines p (startSt c) (by rw [startSt_abs]; exact h)

/-- **Segmentation independence, generic**: two segmentations of the same byte streams give
    the same outcome, values, written bytes and the same `init ++ unread rest`. -/
theorem C07_seg_independent (p : Prog HsResult) (c₁ c₂ : Conn) (hs : flat c₁ = flat c₂)
    (h : Determinate p (flat c₁)) : exec p c₁ = exec p c₂ := by
  rw [C07_refines_flat p c₁ h, C07_refines_flat p c₂ (hs ▸ h), hs]

/-! ### programs that never test `len(buf)` nor search a marker are always determinate -/

inductive NoAmb {α : Type} : Prog α → Prop where
  | ret (a : α) : NoAmb (.ret a)
  | fail (e : HsErr) : NoAmb (.fail e)
  | peek (rm n m) (k : Bytes → Prog α) (h : ∀ b, NoAmb (k b)) : NoAmb (.peek rm n m k)
  | take (rm n m) (k : Bytes → Prog α) (h : ∀ b, NoAmb (k b)) : NoAmb (.take rm n m k)
  | xorAll (ks) (k : Prog α) (h : NoAmb k) : NoAmb (.xorAll ks k)
  | unread (b) (k : Prog α) (h : NoAmb k) : NoAmb (.unread b k)
  | write (b) (k : Prog α) (h : NoAmb k) : NoAmb (.write b k)

theorem runF_noAmb {α : Type} (p : Prog α) (h : NoAmb p) (st : StF) : (runF p st).isAmb = false := by
  induction h generalizing st with
  | ret a => simp [runF, ResF.isAmb]
  | fail e => simp [runF, ResF.isAmb]
  | peek rm n m k _ ih => unfold runF; split; exact ih _ _; simp [ResF.isAmb]
  | take rm n m k _ ih => unfold runF; split; exact ih _ _; simp [ResF.isAmb]
  | xorAll ks k _ ih => unfold runF; exact ih _
  | unread b k _ ih => unfold runF; exact ih _
  | write b k _ ih => unfold runF; exact ih _

theorem clientTail_noAmb (ih : Bytes) (rc4 : Bool) : NoAmb (clientTail ih rc4) := by
  unfold clientTail
  refine .take _ _ _ _ (fun b => ?_)
  split
  · exact .fail _
  · dsimp only
    split
    · exact .fail _
    · exact .ret _

theorem serverTail_noAmb (hashes : List (Bytes × Bytes)) (skey : Option Bytes) (rc4 : Bool)
    (enc : Bytes → Bytes) : NoAmb (serverTail hashes skey rc4 enc) := by
  unfold serverTail
  refine .take _ _ _ _ (fun r => ?_)
  simp only
  split
  · exact .fail _
  · exact .fail _
  · split
    · exact .fail _
    · exact .fail _
    · exact .write _ _ (.take _ _ _ _ (fun _ => .ret _))

theorem plainClient_noAmb (v : Variant) (o : Options) (ih id : Bytes) :
    NoAmb (plainClient v o ih id) := by
  unfold plainClient
  split
  · exact .fail _
  · exact .write _ _ (clientTail_noAmb _ _)

/-- **Plain client**: for all streams and all segmentations, unconditionally. -/
theorem C07_plain_client_seg (v : Variant) (o : Options) (infoHash myid : Bytes)
    (c₁ c₂ : Conn) (hs : flat c₁ = flat c₂) :
    exec (plainClient v o infoHash myid) c₁ = exec (plainClient v o infoHash myid) c₂ :=
  C07_seg_independent _ c₁ c₂ hs (runF_noAmb _ (plainClient_noAmb v o infoHash myid) _)

/-- protocol.ServerHandshake stays out of the MSE code when the stream starts with the
    BitTorrent header, or is too short to tell, or the crypto handshake is not allowed -/
def PlainPath (o : Options) (s : List Bytes) : Prop :=
  (s.headD []).take 20 = header ∨ (s.headD []).length < 20 ∨ o.allowCH = false

theorem serverK_noAmb (v : Variant) (cr : MseCrypto) (o : Options) (x pad : Bytes)
    (hashes : List (Bytes × Bytes)) (b : Bytes) (h : b = header ∨ o.allowCH = false) :
    NoAmb (serverK v cr o x pad hashes b) := by
  unfold serverK
  by_cases hb : b = header
  · simp only [hb, if_true]
    split
    · exact .fail _
    · exact .take _ _ _ _ (fun _ => serverTail_noAmb _ _ _ _)
  · have ha : o.allowCH = false := by
      rcases h with h | h
      · exact absurd h hb
      · exact h
    simp only [hb, if_false, ha, Bool.false_eq_true]
    exact .fail _

theorem server_plain_determinate (v : Variant) (cr : MseCrypto) (o : Options) (x pad : Bytes)
    (hashes : List (Bytes × Bytes)) (s : List Bytes) (hp : PlainPath o s) :
    Determinate (server v cr o x pad hashes) s := by
  unfold Determinate spec server
  unfold runF
  by_cases hlen : 20 ≤ (startF s).rest.length
  · simp only [hlen, if_true]
    apply runF_noAmb
    apply serverK_noAmb
    rcases hp with hp | hp | hp
    · exact Or.inl hp
    · exact absurd hlen (by simp only [startF]; omega)
    · exact Or.inr hp
  · simp only [hlen, if_false, ResF.isAmb]

/-- **Plain server**: for all streams on which protocol.ServerHandshake performs the plain
    handshake and all segmentations. -/
theorem C07_plain_server_seg (v : Variant) (cr : MseCrypto) (o : Options) (x pad : Bytes)
    (hashes : List (Bytes × Bytes)) (c₁ c₂ : Conn) (hs : flat c₁ = flat c₂)
    (hp : PlainPath o (flat c₁)) :
    exec (server v cr o x pad hashes) c₁ = exec (server v cr o x pad hashes) c₂ :=
  C07_seg_independent _ c₁ c₂ hs (server_plain_determinate v cr o x pad hashes _ hp)

/-- **MSE client** (protocol.ClientHandshake with the crypto handshake), for every
    cryptographic instantiation, secret, pad, option set: all segmentations of a stream
    agree provided the stream is determinate, i.e. the encrypted VC does not first occur
    more than 512 bytes after Yb (the MSE bound on PadB). -/
theorem C07_mse_client_seg (cr : MseCrypto) (o : Options) (x pad infoHash myid : Bytes)
    (c₁ c₂ : Conn) (hs : flat c₁ = flat c₂)
    (hd : Determinate (cryptoClient cr o x pad infoHash myid) (flat c₁)) :
    exec (cryptoClient cr o x pad infoHash myid) c₁ = exec (cryptoClient cr o x pad infoHash myid) c₂ :=
  C07_seg_independent _ c₁ c₂ hs hd

/-- **MSE server** (protocol.ServerHandshake on a stream that is not a BitTorrent header):
    all segmentations agree provided the stream is determinate, i.e. HASH('req1', S) does
    not first occur more than 592 bytes after Ya (PadA ≤ 512) and the client sends nothing
    behind IA before the server's answer (same epoch). -/
theorem C07_mse_server_seg (v : Variant) (cr : MseCrypto) (o : Options) (x pad : Bytes)
    (hashes : List (Bytes × Bytes)) (c₁ c₂ : Conn) (hs : flat c₁ = flat c₂)
    (hd : Determinate (server v cr o x pad hashes) (flat c₁)) :
    exec (server v cr o x pad hashes) c₁ = exec (server v cr o x pad hashes) c₂ :=
  C07_seg_independent _ c₁ c₂ hs hd

/-! ### what the hypotheses exclude, and what the repair repaired -/

/-- a degenerate cryptography for witnesses: every hash is 20 sevens, the keystream is 0 -/
def witnessCrypto : MseCrypto where
  pub := fun _ => []
  dh := fun _ _ => []
  trivial := fun _ => false
  hash := fun _ => List.replicate 20 7
  ks := fun _ => #[]

def wHash : Bytes := List.replicate 20 1
def wId : Bytes := List.replicate 20 2
def wOpts : Options := ⟨true, false, false, true, false, false⟩
/-- Ya, HASH('req1',S), HASH('req2',SKEY) xor HASH('req3',S), ENCRYPT(VC, provide = RC4,
    len(PadC) = 0, len(IA) = 68), ENCRYPT(IA = BitTorrent handshake) -/
def wStream : Bytes :=
  List.replicate 96 9 ++ List.replicate 20 7 ++ List.replicate 20 0 ++ vc ++ [0, 0, 0, 2] ++ [0, 0]
    ++ [0, 68] ++ handshakeMsg wHash wId

def okOf {α : Type} : Res α → Bool
  | .ok _ _ => true
  | .err _ _ => false

def errOf {α : Type} : Res α → Option HsErr
  | .ok _ _ => none
  | .err e _ => some e

/-- the full statement for the code AS FOUND (`run false`: crypto.readMore leaves the
    unread part of its over-allocated buffer in `buf`) -/
def C07_asfound_full : Prop :=
  ∀ (cr : MseCrypto) (o : Options) (x pad : Bytes) (hashes : List (Bytes × Bytes)) (c₁ c₂ : Conn),
    flat c₁ = flat c₂ → Determinate (server asFound cr o x pad hashes) (flat c₁) →
    okOf (run false (server asFound cr o x pad hashes) (startSt c₁))
      = okOf (run false (server asFound cr o x pad hashes) (startSt c₂))

set_option maxRecDepth 100000 in
/-- … is false: the same client stream succeeds in one piece and fails when it is cut
    after 130 bytes (the zero bytes left in `buf` are taken for data). -/
theorem C07_asfound_refuted : ¬ C07_asfound_full := by
  intro h
  have := h witnessCrypto wOpts [] [] [(wHash, wId)] [[wStream]] [[wStream.take 130, wStream.drop 130]]
    (by decide +kernel) (by decide +kernel)
  revert this
  decide +kernel

set_option maxRecDepth 100000 in
/-- the repaired code on the same two segmentations: both succeed -/
example : okOf (run true (server repaired witnessCrypto wOpts [] [] [(wHash, wId)]) (startSt [[wStream]])) = true ∧
    okOf (run true (server repaired witnessCrypto wOpts [] [] [(wHash, wId)])
      (startSt [[wStream.take 130, wStream.drop 130]])) = true := by decide +kernel

/-- the statement of `C07_mse_server_seg` without the determinacy hypothesis -/
def C07_mse_server_full : Prop :=
  ∀ (cr : MseCrypto) (o : Options) (x pad : Bytes) (hashes : List (Bytes × Bytes)) (c₁ c₂ : Conn),
    flat c₁ = flat c₂ →
    exec (server repaired cr o x pad hashes) c₁ = exec (server repaired cr o x pad hashes) c₂

def isOkF {α : Type} : ResF α → Bool
  | .ok _ _ => true
  | _ => false

set_option maxRecDepth 100000 in
/-- … is false also for the repaired code: a client that pipelines one byte behind IA
    without waiting for the server's answer is refused ("extra data after handshake") when
    the byte arrives glued to IA and accepted when it arrives in a read of its own. -/
theorem C07_mse_server_full_refuted : ¬ C07_mse_server_full := by
  intro h
  have := h witnessCrypto wOpts [] [] [(wHash, wId)] [[wStream ++ [5]]] [[wStream, [5]]] (by decide +kernel)
  have h2 := congrArg isOkF this
  revert h2
  decide +kernel

/-! ### non-vacuity: honest streams are determinate -/

set_option maxRecDepth 100000 in
example : Determinate (server repaired witnessCrypto wOpts [] [] [(wHash, wId)]) [wStream] := by
  decide +kernel

/-! ### delivered exactly once -/

/-- protocol.Reader reads from `io.MultiReader(bytes.NewReader(init), conn)` (or from
    `conn` when `init` is empty): as a chunked source, `init` is one more chunk in front. -/
def multiReader (init : Bytes) (conn : Src) : Src := if init.isEmpty then conn else init :: conn

/-- **Init exactly once**: after a successful handshake — any of the four programs, any
    segmentation — the message layer's reader sees the byte string `init ++ unread rest`,
    and that string does not depend on the segmentation: every byte glued to the handshake
    is delivered exactly once and in order. -/
theorem C07_init_once (p : Prog HsResult) (c₁ c₂ : Conn) (hs : flat c₁ = flat c₂)
    (hd : Determinate p (flat c₁)) (a₁ a₂ : HsResult) (st₁ st₂ : St)
    (h₁ : run true p (startSt c₁) = .ok a₁ st₁) (h₂ : run true p (startSt c₂) = .ok a₂ st₂) :
    a₁ = a₂ ∧
    (multiReader st₁.buf st₁.cur).flatten = (multiReader st₂.buf st₂.cur).flatten ∧
    (multiReader st₁.buf st₁.cur).flatten = st₁.buf ++ st₁.cur.flatten ∧
    st₁.later.map List.flatten = st₂.later.map List.flatten ∧ st₁.out = st₂.out := by
  have := C07_seg_independent p c₁ c₂ hs hd
  unfold exec at this
  rw [h₁, h₂] at this
  simp only [Res.abs, ResF.ok.injEq, St.abs, StF.mk.injEq] at this
  obtain ⟨ha, hr, hl, ho⟩ := this
  have hm : ∀ (b : Bytes) (s : Src), (multiReader b s).flatten = b ++ s.flatten := by
    intro b s
    unfold multiReader
    split
    · rename_i he; simp only [List.isEmpty_iff] at he; simp [he]
    · simp
  exact ⟨ha, by rw [hm, hm]; exact hr, hm _ _, hl, ho⟩

/-! ### agreement (plain handshake) -/

theorem header_length : header.length = 20 := rfl
theorem reserved_length : reserved.length = 8 := rfl

/-- the capability bits storrent announces: DHT, Fast, Extended -/
theorem caps_reserved (t : Bytes) :
    capDht (reserved ++ t) = true ∧ capFast (reserved ++ t) = true ∧ capExt (reserved ++ t) = true := by
  simp [capDht, capFast, capExt, reserved]
  decide


/-- shape facts about `handshakeMsg h id ++ t` with 20-byte `h`, `id` -/
theorem hs_facts (h id t : Bytes) (hh : h.length = 20) (hid : id.length = 20) :
    68 ≤ (handshakeMsg h id ++ t).length ∧
    (handshakeMsg h id ++ t).take 68 = handshakeMsg h id ∧
    (handshakeMsg h id ++ t).drop 68 = t ∧
    (handshakeMsg h id).take 20 = header ∧
    (handshakeMsg h id).drop 20 = reserved ++ (h ++ id) ∧
    (reserved ++ (h ++ id)).drop 8 = h ++ id ∧
    (reserved ++ (h ++ id)).drop 28 = id ∧
    (h ++ id).take 20 = h := by
  have hlen : (handshakeMsg h id).length = 68 := by
    simp [handshakeMsg, header_length, reserved_length, hh, hid]
  refine ⟨by rw [List.length_append]; omega, ?_, ?_, ?_, ?_, ?_, ?_, ?_⟩
  · rw [List.take_append_of_le_length (by omega), List.take_of_length_le (by omega)]
  · rw [← hlen, List.drop_left]
  · simp only [handshakeMsg, List.append_assoc]
    rw [List.take_append_of_le_length (by simp [header_length]),
      List.take_of_length_le (by simp [header_length])]
  · simp only [handshakeMsg, List.append_assoc]
    rw [← header_length, List.drop_left]
  · rw [← reserved_length, List.drop_left]
  · have : 28 = (reserved ++ h).length := by simp [reserved_length, hh]
    rw [this, ← List.append_assoc, List.drop_left]
  · rw [← hh, List.take_left]

/-- the flat run of the plain client: whatever the server's stream is cut into epochs, if
    what arrives up to the client's write is the server's handshake followed by `early` -/
theorem plainClient_spec (v : Variant) (o : Options) (ih idc ids early : Bytes) (s : List Bytes)
    (hih : ih.length = 20) (hids : ids.length = 20) (hpol : (v.policy && o.forceE) = false)
    (hs : s.headD [] ++ s.tail.headD [] = handshakeMsg ih ids ++ early) :
    spec (plainClient v o ih idc) s
      = .ok { hash := ih, id := ids, dht := true, fast := true, ext := true, rc4 := false }
          ⟨early, s.tail.tail, [handshakeMsg ih idc]⟩ := by
  obtain ⟨c1, c2, c3⟩ := caps_reserved (ih ++ ids)
  obtain ⟨f0, f1, f2, f3, f4, f5, f6, f7⟩ := hs_facts ih ids early hih hids
  unfold spec plainClient
  simp only [hpol, Bool.false_eq_true, if_false]
  rw [runF_write]
  simp only [startF, hs]
  unfold clientTail
  rw [runF_take _ _ _ _ _ f0]
  simp only [f1, f2, f3, f4, f5, f6, f7, c1, c2, c3, ne_eq, not_true_eq_false, if_false,
    List.nil_append]
  rw [runF_ret]

/-- the flat run of protocol.ServerHandshake on a plain client's stream: the handshake
    (followed by anything the client pipelines) in the first epoch -/
theorem plainServer_spec (v : Variant) (cr : MseCrypto) (o : Options) (x pad : Bytes)
    (hashes : List (Bytes × Bytes)) (ih idc ids early : Bytes) (s : List Bytes)
    (hih : ih.length = 20) (hidc : idc.length = 20)
    (hfind : findHash ih hashes = .found (ih, ids))
    (hpol : (o.forceCH || (v.policy && o.forceE)) = false)
    (hs : s.headD [] = handshakeMsg ih idc ++ early) :
    spec (server v cr o x pad hashes) s
      = .ok { hash := ih, id := idc, dht := true, fast := true, ext := true, rc4 := false }
          ⟨early ++ s.tail.headD [], s.tail.tail, [handshakeMsg ih ids]⟩ := by
  obtain ⟨c1, c2, c3⟩ := caps_reserved (ih ++ idc)
  obtain ⟨f0, f1, f2, f3, f4, f5, f6, f7⟩ := hs_facts ih idc early hih hidc
  have hlen : (handshakeMsg ih idc).length = 68 := by
    simp [handshakeMsg, header_length, reserved_length, hih, hidc]
  have t20 : (handshakeMsg ih idc ++ early).take 20 = header := by
    rw [List.take_append_of_le_length (by omega), f3]
  have d20 : (handshakeMsg ih idc ++ early).drop 20 = reserved ++ (ih ++ (idc ++ early)) := by
    simp only [handshakeMsg, List.append_assoc]
    rw [← header_length, List.drop_left]
  have t28 : (reserved ++ (ih ++ (idc ++ early))).take 28 = reserved ++ ih := by
    have : 28 = (reserved ++ ih).length := by simp [reserved_length, hih]
    rw [this, ← List.append_assoc, List.take_left]
  have d28 : (reserved ++ (ih ++ (idc ++ early))).drop 28 = idc ++ early := by
    have : 28 = (reserved ++ ih).length := by simp [reserved_length, hih]
    rw [this, ← List.append_assoc, List.drop_left]
  have d8 : (reserved ++ ih).drop 8 = ih := by rw [← reserved_length, List.drop_left]
  have capsr : capDht (reserved ++ ih) = true ∧ capFast (reserved ++ ih) = true ∧ capExt (reserved ++ ih) = true :=
    caps_reserved ih
  unfold spec server
  rw [runF_peek _ _ _ _ _ (by simp only [startF, hs]; omega)]
  simp only [startF, hs, t20]
  unfold serverK
  simp only [if_true, hpol, Bool.false_eq_true, if_false]
  rw [runF_take _ _ _ _ _ (by simp only; omega)]
  simp only [d20]
  unfold serverTail
  rw [runF_take _ _ _ _ _ (by simp only [List.length_append, reserved_length, hih, hidc]; omega)]
  simp only [t28, d28, d8, hfind]
  rw [runF_write]
  simp only
  rw [runF_take _ _ _ _ _ (by simp [hidc])]
  have t20' : (idc ++ early ++ s.tail.headD []).take 20 = idc := by
    rw [List.append_assoc, ← hidc, List.take_left]
  have d20' : (idc ++ early ++ s.tail.headD []).drop 20 = early ++ s.tail.headD [] := by
    rw [List.append_assoc, ← hidc, List.drop_left]
  simp only [t20', d20', capsr.1, capsr.2.1, capsr.2.2, List.nil_append]
  rw [runF_ret]
  rfl

/-- **Agreement (plain handshake)**: a client and a server connected by two byte pipes, each
    direction cut into reads in an arbitrary way (`cc` is what the client reads, `cs` what
    the server reads).  If the pipes carry what the two ends write — the client's handshake
    followed by its early data, the server's handshake followed by its early data — then for
    EVERY segmentation both succeed and agree: same info-hash, each reports the other's id,
    the capability bits are those sent (DHT, Fast, Extended), both are in plaintext mode,
    each wrote exactly its handshake, and each side's `init ++ unread rest` is exactly the
    other side's early data. -/
theorem C07_agree_plain (v : Variant) (cr : MseCrypto) (oc os : Options) (x pad : Bytes)
    (hashes : List (Bytes × Bytes)) (ih idc ids earlyC earlyS : Bytes) (cc cs : Conn)
    (hih : ih.length = 20) (hidc : idc.length = 20) (hids : ids.length = 20)
    (hfind : findHash ih hashes = .found (ih, ids))
    (hpc : (v.policy && oc.forceE) = false)
    (hps : (os.forceCH || (v.policy && os.forceE)) = false)
    (hcs : (flat cs).headD [] = handshakeMsg ih idc ++ earlyC)
    (hcc : (flat cc).headD [] ++ (flat cc).tail.headD [] = handshakeMsg ih ids ++ earlyS) :
    exec (plainClient v oc ih idc) cc
      = .ok { hash := ih, id := ids, dht := true, fast := true, ext := true, rc4 := false }
          ⟨earlyS, (flat cc).tail.tail, [handshakeMsg ih idc]⟩ ∧
    exec (server v cr os x pad hashes) cs
      = .ok { hash := ih, id := idc, dht := true, fast := true, ext := true, rc4 := false }
          ⟨earlyC ++ (flat cs).tail.headD [], (flat cs).tail.tail, [handshakeMsg ih ids]⟩ := by
  constructor
  · rw [C07_refines_flat _ _ (runF_noAmb _ (plainClient_noAmb _ _ _ _) _)]
    exact plainClient_spec v oc ih idc ids earlyS _ hih hids hpc hcc
  · have hp : PlainPath os (flat cs) := by
      left
      rw [hcs]
      have hlen : (handshakeMsg ih idc).length = 68 := by
        simp [handshakeMsg, header_length, reserved_length, hih, hidc]
      rw [List.take_append_of_le_length (by omega)]
      exact (hs_facts ih idc [] hih hidc).2.2.2.1
    rw [C07_refines_flat _ _ (server_plain_determinate v cr os x pad hashes _ hp)]
    exact plainServer_spec v cr os x pad hashes ih idc ids earlyC _ hih hidc hfind hps hcs

-- non-vacuity of the agreement hypotheses
example : findHash wHash [(wHash, wId)] = .found (wHash, wId) := by
  simp [findHash, wHash]

/-! ### plain handshake: general flat runs -/

theorem plainClient_flat (v : Variant) (o : Options) (ih idc ih' ids r early : Bytes) (s : List Bytes)
    (hih : ih'.length = 20) (hids : ids.length = 20) (hr : r.length = 8)
    (hpol : (v.policy && o.forceE) = false)
    (hs : s.headD [] ++ s.tail.headD [] = hsWith r ih' ids ++ early) :
    spec (plainClient v o ih idc) s
      = if ih' = ih then
          .ok { hash := ih, id := ids, dht := capDht r, fast := capFast r, ext := capExt r, rc4 := false }
            ⟨early, s.tail.tail, [handshakeMsg ih idc]⟩
        else .err .unexpectedInfoHash [handshakeMsg ih idc] := by
  unfold spec plainClient
  simp only [hpol, Bool.false_eq_true, if_false]
  rw [runF_write]
  simp only [startF, hs]
  rw [clientTail_flat ih ih' ids r early false _ _ hih hids hr]
  simp only [List.nil_append]

theorem plainServer_flat (v : Variant) (cr : MseCrypto) (o : Options) (x pad : Bytes)
    (hashes : List (Bytes × Bytes)) (r ih idc early : Bytes) (s : List Bytes)
    (hih : ih.length = 20) (hidc : idc.length = 20) (hr : r.length = 8)
    (hpol : (o.forceCH || (v.policy && o.forceE)) = false)
    (hs : s.headD [] = hsWith r ih idc ++ early) :
    spec (server v cr o x pad hashes) s
      = match findHash ih hashes with
        | .panic => .err .panic []
        | .notFound => .err .unknownTorrent []
        | .found h =>
          .ok { hash := ih, id := idc, dht := capDht r, fast := capFast r, ext := capExt r, rc4 := false }
            ⟨early ++ s.tail.headD [], s.tail.tail, [handshakeMsg ih h.2]⟩ := by
  have hlen : (hsWith r ih idc).length = 68 := hsWith_length _ _ _ hr hih hidc
  have hsplit : hsWith r ih idc ++ early = header ++ (r ++ ih ++ idc ++ early) := by
    simp only [hsWith, List.append_assoc]
  unfold spec server
  rw [runF_peek _ _ _ _ _ (by simp only [startF, hs, List.length_append, hlen]; omega)]
  simp only [startF, hs, hsplit, take_app _ _ _ header_len]
  unfold serverK
  simp only [if_true, hpol, Bool.false_eq_true, if_false]
  rw [runF_take _ _ _ _ _ (by simp only [List.length_append, header_len]; omega)]
  simp only [drop_app _ _ _ header_len]
  rw [serverTail_flat hashes none false id r ih idc early _ _ (Or.inl rfl) hih hidc hr]
  cases findHash ih hashes <;> simp [id]

theorem ok_determinate (p : Prog HsResult) (s : List Bytes) (a : HsResult) (st : StF)
    (h : spec p s = .ok a st) : Determinate p s := by
  unfold Determinate; rw [h]; rfl

theorem err_determinate (p : Prog HsResult) (s : List Bytes) (e : HsErr) (out : List Bytes)
    (h : spec p s = .err e out) : Determinate p s := by
  unfold Determinate; rw [h]; rfl

/-- **Reserved bits** (plain handshake, both directions, any segmentation): each end reports
    exactly the Dht/Fast/Extended bits the PEER announced in its 8 reserved bytes, whatever
    they are; since storrent announces all three itself, the capabilities common to both ends
    (own AND peer's) are those reported. -/
theorem C07_plain_reserved (v : Variant) (cr : MseCrypto) (oc os : Options) (x pad : Bytes)
    (hashes : List (Bytes × Bytes)) (ih idc ids rC rS earlyC earlyS : Bytes) (cc cs : Conn)
    (hih : ih.length = 20) (hidc : idc.length = 20) (hids : ids.length = 20)
    (hrC : rC.length = 8) (hrS : rS.length = 8)
    (hfind : findHash ih hashes = .found (ih, ids))
    (hpc : (v.policy && oc.forceE) = false)
    (hps : (os.forceCH || (v.policy && os.forceE)) = false)
    (hcs : (flat cs).headD [] = hsWith rC ih idc ++ earlyC)
    (hcc : (flat cc).headD [] ++ (flat cc).tail.headD [] = hsWith rS ih ids ++ earlyS) :
    exec (plainClient v oc ih idc) cc
      = .ok { hash := ih, id := ids, dht := capDht rS, fast := capFast rS, ext := capExt rS, rc4 := false }
          ⟨earlyS, (flat cc).tail.tail, [handshakeMsg ih idc]⟩ ∧
    exec (server v cr os x pad hashes) cs
      = .ok { hash := ih, id := idc, dht := capDht rC, fast := capFast rC, ext := capExt rC, rc4 := false }
          ⟨earlyC ++ (flat cs).tail.headD [], (flat cs).tail.tail, [handshakeMsg ih ids]⟩ ∧
    (capDht reserved && capDht rS) = capDht rS ∧ (capFast reserved && capFast rS) = capFast rS ∧
    (capExt reserved && capExt rS) = capExt rS := by
  have h1 := plainClient_flat v oc ih idc ih ids rS earlyS (flat cc) hih hids hrS hpc hcc
  simp only [if_true] at h1
  have h2 := plainServer_flat v cr os x pad hashes rC ih idc earlyC (flat cs) hih hidc hrC hps hcs
  simp only [hfind] at h2
  refine ⟨?_, ?_, ?_⟩
  · rw [C07_refines_flat _ _ (ok_determinate _ _ _ _ h1), h1]
  · rw [C07_refines_flat _ _ (ok_determinate _ _ _ _ h2), h2]
  · have : capDht reserved = true ∧ capFast reserved = true ∧ capExt reserved = true := by decide
    simp [this.1, this.2.1, this.2.2]

/-- **Info-hash mismatch ⇒ both refuse** (plain handshake, any segmentation).
    (a) the server does not have the torrent the client asks for: it fails with
    ErrUnknownTorrent having written nothing; (b) a client that receives nothing before the
    connection is closed fails with EOF; (c) a client that receives a handshake for another
    info-hash fails with "unexpected infoHash". -/
theorem C07_plain_hash_mismatch (v : Variant) (cr : MseCrypto) (oc os : Options) (x pad : Bytes)
    (hashes : List (Bytes × Bytes)) (ih ih' idc ids rC rS earlyC earlyS : Bytes) (cc cc' cs : Conn)
    (hih : ih.length = 20) (hih' : ih'.length = 20) (hidc : idc.length = 20) (hids : ids.length = 20)
    (hrC : rC.length = 8) (hrS : rS.length = 8)
    (hnot : findHash ih hashes = .notFound) (hne : ih' ≠ ih)
    (hpc : (v.policy && oc.forceE) = false)
    (hps : (os.forceCH || (v.policy && os.forceE)) = false)
    (hcs : (flat cs).headD [] = hsWith rC ih idc ++ earlyC)
    (hcc : flat cc = [[], []])
    (hcc' : (flat cc').headD [] ++ (flat cc').tail.headD [] = hsWith rS ih' ids ++ earlyS) :
    exec (server v cr os x pad hashes) cs = .err .unknownTorrent [] ∧
    exec (plainClient v oc ih idc) cc = .err .eof [handshakeMsg ih idc] ∧
    exec (plainClient v oc ih idc) cc' = .err .unexpectedInfoHash [handshakeMsg ih idc] := by
  have h1 := plainServer_flat v cr os x pad hashes rC ih idc earlyC (flat cs) hih hidc hrC hps hcs
  simp only [hnot] at h1
  have h3 := plainClient_flat v oc ih idc ih' ids rS earlyS (flat cc') hih' hids hrS hpc hcc'
  simp only [hne, if_false] at h3
  have h2 : spec (plainClient v oc ih idc) (flat cc) = .err .eof [handshakeMsg ih idc] := by
    unfold spec plainClient
    simp only [hpc, Bool.false_eq_true, if_false, hcc]
    rw [runF_write]
    unfold clientTail
    conv => lhs; unfold runF
    simp [startF, eofOrStall]
  refine ⟨?_, ?_, ?_⟩
  · rw [C07_refines_flat _ _ (err_determinate _ _ _ _ h1), h1]
  · rw [C07_refines_flat _ _ (err_determinate _ _ _ _ h2), h2]
  · rw [C07_refines_flat _ _ (err_determinate _ _ _ _ h3), h3]

/-- **Self-connection** (plain handshake): a client that reaches its own listener (the
    server's id for the torrent is the client's own id) completes the handshake on both ends,
    and both ends report their OWN peer id — which is what lets the caller recognise and drop
    the connection (`result.Id` = `t.MyId`). -/
theorem C07_self_connection (v : Variant) (cr : MseCrypto) (oc os : Options) (x pad : Bytes)
    (hashes : List (Bytes × Bytes)) (ih myid earlyC earlyS : Bytes) (cc cs : Conn)
    (hih : ih.length = 20) (hid : myid.length = 20)
    (hfind : findHash ih hashes = .found (ih, myid))
    (hpc : (v.policy && oc.forceE) = false)
    (hps : (os.forceCH || (v.policy && os.forceE)) = false)
    (hcs : (flat cs).headD [] = handshakeMsg ih myid ++ earlyC)
    (hcc : (flat cc).headD [] ++ (flat cc).tail.headD [] = handshakeMsg ih myid ++ earlyS) :
    ∃ stC stS a b, exec (plainClient v oc ih myid) cc = .ok a stC ∧
      exec (server v cr os x pad hashes) cs = .ok b stS ∧ a.id = myid ∧ b.id = myid ∧ a.hash = b.hash := by
  obtain ⟨h1, h2⟩ := C07_agree_plain v cr oc os x pad hashes ih myid myid earlyC earlyS cc cs hih hid hid
    hfind hpc hps hcs hcc
  exact ⟨_, _, _, _, h1, h2, rfl, rfl, rfl⟩


/-! ### agreement (MSE handshake) -/

/-- the only facts about the primitives the agreement needs -/
structure MseAlgebra (cr : MseCrypto) (xa xb : Bytes) : Prop where
  pubA : (cr.pub xa).length = 96
  pubB : (cr.pub xb).length = 96
  trivA : cr.trivial (cr.pub xa) = false
  trivB : cr.trivial (cr.pub xb) = false
  /-- Ya is not mistaken for a BitTorrent header by protocol.ServerHandshake -/
  notHeader : (cr.pub xa).take 20 ≠ header
  hashLen : ∀ b, (cr.hash b).length = 20
  /-- Diffie-Hellman: both ends compute the same secret -/
  dh : cr.dh xa (cr.pub xb) = cr.dh xb (cr.pub xa)
  /-- … in the same FIXED-WIDTH encoding: 96 bytes, leading zero bytes included (as are Ya, Yb:
      `pubA`, `pubB`).  What is hashed into req1/req3/keyA/keyB is this byte string; that the Go
      code pads (`FillBytes`) rather than strips is tied by the forced-leading-zero cases of
      the C07 stream. -/
  dhLen : (cr.dh xa (cr.pub xb)).length = 96

/-- `bytes.Index(pad ++ rest, v)` is `len(pad)`: the marker `synchronise` looks for does not
    occur earlier (inside the random padding or straddling its end) -/
def MarkerFirst (v pad rest : Bytes) : Prop := findSub v (pad ++ rest) = some pad.length

instance (v pad rest : Bytes) : Decidable (MarkerFirst v pad rest) := by
  unfold MarkerFirst; infer_instance

/-- the client accepts whatever an honest server selects from its offer -/
theorem select_accepted (oc os : Options) :
    (serverSelect os (cryptoProvide oc) = 1 → oc.forceE = false) ∧
    (serverSelect os (cryptoProvide oc) = 2 → oc.allowE = true) := by
  obtain ⟨a1, a2, a3, a4, a5, a6⟩ := oc
  obtain ⟨b1, b2, b3, b4, b5, b6⟩ := os
  revert a1 a2 a3 a4 a5 a6 b1 b2 b3 b4 b5 b6
  decide

theorem provide_small (o : Options) : cryptoProvide o < 256 ∧ (cryptoProvide o ≠ 0 → cryptoProvide o % 4 ≠ 0) := by
  obtain ⟨a1, a2, a3, a4, a5, a6⟩ := o
  revert a1 a2 a3 a4 a5 a6
  decide

/-- **Agreement (MSE handshake).**  The model's client (protocol.ClientHandshake with the
    crypto handshake) and server (protocol.ServerHandshake) run against each other: `cs` is
    the pipe the server reads — it carries exactly what the client writes (Ya ++ PadA, then
    message 3 with IA = the BitTorrent handshake) followed by the client's payload — and `cc`
    the pipe the client reads (Yb ++ PadB, then message 4, the server's BitTorrent handshake
    and payload); payload is encrypted by the negotiated method, the client's from keystream
    position 16 + 68 of keyA, the server's from position 14 of keyB.  DH, SHA-1 and RC4 are
    ARBITRARY functions satisfying `MseAlgebra` (RC4 = XOR with a keystream determined by the
    key, so equal keys and equal positions decrypt what was encrypted).  Then for EVERY
    segmentation of both pipes:
    both ends finish; both report the method `serverSelect os (cryptoProvide oc)`; the
    keystreams match (client-encrypt = server-decrypt, server-encrypt = client-decrypt); the
    server finds the skey the client used and both report that info-hash; each reports the
    other's peer id and capability bits; IA is delivered exactly (the server's `init ++ rest`
    is the client's payload: nothing of IA is lost or duplicated); each end's first payload
    byte is decrypted at the right keystream offset (`rest` = the plaintext payload); and what
    each end wrote is exactly what the other pipe carries. -/
theorem C07_agree_mse (v : Variant) (cr : MseCrypto) (oc os : Options) (xa padA xb padB : Bytes)
    (hashes : List (Bytes × Bytes)) (ih idc ids earlyC earlyS : Bytes) (cc cs : Conn)
    (alg : MseAlgebra cr xa xb)
    (hih : ih.length = 20) (hidc : idc.length = 20) (hids : ids.length = 20)
    (hfind : findHash ih hashes = .found (ih, ids))
    (hskey : findSkey cr (cr.req2 ih) (hashes.map (·.1)) = some ih)
    (hac : oc.allowCH = true) (has : os.allowCH = true)
    (hprov : cryptoProvide oc ≠ 0) (hsel : serverSelect os (cryptoProvide oc) ≠ 0)
    (hpA : padA.length ≤ 512) (hpB : padB.length ≤ 512)
    (hmA : MarkerFirst (cr.req1 (cr.dh xa (cr.pub xb))) padA
      (msg3 cr (cr.dh xa (cr.pub xb)) ih (cryptoProvide oc) (handshakeMsg ih idc)))
    (hmB : MarkerFirst (xorAt (ksB cr (cr.dh xa (cr.pub xb)) ih) 0 vc) padB
      (msg4 cr (cr.dh xa (cr.pub xb)) ih (serverSelect os (cryptoProvide oc)) ++
        encSel (ksB cr (cr.dh xa (cr.pub xb)) ih) 14 (serverSelect os (cryptoProvide oc))
          (handshakeMsg ih ids ++ earlyS)))
    (hcs : flat cs = [cr.pub xa ++ padA,
      msg3 cr (cr.dh xa (cr.pub xb)) ih (cryptoProvide oc) (handshakeMsg ih idc),
      encSel (ksA cr (cr.dh xa (cr.pub xb)) ih) 84 (serverSelect os (cryptoProvide oc)) earlyC])
    (hcc : flat cc = [[], cr.pub xb ++ padB,
      msg4 cr (cr.dh xa (cr.pub xb)) ih (serverSelect os (cryptoProvide oc)) ++
        encSel (ksB cr (cr.dh xa (cr.pub xb)) ih) 14 (serverSelect os (cryptoProvide oc))
          (handshakeMsg ih ids ++ earlyS)]) :
    exec (cryptoClient cr oc xa padA ih idc) cc
      = .ok { hash := ih, id := ids, dht := true, fast := true, ext := true,
              rc4 := decide (serverSelect os (cryptoProvide oc) = 2) }
          ⟨earlyS, [], [cr.pub xa ++ padA,
            msg3 cr (cr.dh xa (cr.pub xb)) ih (cryptoProvide oc) (handshakeMsg ih idc)]⟩ ∧
    exec (server v cr os xb padB hashes) cs
      = .ok { hash := ih, id := idc, dht := true, fast := true, ext := true,
              rc4 := decide (serverSelect os (cryptoProvide oc) = 2) }
          ⟨earlyC, [], [cr.pub xb ++ padB,
            msg4 cr (cr.dh xa (cr.pub xb)) ih (serverSelect os (cryptoProvide oc)),
            encSel (ksB cr (cr.dh xa (cr.pub xb)) ih) 14 (serverSelect os (cryptoProvide oc))
              (handshakeMsg ih ids)]⟩ ∧
    ksA cr (cr.dh xa (cr.pub xb)) ih = ksA cr (cr.dh xb (cr.pub xa)) ih ∧
    ksB cr (cr.dh xa (cr.pub xb)) ih = ksB cr (cr.dh xb (cr.pub xa)) ih := by
  have hs12 : serverSelect os (cryptoProvide oc) = 1 ∨ serverSelect os (cryptoProvide oc) = 2 := by
    rcases serverSelect_cases os (cryptoProvide oc) with h | h | h
    · exact absurd h hsel
    · exact Or.inl h
    · exact Or.inr h
  obtain ⟨hc1, hc2⟩ := select_accepted oc os
  obtain ⟨hp256, hp4⟩ := provide_small oc
  have hC := cryptoClient_flat cr oc xa padA ih idc (cr.pub xb) padB ids earlyS _ hac alg.pubB alg.trivB hprov
    hmB hpB hih hids hs12 hc1 hc2
  have hdh := alg.dh
  unfold MarkerFirst at hmA
  have hS := serverMse_flat v cr os xb padB hashes (cr.pub xa) padA ih idc ids earlyC _ has alg.pubA alg.trivA
    alg.notHeader alg.hashLen (hdh ▸ hmA) hpA hskey hfind hih hidc hp256 (hp4 hprov) hsel
  rw [← hdh] at hS
  have hEC := congrArg (spec (cryptoClient cr oc xa padA ih idc)) hcc
  have hES := congrArg (spec (server v cr os xb padB hashes)) hcs
  simp only [spec, startF, List.headD_cons, List.tail_cons] at hEC hES
  rw [hC] at hEC
  rw [hS] at hES
  refine ⟨?_, ?_, by rw [alg.dh], by rw [alg.dh]⟩
  · rw [C07_refines_flat _ _ (ok_determinate _ _ _ _ hEC)]; exact hEC
  · rw [C07_refines_flat _ _ (ok_determinate _ _ _ _ hES)]; exact hES



/-! ### determinacy discharged for honest peers -/

/-- **MSE server, honest client, no determinacy hypothesis.**  For the stream of a client that
    follows the specification (PadA ≤ 512, the marker not occurring earlier in the padding,
    message 3 with IA = its BitTorrent handshake ending the epoch: nothing pipelined behind
    IA before the server's answer) EVERY segmentation gives the same — successful — result. -/
theorem C07_mse_server_seg_honest (v : Variant) (cr : MseCrypto) (o : Options) (x pad : Bytes)
    (hashes : List (Bytes × Bytes)) (ya padA ih idc ids early : Bytes) (provide : Nat) (c₁ c₂ : Conn)
    (ha : o.allowCH = true) (hya : ya.length = 96) (htriv : cr.trivial ya = false)
    (hnh : ya.take 20 ≠ header) (hH : ∀ b, (cr.hash b).length = 20)
    (hfirst : MarkerFirst (cr.req1 (cr.dh x ya)) padA
      (msg3 cr (cr.dh x ya) ih provide (handshakeMsg ih idc)))
    (hpad : padA.length ≤ 512)
    (hskey : findSkey cr (cr.req2 ih) (hashes.map (·.1)) = some ih)
    (hfind : findHash ih hashes = .found (ih, ids))
    (hih : ih.length = 20) (hidc : idc.length = 20)
    (hprov : provide < 256) (hprov4 : provide % 4 ≠ 0) (hsel : serverSelect o provide ≠ 0)
    (h₁ : flat c₁ = [ya ++ padA, msg3 cr (cr.dh x ya) ih provide (handshakeMsg ih idc),
      encSel (ksA cr (cr.dh x ya) ih) 84 (serverSelect o provide) early])
    (h₂ : flat c₂ = flat c₁) :
    exec (server v cr o x pad hashes) c₁ = exec (server v cr o x pad hashes) c₂ ∧
    Determinate (server v cr o x pad hashes) (flat c₁) := by
  have hS := serverMse_flat v cr o x pad hashes ya padA ih idc ids early provide ha hya htriv hnh hH hfirst
    hpad hskey hfind hih hidc hprov hprov4 hsel
  have hE := congrArg (spec (server v cr o x pad hashes)) h₁
  simp only [spec, startF, List.headD_cons, List.tail_cons] at hE
  rw [hS] at hE
  have hd := ok_determinate _ _ _ _ hE
  exact ⟨C07_seg_independent _ c₁ c₂ h₂.symm hd, hd⟩

/-- **MSE client, honest server, no determinacy hypothesis.** -/
theorem C07_mse_client_seg_honest (cr : MseCrypto) (o : Options) (x pad ih idc : Bytes)
    (yb padB ids early : Bytes) (select : Nat) (c₁ c₂ : Conn)
    (ha : o.allowCH = true) (hyb : yb.length = 96) (htriv : cr.trivial yb = false)
    (hprov : cryptoProvide o ≠ 0)
    (hfirst : MarkerFirst (xorAt (ksB cr (cr.dh x yb) ih) 0 vc) padB
      (msg4 cr (cr.dh x yb) ih select ++
        encSel (ksB cr (cr.dh x yb) ih) 14 select (handshakeMsg ih ids ++ early)))
    (hpad : padB.length ≤ 512) (hih : ih.length = 20) (hids : ids.length = 20)
    (hs12 : select = 1 ∨ select = 2)
    (hc1 : select = 1 → o.forceE = false) (hc2 : select = 2 → o.allowE = true)
    (h₁ : flat c₁ = [[], yb ++ padB, msg4 cr (cr.dh x yb) ih select ++
      encSel (ksB cr (cr.dh x yb) ih) 14 select (handshakeMsg ih ids ++ early)])
    (h₂ : flat c₂ = flat c₁) :
    exec (cryptoClient cr o x pad ih idc) c₁ = exec (cryptoClient cr o x pad ih idc) c₂ ∧
    Determinate (cryptoClient cr o x pad ih idc) (flat c₁) := by
  have hC := cryptoClient_flat cr o x pad ih idc yb padB ids early select ha hyb htriv hprov hfirst hpad
    hih hids hs12 hc1 hc2
  have hE := congrArg (spec (cryptoClient cr o x pad ih idc)) h₁
  simp only [spec, startF, List.headD_cons, List.tail_cons] at hE
  rw [hC] at hE
  have hd := ok_determinate _ _ _ _ hE
  exact ⟨C07_seg_independent _ c₁ c₂ h₂.symm hd, hd⟩

/-! ### the determinacy hypothesis reduced: spec-conforming padding suffices -/

/-- the flat result is ambiguous for the reason `w` -/
def ambFor {α : Type} (w : Amb) : ResF α → Bool
  | .ambiguous w' => w == w'
  | _ => false

theorem isAmb_split {α : Type} (r : ResF α) :
    r.isAmb = false ↔ ambFor .marker r = false ∧ ambFor .pipelined r = false := by
  cases r with
  | ok a st => simp [ResF.isAmb, ambFor]
  | err e o => simp [ResF.isAmb, ambFor]
  | ambiguous w => cases w <;> simp [ResF.isAmb, ambFor]

/-- programs without `synchronise` -/
inductive NoSync {α : Type} : Prog α → Prop where
  | ret (a : α) : NoSync (.ret a)
  | fail (e : HsErr) : NoSync (.fail e)
  | peek (rm n m) (k : Bytes → Prog α) (h : ∀ b, NoSync (k b)) : NoSync (.peek rm n m k)
  | take (rm n m) (k : Bytes → Prog α) (h : ∀ b, NoSync (k b)) : NoSync (.take rm n m k)
  | ifEmpty (y n : Prog α) (hy : NoSync y) (hn : NoSync n) : NoSync (.ifEmpty y n)
  | xorAll (ks) (k : Prog α) (h : NoSync k) : NoSync (.xorAll ks k)
  | unread (b) (k : Prog α) (h : NoSync k) : NoSync (.unread b k)
  | write (b) (k : Prog α) (h : NoSync k) : NoSync (.write b k)

theorem runF_noSync {α : Type} (p : Prog α) (h : NoSync p) (st : StF) :
    ambFor .marker (runF p st) = false := by
  induction h generalizing st with
  | ret a => simp [runF, ambFor]
  | fail e => simp [runF, ambFor]
  | peek rm n m k _ ih => unfold runF; split; exact ih _ _; simp [ambFor]
  | take rm n m k _ ih => unfold runF; split; exact ih _ _; simp [ambFor]
  | ifEmpty y n _ _ ihy _ => unfold runF; split; exact ihy _; simp [ambFor]
  | xorAll ks k _ ih => unfold runF; exact ih _
  | unread b k _ ih => unfold runF; exact ih _
  | write b k _ ih => unfold runF; exact ih _

theorem noSync_of_noAmb {α : Type} (p : Prog α) (h : NoAmb p) : NoSync p := by
  induction h with
  | ret a => exact .ret a
  | fail e => exact .fail e
  | peek rm n m k _ ih => exact .peek _ _ _ _ ih
  | take rm n m k _ ih => exact .take _ _ _ _ ih
  | xorAll ks k _ ih => exact .xorAll _ _ ih
  | unread b k _ ih => exact .unread _ _ ih
  | write b k _ ih => exact .write _ _ ih

/-- crypto.ServerHandshake: the only `synchronise` is the search for HASH('req1', S); if its
    first occurrence (if any) in what has arrived by then lies within the searched window,
    the run is never ambiguous because of a marker -/
theorem mseServer_marker {α : Type} (cr : MseCrypto) (o : Options) (x pad : Bytes) (skeys : List Bytes)
    (k : Bool → Bytes → (Bytes → Bytes) → Prog α) (hk : ∀ a b c, NoSync (k a b c)) (st : StF)
    (hwin : ∀ i, findSub (cr.req1 (cr.dh x (st.rest.take 96))) (st.rest.drop 96 ++ st.later.headD []) = some i →
      i + (cr.req1 (cr.dh x (st.rest.take 96))).length ≤ 612) :
    ambFor .marker (runF (mseServer cr o x pad skeys k) st) = false := by
  unfold mseServer
  split
  · simp [runF, ambFor]
  · unfold runF
    split
    · dsimp only
      split
      · simp [runF, ambFor]
      · rw [runF_write]
        conv => lhs; arg 2; unfold runF
        simp only
        cases hf : findSub (cr.req1 (cr.dh x (st.rest.take 96))) (st.rest.drop 96 ++ st.later.headD []) with
        | some i =>
          simp only [hwin i hf, if_true]
          apply runF_noSync
          repeat' (first
            | exact NoSync.fail _
            | exact hk _ _ _
            | (apply NoSync.take; intro _)
            | apply NoSync.write
            | apply NoSync.unread
            | apply NoSync.xorAll
            | apply NoSync.ifEmpty
            | (dsimp only; split)
            | split)
        | none =>
          simp only
          split <;> simp [ambFor]
    · simp [ambFor]

theorem serverCont_noSync (hashes : List (Bytes × Bytes)) (rc4 : Bool) (skey : Bytes) (enc : Bytes → Bytes) :
    NoSync (Prog.take RM.proto 20 68 fun b2 =>
      if b2 ≠ header then Prog.fail HsErr.badHandshake else serverTail hashes (some skey) rc4 enc) := by
  refine .take _ _ _ _ (fun b2 => ?_)
  split
  · exact .fail _
  · exact noSync_of_noAmb _ (serverTail_noAmb _ _ _ _)

/-- protocol.ServerHandshake is never ambiguous because of the marker when the first
    occurrence of HASH('req1', S) — if any — in what has arrived when the server searches
    (the rest of epoch 0 behind Ya and epoch 1) ends within the first 612 bytes -/
theorem server_marker (v : Variant) (cr : MseCrypto) (o : Options) (x pad : Bytes)
    (hashes : List (Bytes × Bytes)) (s : List Bytes)
    (hwin : ∀ i, findSub (cr.req1 (cr.dh x ((s.headD []).take 96)))
        ((s.headD []).drop 96 ++ s.tail.headD []) = some i →
      i + (cr.req1 (cr.dh x ((s.headD []).take 96))).length ≤ 612) :
    ambFor .marker (spec (server v cr o x pad hashes) s) = false := by
  unfold spec server
  unfold runF
  split
  · unfold serverK
    split
    · split
      · simp [runF, ambFor]
      · exact runF_noSync _ (noSync_of_noAmb _ (.take _ _ _ _ (fun _ => serverTail_noAmb _ _ _ _))) _
    · split
      · exact mseServer_marker cr o x pad _ _ (fun _ _ _ => serverCont_noSync _ _ _ _) _ hwin
      · simp [runF, ambFor]
  · simp [ambFor]

/-- a marker that does occur `pre.length` bytes in is found at or before that offset, hence
    within the window whenever `pre.length + v.length` fits -/
theorem window_of_occurs (v pre post : Bytes) (n : Nat) (h : pre.length + v.length ≤ n) :
    ∀ i, findSub v (pre ++ v ++ post) = some i → i + v.length ≤ n := by
  intro i hi
  obtain ⟨j, hj, hle⟩ := findSub_le_of_occurs v pre post
  rw [hj] at hi
  cases hi
  omega

/-- **MSE server, the determinacy hypothesis reduced to the recorded finding.**  Whatever the
    client sends (valid or not, any IA, any payload), as long as its padding obeys the
    specification — HASH('req1', S) occurs in what has arrived when the server searches, at
    most 592 bytes behind Ya (PadA ≤ 512 leaves 80 bytes to spare; `pre` need not be free of
    an earlier accidental occurrence) — two segmentations of the same streams give the same
    result unless bytes are pipelined behind IA inside the same epoch (`Amb.pipelined`). -/
theorem C07_mse_server_seg_window (v : Variant) (cr : MseCrypto) (o : Options) (x pad : Bytes)
    (hashes : List (Bytes × Bytes)) (c₁ c₂ : Conn) (hs : flat c₁ = flat c₂)
    (pre post : Bytes)
    (hocc : ((flat c₁).headD []).drop 96 ++ (flat c₁).tail.headD []
      = pre ++ cr.req1 (cr.dh x (((flat c₁).headD []).take 96)) ++ post)
    (hpre : pre.length + (cr.req1 (cr.dh x (((flat c₁).headD []).take 96))).length ≤ 612)
    (hpipe : ambFor .pipelined (spec (server v cr o x pad hashes) (flat c₁)) = false) :
    exec (server v cr o x pad hashes) c₁ = exec (server v cr o x pad hashes) c₂ := by
  apply C07_seg_independent _ c₁ c₂ hs
  unfold Determinate
  rw [isAmb_split]
  refine ⟨server_marker v cr o x pad hashes _ ?_, hpipe⟩
  rw [hocc]
  exact window_of_occurs _ pre post 612 hpre

/-- crypto.ClientHandshake has no `len(buf) > 0` test: the only possible ambiguity is the
    search for ENCRYPT(VC) -/
theorem mseClient_determinate {α : Type} (cr : MseCrypto) (o : Options) (x pad skey ia : Bytes)
    (k : Bool → Prog α) (hk : ∀ b, NoAmb (k b)) (st : StF)
    (hwin : ∀ i,
      findSub (xorAt (ksB cr (cr.dh x ((st.rest ++ st.later.headD []).take 96)) skey) 0 vc)
        ((st.rest ++ st.later.headD []).drop 96 ++ st.later.tail.headD []) = some i →
      i + (xorAt (ksB cr (cr.dh x ((st.rest ++ st.later.headD []).take 96)) skey) 0 vc).length ≤ 520) :
    (runF (mseClient cr o x pad skey ia k) st).isAmb = false := by
  unfold mseClient
  split
  · simp [runF, ResF.isAmb]
  · rw [runF_write]
    unfold runF
    split
    · dsimp only
      split
      · simp [runF, ResF.isAmb]
      · split
        · simp [runF, ResF.isAmb]
        · rw [runF_write]
          conv => lhs; arg 1; unfold runF
          simp only [ksB] at hwin ⊢
          cases hf : findSub (xorAt (discard1024 (cr.table "keyB" (cr.dh x ((st.rest ++ st.later.headD []).take 96)) skey)) 0 vc)
              ((st.rest ++ st.later.headD []).drop 96 ++ st.later.tail.headD []) with
          | some i =>
            simp only [hwin i hf, if_true]
            apply runF_noAmb
            repeat' (first
              | exact NoAmb.fail _
              | exact hk _
              | (apply NoAmb.take; intro _)
              | apply NoAmb.xorAll
              | (dsimp only; split)
              | split)
          | none =>
            simp only
            split <;> simp [ResF.isAmb]
    · simp [ResF.isAmb]

/-- **MSE client, no determinacy hypothesis left**: whatever the server sends (valid or not),
    as long as its padding obeys the specification — ENCRYPT(VC) occurs in what has arrived
    when the client searches, at most 512 bytes behind Yb — every segmentation of the same
    streams gives the same result. -/
theorem C07_mse_client_seg_window (cr : MseCrypto) (o : Options) (x pad ih idc : Bytes)
    (c₁ c₂ : Conn) (hs : flat c₁ = flat c₂) (pre post : Bytes)
    (hocc : (((flat c₁).headD [] ++ (flat c₁).tail.headD []).drop 96) ++ (flat c₁).tail.tail.headD []
      = pre ++ xorAt (ksB cr (cr.dh x (((flat c₁).headD [] ++ (flat c₁).tail.headD []).take 96)) ih) 0 vc ++ post)
    (hpre : pre.length ≤ 512) :
    exec (cryptoClient cr o x pad ih idc) c₁ = exec (cryptoClient cr o x pad ih idc) c₂ := by
  apply C07_seg_independent _ c₁ c₂ hs
  unfold Determinate spec cryptoClient
  apply mseClient_determinate cr o x pad ih _ _ (fun b => clientTail_noAmb _ _)
  simp only [startF]
  rw [hocc]
  apply window_of_occurs
  rw [xorAt_length, vc_length]
  omega

set_option maxRecDepth 100000 in
-- non-vacuity: the honest witness stream is not `pipelined`; the stream of
-- `C07_mse_server_full_refuted` (one byte glued behind IA) is exactly that
example : ambFor .pipelined (spec (server repaired witnessCrypto wOpts [] [] [(wHash, wId)]) [wStream]) = false ∧
    ambFor .pipelined (spec (server repaired witnessCrypto wOpts [] [] [(wHash, wId)]) [wStream ++ [5]]) = true := by
  decide +kernel

/-! ### non-vacuity of `C07_agree_mse` with the real SHA-1 / RC4 / modexp of Model/MseCrypto -/

theorem fillBytes_length (n v : Nat) : (MseCrypto.fillBytes n v).length = n := by
  induction n generalizing v with
  | zero => rfl
  | succ n ih => simp [MseCrypto.fillBytes, ih]

theorem sha1_length (msg : Bytes) : (MseCrypto.sha1 msg).length = 20 := by
  simp [MseCrypto.sha1, MseCrypto.w32, be32]

/-- with an empty pad the marker is trivially first -/
theorem markerFirst_nil (v rest : Bytes) : MarkerFirst v [] (v ++ rest) := by
  unfold MarkerFirst
  obtain ⟨i, hi, hle⟩ := findSub_le_of_occurs v [] rest
  simp only [List.nil_append, List.length_nil, Nat.le_zero_eq] at hi hle ⊢
  rw [hi, hle]

def realCr : MseCrypto := MseCrypto.real 4096
def xa0 : Bytes := [1, 2, 3]
def xb0 : Bytes := [4, 5, 6]
def ih0 : Bytes := List.replicate 20 7
def idc0 : Bytes := List.replicate 20 1
def ids0 : Bytes := List.replicate 20 2

set_option maxRecDepth 100000 in
/-- the real primitives satisfy the algebraic facts (Diffie-Hellman by kernel evaluation of
    the two 768-bit modular exponentiations for these secrets) -/
theorem realAlgebra : MseAlgebra realCr xa0 xb0 where
  pubA := fillBytes_length _ _
  pubB := fillBytes_length _ _
  trivA := by decide +kernel
  trivB := by decide +kernel
  notHeader := by decide +kernel
  hashLen := sha1_length
  dh := by decide +kernel
  dhLen := fillBytes_length _ _

/-- both ends prefer encryption: RC4 is negotiated, the whole conclusion of `C07_agree_mse`
    holds for the real cryptography, one-byte-per-chunk or any other segmentation -/
example (cc cs : Conn) (earlyC earlyS : Bytes)
    (hcs : flat cs = [realCr.pub xa0 ++ [],
      msg3 realCr (realCr.dh xa0 (realCr.pub xb0)) ih0 3 (handshakeMsg ih0 idc0),
      encSel (ksA realCr (realCr.dh xa0 (realCr.pub xb0)) ih0) 84 2 earlyC])
    (hcc : flat cc = [[], realCr.pub xb0 ++ [],
      msg4 realCr (realCr.dh xa0 (realCr.pub xb0)) ih0 2 ++
        encSel (ksB realCr (realCr.dh xa0 (realCr.pub xb0)) ih0) 14 2 (handshakeMsg ih0 ids0 ++ earlyS)]) :
    ∃ a b stC stS,
      exec (cryptoClient realCr (defaultOptions true false) xa0 [] ih0 idc0) cc = .ok a stC ∧
      exec (server repaired realCr (defaultOptions true false) xb0 [] [(ih0, ids0)]) cs = .ok b stS ∧
      a.rc4 = true ∧ b.rc4 = true ∧ a.hash = ih0 ∧ b.hash = ih0 ∧ a.id = ids0 ∧ b.id = idc0 ∧
      stC.rest = earlyS ∧ stS.rest = earlyC := by
  have hp : cryptoProvide (defaultOptions true false) = 3 := by decide
  have hs : serverSelect (defaultOptions true false) 3 = 2 := by decide
  have h := C07_agree_mse repaired realCr (defaultOptions true false) (defaultOptions true false)
    xa0 [] xb0 [] [(ih0, ids0)] ih0 idc0 ids0 earlyC earlyS cc cs realAlgebra
    (by decide) (by decide) (by decide)
    (by simp [findHash, ih0])
    (by simp [findSkey])
    rfl rfl (by decide) (by decide) (by decide) (by decide)
    (by rw [hp]; unfold msg3; rw [List.append_assoc]; exact markerFirst_nil _ _)
    (by rw [hp, hs]; unfold msg4
        rw [List.append_assoc vc, xorAt_append, List.append_assoc]; exact markerFirst_nil _ _)
    (by rw [hp, hs]; exact hcs) (by rw [hp, hs]; exact hcc)
  rw [hp, hs] at h
  exact ⟨_, _, _, _, h.1, h.2.1, rfl, rfl, rfl, rfl, rfl, rfl, rfl, rfl⟩


end Storrent.Props.C07
