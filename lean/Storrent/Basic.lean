def hello := "world"
