#!/bin/bash
# one-time setup after a fresh restore (offline): regenerate tables, build proofs, model
# drivers and harnesses.  Every check re-does the parts that depend on /repo anyway.
set -e
cd "$(dirname "$0")"
export GOFLAGS=-mod=mod GOPROXY=off GOSUMDB=off GOTOOLCHAIN=local CGO_ENABLED=0
mkdir -p harness/bin .work evidence/replays
cp /repo/go.sum harness/go.sum 2>/dev/null || true
(cd harness && go build -o bin/extract ./cmd/extract && ./bin/extract -repo /repo -out ../lean/Storrent/Gen) || true
(cd lean && lake build 2>&1 | tail -5) || true
(cd lean && lake build $(grep -o 'name = "model-[a-z0-9]*"' lakefile.toml | cut -d'"' -f2) 2>&1 | tail -3) || true
(cd harness && for d in cmd/*/; do n=$(basename $d); go build -tags verif -o bin/$n ./cmd/$n || true; done)
echo setup done
